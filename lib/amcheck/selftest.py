"""Binding demonstrations (DESIGN §9.1): for every trace specification, a real trace is accepted, and the same trace
with ONE logged field corrupted (or one event dropped) is rejected - the specification is bound to what the
implementation logs, not only to the trace's length.  Also the other direction: a TLC behaviour with one expected
value changed is reported as a mismatch by the replay binary.

    bin/check selftest        exit 0 = every demonstration behaved as required, 2 otherwise
"""
import copy, json, os, shutil
from . import VERIF, drive, read_trace, write_trace, tlc_trace, log, ToolError, replay_bin, tlc_behaviours

WORK = os.path.join(VERIF, 'work', 'selftest')


def first(events, pred):
    for i, e in enumerate(events):
        if pred(e):
            return i
    raise ToolError("selftest: no event to corrupt")


def corrupt_head(evs):
    i = first(evs, lambda e: e.get('ev') == 'commit' and e.get('hash') and len(e.get('obs', {}).get('heads', [])) >= 1)
    evs[i]['obs']['heads'] = evs[i]['obs']['heads'][:-1] + ['hffffffffffff']
    return "one head of an observation replaced"


def corrupt_opid(evs):
    i = first(evs, lambda e: e.get('ev') == 'commit' and e.get('def', {}).get('ops'))
    evs[i]['def']['startOp'] += 1
    return "startOp of a committed change + 1"


def corrupt_view_value(evs):
    def has_int(e):
        return any(v['v']['k'] == 'int' for o in e.get('obs', {}).get('view', []) for r in o.get('ents', []) for v in r['vals'])
    i = first(evs, has_int)
    for o in evs[i]['obs']['view']:
        for r in o.get('ents', []):
            for v in r['vals']:
                if v['v']['k'] == 'int':
                    v['v']['s'] = str(int(v['v']['s']) + 1)
                    return "an int value of a projected view + 1"


def corrupt_call_after(evs):
    def ok_put(e):
        return any(c.get('fn') == 'put' and c.get('res') == 'ok' and 'key' in c for c in e.get('calls', []))
    i = first(evs, ok_put)
    for c in evs[i]['calls']:
        if c.get('fn') == 'put' and c.get('res') == 'ok' and 'key' in c:
            c['after'] = copy.deepcopy(c['before'])
            return "the view after a successful put replaced by the view before it"


def drop_event(evs):
    i = first(evs, lambda e: e.get('ev') == 'commit' and e.get('hash'))
    del evs[i]
    return "one commit event dropped"


def drop_patch(evs):
    i = first(evs, lambda e: e.get('ev') == 'commit' and len(e.get('patches') or []) >= 1 and not e.get('iso'))
    evs[i]['patches'] = evs[i]['patches'][:-1]
    return "last patch of a commit dropped"


def corrupt_readat(evs):
    seen = set()
    for i, e in enumerate(evs):
        if e.get('ev') == 'reset':
            seen = set()
        elif e.get('ev') == 'readat' and 'anc' in e and frozenset(e['anc']) in seen and any(o.get('ents') for o in e.get('view', [])):
            for o in e['view']:
                if o.get('ents'):
                    o['ents'] = o['ents'][1:]
                    return "one key dropped from a historical read"
        elif 'view' in e.get('obs', {}):
            seen.add(frozenset(e['obs']['applied']))
    raise ToolError("selftest: no comparable historical read")


CASES = [
    # (label, family, n, spec, checks, corruption)
    ("graph-head", "graph", 8, "Trace_Graph.tla", ["C04", "C05", "C10"], corrupt_head),
    ("graph-startop", "graph", 8, "Trace_Graph.tla", ["C04"], corrupt_opid),
    ("graph-dropped-event", "graph", 8, "Trace_Graph.tla", ["C04", "C05"], drop_event),
    ("interp-view-value", "doc", 8, "Trace_Interp.tla", ["C02"], corrupt_view_value),
    ("seq-call-effect", "seq", 8, "Trace_Seq.tla", ["C03"], corrupt_call_after),
    ("view-dropped-patch", "patch", 10, "Trace_View.tla", ["C09"], drop_patch),
    ("same-historical-read", "histlong", 3, "Trace_Same.tla", ["C07"], corrupt_readat),
]


def main():
    shutil.rmtree(WORK, ignore_errors=True)
    os.makedirs(WORK, exist_ok=True)
    bad = 0
    for label, family, n, spec, checks, corr in CASES:
        t = os.path.join(WORK, f"{label}.ndjson")
        drive([family, 1, n, t])
        r = tlc_trace(spec, checks, t, os.path.join(WORK, "tlc-" + label))
        evs = read_trace(t)
        if not r["accepted"]:
            # a listed known finding may reject the pristine trace: cut the trace before that event
            evs = evs[:r["rejected_at"] - 1]
            write_trace(t, evs)
            r = tlc_trace(spec, checks, t, os.path.join(WORK, "tlc-" + label))
        what = corr(evs)
        t2 = os.path.join(WORK, f"{label}-corrupted.ndjson")
        write_trace(t2, evs)
        r2 = tlc_trace(spec, checks, t2, os.path.join(WORK, "tlc-" + label))
        ok = r["accepted"] and not r2["accepted"]
        log(f"[selftest] {label}: pristine {'accepted' if r['accepted'] else 'REJECTED'}, {what}: "
            f"{'rejected' if not r2['accepted'] else 'ACCEPTED'} -> {'ok' if ok else 'FAIL'}")
        bad += 0 if ok else 1
    # spec -> impl: change one expected value of a TLC behaviour, the replay must report a mismatch
    from .props import GEN_DOC_CFG
    cfg = GEN_DOC_CFG % ("1, 2", 3, '"k1"', "FALSE", "TRUE", "FALSE", "FALSE", "FALSE", "cp", "FALSE", "FALSE", "EmitAll", "VIEW TransitionView\n")
    behs, _ = tlc_behaviours("Doc.tla", cfg, os.path.join(WORK, "gendoc"), {}, 0, 4, 1, exhaustive=True, workers=2)
    behs = sorted(set(behs))[:200]
    bp = os.path.join(WORK, "beh.ndjson")
    open(bp, "w").write("\n".join(behs) + "\n")
    res = replay_bin(["doc", bp, os.path.join(WORK, "rep.json")])
    pristine_ok = res["behaviours"] == len(behs) and not res["mismatches"]
    done = False
    out = []
    for b in behs:
        j = json.loads(b)
        if not done:
            for st in j:
                for o in st.get("exp", []):
                    for reg in o.get("ents", []):
                        for v in reg.get("vals", []):
                            if v["v"]["k"] == "int" and not done:
                                v["v"]["s"] = str(int(v["v"]["s"]) + 1)
                                done = True
        out.append(json.dumps(j))
    open(bp, "w").write("\n".join(out) + "\n")
    res2 = replay_bin(["doc", bp, os.path.join(WORK, "rep.json")])
    ok = pristine_ok and done and len(res2["mismatches"]) >= 1
    log(f"[selftest] replay: {len(behs)} pristine behaviours {'match' if pristine_ok else 'MISMATCH'}, one expected value + 1: "
        f"{len(res2['mismatches'])} mismatch(es) -> {'ok' if ok else 'FAIL'}")
    bad += 0 if ok else 1
    log(f"[selftest] {'all demonstrations behaved as required' if not bad else str(bad) + ' demonstration(s) FAILED'}")
    return 0 if not bad else 2
