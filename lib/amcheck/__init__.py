"""amcheck: orchestration of the TLA+ model-based checks (see DESIGN.md §3)."""
import json, os, re, shutil, subprocess, sys, time, hashlib

VERIF = os.path.dirname(os.path.dirname(os.path.dirname(os.path.abspath(__file__))))
SPEC = os.path.join(VERIF, 'spec')
HARNESS = os.path.join(VERIF, 'harness')
EVID = os.path.join(VERIF, 'evidence')
REPLAYS = os.path.join(EVID, 'replays')
BIN = os.path.join(HARNESS, 'target', 'debug')
JAVA_OPTS = "-Xss1g -XX:+UseParallelGC"


class ToolError(Exception):
    pass


def log(*a):
    print(*a, flush=True)


def sh(cmd, timeout=600, env=None, cwd=None, ok_codes=(0,)):
    e = dict(os.environ)
    if env:
        e.update(env)
    t0 = time.time()
    try:
        p = subprocess.run(cmd, shell=isinstance(cmd, str), cwd=cwd, env=e, timeout=timeout,
                           stdout=subprocess.PIPE, stderr=subprocess.STDOUT, text=True, errors='replace')
    except subprocess.TimeoutExpired as ex:
        raise ToolError(f"timeout after {timeout}s: {cmd}")
    if ok_codes is not None and p.returncode not in ok_codes:
        raise ToolError(f"command failed ({p.returncode}): {cmd}\n{p.stdout[-4000:]}")
    return p.returncode, p.stdout, time.time() - t0


_built = False


def build_harness():
    """Rebuild the harness (and automerge from /repo's working tree, hooks on)."""
    global _built
    if _built:
        return
    rc, out, dt = sh("cargo build --offline --bins 2>&1 | tail -40", timeout=2400, cwd=HARNESS,
                     env={"CARGO_NET_OFFLINE": "true"})
    if "Finished" not in out:
        raise ToolError("harness build failed:\n" + out[-4000:])
    _built = True
    log(f"[build] harness ok ({dt:.0f}s)")


def drive(args, timeout=1200):
    build_harness()
    rc, out, dt = sh([os.path.join(BIN, 'drive')] + [str(a) for a in args], timeout=timeout)
    m = re.search(r"DRIVE .*", out)
    log("[drive]", m.group(0) if m else out[-300:])
    return out


def read_trace(path):
    with open(path) as f:
        return [json.loads(l) for l in f if l.strip()]


def write_trace(path, events):
    with open(path, 'w') as f:
        for e in events:
            f.write(json.dumps(e, separators=(',', ':')) + "\n")


def scenarios(events):
    """split an event list at reset events -> list of lists"""
    out = []
    for e in events:
        if e.get('ev') == 'reset' or not out:
            out.append([])
        out[-1].append(e)
    return out


def tlc(spec, cfg_text, workdir, env=None, workers=1, timeout=900, extra=None, deque=True):
    os.makedirs(workdir, exist_ok=True)
    cfg = os.path.join(workdir, os.path.basename(spec).replace('.tla', '') + '.cfg')
    with open(cfg, 'w') as f:
        f.write(cfg_text)
    meta = os.path.join(workdir, 'tlcmeta')
    shutil.rmtree(meta, ignore_errors=True)
    jopts = JAVA_OPTS + (" -Dtlc2.tool.queue.IStateQueue=StateDeque" if deque else "")
    e = {"JAVA_TOOL_OPTIONS": jopts}
    if env:
        e.update(env)
    cmd = ["tlc", "-workers", str(workers), "-metadir", meta, "-cleanup", "-noGenerateSpecTE",
           "-config", cfg] + (extra or []) + [os.path.join(SPEC, spec)]
    rc, out, dt = sh(cmd, timeout=timeout, env=e, cwd=SPEC, ok_codes=None)
    shutil.rmtree(meta, ignore_errors=True)
    res = {"rc": rc, "out": out, "wall": dt}
    m = re.search(r"(\d+) states generated, (\d+) distinct states found", out)
    if m:
        res["generated"] = int(m.group(1))
        res["distinct"] = int(m.group(2))
    return res


TRACE_CFG = """SPECIFICATION %s
POSTCONDITION Accepted
CHECK_DEADLOCK FALSE
CONSTANT CHECKS = {%s}
"""


def tlc_trace(spec, checks, trace_path, workdir, timeout=1800):
    """Validate an ndjson trace.  Returns dict(accepted, rejected_at, fails, generated)."""
    cfg = TRACE_CFG % ("TSpec" if spec == "Trace_Storage.tla" else "Spec", ",".join('"%s"' % c for c in checks))
    r = tlc(spec, cfg, workdir, env={"TRACE": trace_path}, workers=1, timeout=timeout)
    out = r["out"]
    fails = [(m.group(1), m.group(2), int(m.group(3)))
             for m in re.finditer(r'<<\s*"CHECKFAIL",\s*"([^"]+)",\s*"([^"]+)",\s*(\d+)\s*>>', out)]
    rej = re.search(r'<<"REJECTED", (\d+), "([^"]*)">>', out)
    r["fails"] = fails
    if "Model checking completed. No error has been found." in out and not rej:
        r["accepted"] = True
    elif rej:
        r["accepted"] = False
        r["rejected_at"] = int(rej.group(1))
        r["rejected_ev"] = rej.group(2)
    else:
        raise ToolError("TLC trace validation did not finish cleanly:\n" + out[-3000:])
    return r


def tlc_behaviours(spec, cfg_text, workdir, env, num, depth, seed, timeout=900, exhaustive=False, workers=1):
    """Run a Gen_* behaviour generator; returns (list of behaviour JSON strings, tlc result)."""
    extra = [] if exhaustive else ["-simulate", f"num={num}", "-depth", str(depth), "-seed", str(seed)]
    r = tlc(spec, cfg_text, workdir, env=env, workers=workers, timeout=timeout, extra=extra, deque=False)
    out = r["out"]
    if "Error:" in out or ("Finished in" not in out):
        raise ToolError("behaviour generation failed (specification error):\n" + out[-3000:])
    behs = []
    for l in out.splitlines():
        m = re.match(r'<<"REPLAY", "(.*)">>\s*$', l)
        if m:
            behs.append(json.loads('"' + m.group(1) + '"'))
    m = re.search(r"The number of states generated: (\d+)", out)
    if m:
        r["generated"] = int(m.group(1))
        r["distinct"] = len(set(behs))
    return behs, r


def _replay_once(args, timeout):
    rc, out, dt = sh([os.path.join(BIN, 'replay')] + [str(a) for a in args], timeout=timeout, ok_codes=None)
    return rc, out


def replay_bin(args, timeout=2400):
    """Replay behaviours; large files are split into chunks that are replayed by concurrent processes."""
    build_harness()
    args = [str(a) for a in args]
    bi = 2 if args[0] == "delivery" else 1
    behs_path, out_path = args[bi], args[bi + 1]
    lines = [l for l in open(behs_path).read().splitlines() if l.strip()]
    if len(lines) <= 3000:
        return _replay_seq(args, timeout)
    import concurrent.futures
    k = min(8, (len(lines) + 1499) // 1500)
    size = (len(lines) + k - 1) // k
    jobs = []
    for c in range(k):
        chunk = lines[c * size:(c + 1) * size]
        if not chunk:
            continue
        bp, op = f"{behs_path}.chunk{c}", f"{out_path}.chunk{c}"
        with open(bp, "w") as f:
            f.write("\n".join(chunk) + "\n")
        a = list(args)
        a[bi], a[bi + 1] = bp, op
        jobs.append((c * size, a, bp, op))
    total = {"behaviours": 0, "steps": 0, "inconclusive": 0, "mismatches": []}
    with concurrent.futures.ThreadPoolExecutor(max_workers=k) as ex:
        futs = [(off, bp, op, ex.submit(_replay_seq, a, timeout, True)) for off, a, bp, op in jobs]
        for off, bp, op, fu in futs:
            res = fu.result()
            for key in ("behaviours", "steps", "inconclusive"):
                total[key] += res.get(key, 0)
            for mm in res["mismatches"]:
                if isinstance(mm.get("behaviour"), int):
                    mm["behaviour"] += off
                total["mismatches"].append(mm)
            for q in (bp, op):
                if os.path.exists(q):
                    os.remove(q)
    with open(out_path, "w") as f:
        json.dump(total, f)
    log(f"[replay] REPLAY behaviours={total['behaviours']} steps={total['steps']} mismatches={len(total['mismatches'])} ({len(jobs)} processes)")
    return total


def _replay_seq(args, timeout=2400, quiet=False):
    """Run the replay binary.  args = [mode, (dag,) behaviours, out, ...].  If the process dies (an abort caused by
    a panic inside a destructor during unwinding cannot be caught in-process) the offending behaviour is located
    through the progress marker, reported as a mismatch with fields ["abort"], and the rest is replayed."""
    build_harness()
    args = [str(a) for a in args]
    bi = 2 if args[0] == "delivery" else 1
    behs_path, out_path = args[bi], args[bi + 1]
    lines = [l for l in open(behs_path).read().splitlines() if l.strip()]
    total = {"behaviours": 0, "steps": 0, "inconclusive": 0, "mismatches": []}
    offset = 0
    rounds = 0
    while True:
        rounds += 1
        part = behs_path + f".part{rounds}"
        with open(part, "w") as f:
            f.write("\n".join(lines[offset:]) + "\n")
        a = list(args)
        a[bi] = part
        rc, out = _replay_once(a, timeout)
        if rc == 0 and os.path.exists(out_path):
            res = json.load(open(out_path))
            for k in ("behaviours", "steps", "inconclusive"):
                total[k] += res.get(k, 0)
            total["mismatches"] += res["mismatches"]
            os.remove(part)
            break
        # aborted: which behaviour?
        try:
            idx = int(open(out_path + ".progress").read().strip())
        except Exception:
            raise ToolError("replay binary failed without progress marker:\n" + out[-2000:])
        bad = lines[offset + idx]
        if idx > 0:   # replay the safe prefix to keep its results
            with open(part, "w") as f:
                f.write("\n".join(lines[offset:offset + idx]) + "\n")
            rc2, out2 = _replay_once(a, timeout)
            if rc2 == 0:
                res = json.load(open(out_path))
                for k in ("behaviours", "steps", "inconclusive"):
                    total[k] += res.get(k, 0)
                total["mismatches"] += res["mismatches"]
        bj = json.loads(bad)
        total["behaviours"] += 1
        total["mismatches"].append({"behaviour": offset + idx, "step": len(bj) - 1, "fields": ["abort"],
                                    "expected": bj[-1] if isinstance(bj, list) and bj else {}, "got": "process aborted (panic while panicking)",
                                    "line": bj})
        os.remove(part)
        offset += idx + 1
        if offset >= len(lines) or rounds > 40:
            break
    with open(out_path, "w") as f:
        json.dump(total, f)
    if not quiet:
        log(f"[replay] REPLAY behaviours={total['behaviours']} steps={total['steps']} mismatches={len(total['mismatches'])}")
    return total


class Run:
    """One invocation of a property check: collects coverage, violations, known findings."""

    def __init__(self, pid, tier, seed, level):
        self.pid, self.tier, self.seed, self.level = pid, tier, seed, level
        self.t0 = time.time()
        self.work = os.path.join(VERIF, 'work', f"{pid}-{tier}")
        shutil.rmtree(self.work, ignore_errors=True)
        os.makedirs(self.work, exist_ok=True)
        os.makedirs(REPLAYS, exist_ok=True)
        self.cov = {"states": 0, "transitions": 0, "traces_validated_against_impl": 0,
                    "evaluations": 0, "distinct_nontrivial": 0, "samples": [], "rule": "",
                    "checker_cmd": " ".join(["bin/check", pid, "--tier", tier]),
                    "trusted_base": ["TLC 1.8.0", "harness projection (harness/src/proj.rs)",
                                     "event encoder (harness/src/enc.rs, chg.rs)", "sha2 crate"],
                    "steps": []}
        self.assumptions = []
        self.violations = []   # (replay path, description)
        self.known_hits = []
        self.known = load_known(pid)
        self._nontrivial = set()

    # ---- bookkeeping
    def step(self, name, **kw):
        d = {"step": name}
        d.update(kw)
        self.cov["steps"].append(d)

    def add_states(self, res):
        self.cov["states"] += res.get("distinct", 0)
        self.cov["transitions"] += res.get("generated", 0)

    def sample(self, s):
        if len(self.cov["samples"]) < 4:
            self.cov["samples"].append(s)

    def nontrivial(self, key):
        self._nontrivial.add(key)

    def violation(self, events_or_obj, desc, cls=None):
        """Record a violation observed on the implementation; checks the known-findings file."""
        for k in self.known:
            if k.get("status") == "known" and match_known(k, desc, cls, events_or_obj):
                line = f"KNOWN-FINDING: property={self.pid} {k['detail']}"
                if line not in self.known_hits:
                    self.known_hits.append(line)
                    log(line)
                return False
        n = len(self.violations) + 1
        path = os.path.join(REPLAYS, f"{self.pid}-{self.tier}-{n}.ndjson")
        if isinstance(events_or_obj, list):
            write_trace(path, events_or_obj)
        else:
            with open(path, 'w') as f:
                json.dump(events_or_obj, f)
        with open(path + ".why", 'w') as f:
            f.write(desc + "\n")
        self.violations.append((path, desc))
        log(f"[violation] {desc}")
        return True

    # ---- generic trace validation with scenario isolation
    def validate(self, spec, checks, trace_path, label, max_rounds=6, classify=None, timeout=1800, spec_kind=None):
        """Validate a concatenated trace; on rejection cut the offending scenario out, record it,
        and continue with the rest so that the whole trace is examined."""
        events = read_trace(trace_path)
        scs = scenarios(events)
        # A panic inside the library is data: it is a violation of C37 (reported by the C37 check,
        # which runs every family).  For any other property the scenario is cut just before the
        # panicking event so that everything up to it is still validated.
        cut = 0
        # (the wire specs judge panics themselves: there a panic is the violation, not an interruption)
        for k, sc in enumerate(scs if spec != "Trace_Wire.tla" else []):
            for i, e in enumerate(sc):
                if is_panic(e):
                    # a delivery (apply_changes / load_incremental / merge) that crashes is also C05's business: a change
                    # must be held back or applied, never bring the library down
                    if self.pid == "C05" and e.get('ev') in ('deliver', 'merge'):
                        self.violation(sc, f"{label}: event #{i+1} ({e.get('ev')}) of scenario {sc[0].get('scn')} panicked during a delivery: {e.get('res')}",
                                       {"checks": ["panic-in-delivery"], "event": e, "scenario": sc, "index": i})
                    if self.pid == "C37":
                        self.violation(sc, f"{label}: event #{i+1} ({e.get('ev')}) of scenario {sc[0].get('scn')} panicked: {e.get('res')}",
                                       {"checks": ["panic"], "event": e, "scenario": sc, "index": i})
                    scs[k] = sc[:i]
                    cut += 1
                    break
        if cut:
            self.cov.setdefault("scenarios_cut_at_panic", 0)
            self.cov["scenarios_cut_at_panic"] += cut
        total_sc = len(scs)
        total_ev = len(events)
        accepted_sc = 0
        rounds = 0
        gen = 0
        known_rounds = 0
        while scs and rounds < max_rounds and known_rounds < 60:
            rounds += 1
            p = os.path.join(self.work, f"{label}-r{rounds}.ndjson")
            flat = [e for s in scs for e in s]
            write_trace(p, flat)
            r = tlc_trace(spec, checks, p, os.path.join(self.work, f"tlc-{label}"), timeout=timeout)
            gen += r.get("generated", 0)
            self.add_states(r)
            if r["accepted"]:
                accepted_sc += len(scs)
                scs = []
                break
            # locate the scenario holding the rejected event (1-based index into flat)
            idx = r["rejected_at"] - 1
            pos = 0
            bad = None
            for k, s in enumerate(scs):
                if pos <= idx < pos + len(s):
                    bad = k
                    break
                pos += len(s)
            if bad is None:
                raise ToolError("rejected index outside trace: %r" % r["rejected_at"])
            fails = [f for f in r["fails"] if f[2] == r["rejected_at"]]
            names = sorted(set(f"{f[0]}:{f[1]}" for f in fails)) or ["no-enabled-action:" + r.get("rejected_ev", "?")]
            ev = scs[bad][idx - pos]
            desc = f"{label}: event #{idx - pos + 1} ({ev.get('ev')}) of scenario {scs[bad][0].get('scn')} rejected by {spec}: " + ", ".join(names)
            cls = {"checks": names, "event": ev, "scenario": scs[bad], "index": idx - pos}
            if classify:
                cls.update(classify(cls) or {})
            if not self.violation(scs[bad], desc, cls):
                rounds -= 1          # a listed known finding does not use up the rejection budget
                known_rounds += 1
            accepted_sc += bad
            scs = scs[bad + 1:]
        if scs:
            self.assumptions.append(f"{label}: validation stopped after {max_rounds} rejections; {len(scs)} scenarios unexamined")
        self.cov["traces_validated_against_impl"] += accepted_sc
        self.cov["evaluations"] += total_ev
        self.step(label, spec=spec, checks=list(checks), scenarios=total_sc, events=total_ev,
                  accepted_scenarios=accepted_sc, tlc_states=gen)
        return accepted_sc

    # ---- finish
    def finish(self):
        self.cov["distinct_nontrivial"] = len(self._nontrivial)
        ev = {
            "property_id": self.pid, "tier": self.tier, "seed": self.seed, "level": self.level,
            "coverage": self.cov, "assumptions": self.assumptions,
            "wall_s": round(time.time() - self.t0, 2), "violations": len(self.violations),
        }
        if self.known_hits:
            ev["coverage"]["known_findings_hit"] = self.known_hits
        os.makedirs(EVID, exist_ok=True)
        with open(os.path.join(EVID, f"{self.pid}.json"), 'w') as f:
            json.dump(ev, f, indent=1)
        if self.violations:
            for path, desc in self.violations:
                print(f"VIOLATION property={self.pid} replay={path}", flush=True)
            return 1
        log(f"[ok] {self.pid} {self.tier}: states={self.cov['states']} traces={self.cov['traces_validated_against_impl']} "
            f"nontrivial={self.cov['distinct_nontrivial']} wall={ev['wall_s']}s")
        return 0


def is_panic(e):
    r = str(e.get('res', ''))
    if r.startswith('panic') or r.startswith('obs-panic'):
        return True
    return False


def load_known(pid):
    p = os.path.join(VERIF, 'KNOWN_FINDINGS.jsonl')
    out = []
    if os.path.exists(p):
        for l in open(p):
            l = l.strip()
            if l and not l.startswith('#'):
                k = json.loads(l)
                if k.get("property") == pid:
                    out.append(k)
    return out


class H:
    """helpers usable inside KNOWN_FINDINGS class_expr predicates (they only inspect logged events)"""

    @staticmethod
    def reg_before(call):
        for o in call.get('before') or []:
            if o['id'] == call.get('obj'):
                if 'key' in call:
                    for e in o.get('ents', []):
                        if e['k'] == call['key']:
                            return e
                else:
                    regs = o.get('elems') or o.get('units') or []
                    i = call.get('idx', -1)
                    if 0 <= i < len(regs):
                        return regs[i]
        return {'vals': [], 'win': [-1, -1]}

    @staticmethod
    def nvals_before(call):
        return len(H.reg_before(call)['vals'])

    @staticmethod
    def conflict_resolution_put(call):
        r = H.reg_before(call)
        if call.get('fn') != 'put' or call.get('res') != 'ok' or len(r['vals']) < 2:
            return False
        w = [x for x in r['vals'] if x['id'] == r['win']]
        return bool(w) and w[0]['v'] == call.get('val')

    @staticmethod
    def panic_file(e):
        """source file (relative to rust/) of the panic an outcome string names, '' if it is not a panic"""
        o = str(e.get('o') or e.get('res') or '')
        m = re.match(r'(?:obs-)?panic:(\S+?):(\d+) ', o)
        return m.group(1) if m else ''

    @staticmethod
    def has_combining(e):
        """some text object of the event's view holds a combining mark / ZWJ / variation selector"""
        views = [e.get('obs', {}).get('view') or [], e.get('view') or []]
        for c in e.get('calls') or []:
            views += [c.get('before') or [], c.get('after') or []]
        for v in views:
            for o in v:
                if any(t in ('cacute', 'zwj', 'vs16') for t in (o.get('text') or [])):
                    return True
        return False

    @staticmethod
    def list_batch_with_later_insert(e):
        seen = set()
        for p in e.get('patches') or []:
            k = tuple(p['obj'])
            if p['act'] == 'Insert' and k in seen:
                return True
            if p['act'] in ('Insert', 'PutSeq', 'DeleteSeq'):
                seen.add(k)
        return False


    @staticmethod
    def _after_view(e):
        """the projection after the event: obs.view of a replica event, v2 of a ptrans / diff event"""
        return {tuple(o['id']): o for o in ((e.get('obs') or {}).get('view') or e.get('v2') or [])}

    @staticmethod
    def remote_batch(e):
        """changes of other replicas applied in one call (delivery, merge, or the sync session of a ptrans probe)"""
        return e.get('ev') in ('deliver', 'merge') or (e.get('ev') == 'ptrans' and e.get('kind') == 'sync-receive')

    @staticmethod
    def conflict_patch_loses_increment(c):
        """a remote batch adds a conflicting value to a register and increments the register's winning counter: only the
        Conflict patch is logged, the increment is lost"""
        sc, idx, e = c.get('scenario') or [], c.get('index', -1), c.get('event') or {}
        before = None
        if 'v1' in e:
            before = {'v2': e['v1']}
        else:
            for p in reversed(sc[:idx]):
                if p.get('r') == e.get('r') and 'view' in (p.get('obs') or {}):
                    before = p
                    break
        if before is None:
            return False
        ps = e.get('patches') or []
        for p in ps:
            if p.get('act') != 'Conflict':
                continue
            ra, rb = H._reg_after(e, p), H._reg_after(before, p)
            if not ra or not rb:
                continue
            same_slot = lambda q: q.get('obj') == p.get('obj') and q.get('iskey') == p.get('iskey') and q.get('key') == p.get('key') and q.get('index') == p.get('index')
            if any(q.get('act') == 'Increment' and same_slot(q) for q in ps):
                continue
            wb = [v for v in rb['vals'] if v['id'] == rb['win']]
            wa = [v for v in ra['vals'] if v['id'] == rb['win']]
            if wb and wa and wb[0]['v'].get('k') == 'counter' and wa[0]['v'].get('k') == 'counter' and wb[0]['v'].get('n') != wa[0]['v'].get('n'):
                return True
        return False

    @staticmethod
    def append_after_unmarks(c):
        """the event is a transaction of one splice_text that appends at the end of a text on which an earlier call of
        the scenario was an unmark (so tombstoned characters and unmark anchors can follow the last visible character)"""
        sc, idx, e = c.get('scenario') or [], c.get('index', -1), c.get('event') or {}
        calls = e.get('calls') or []
        if e.get('ev') != 'commit' or len(calls) != 1 or calls[0].get('fn') != 'splice_text' or calls[0].get('del') != 0:
            return False
        call = calls[0]
        before = [o for o in (call.get('before') or []) if o['id'] == call.get('obj')]
        if not before or call.get('idx') != before[0].get('len'):
            return False
        return any(k.get('fn') == 'unmark' and k.get('obj') == call.get('obj') and k.get('res') == 'ok'
                   for p in sc[:idx] for k in (p.get('calls') or []))

    @staticmethod
    def put_patch_counter_stale(e):
        """a Put patch of a remote batch carries a counter value other than the value that counter has afterwards
        (increments of the same batch are missing from it)"""
        for p in e.get('patches') or []:
            if p.get('act') in ('PutSeq', 'PutMap') and (p.get('val') or {}).get('k') == 'counter':
                r = H._reg_after(e, p)
                for v in (r or {}).get('vals', []):
                    if v['id'] == p.get('id') and v['v'].get('k') == 'counter' and v['v'].get('n') != p['val'].get('n'):
                        return True
        return False

    @staticmethod
    def insert_patch_misplaced(e):
        """the values of some Insert patch do not stand at index, index+1, ... in the document afterwards (separate
        inserts of one batch coalesced into one patch, or a later insert logged with an unadjusted index)"""
        view = H._after_view(e)
        for p in e.get('patches') or []:
            if p.get('act') != 'Insert' or not p.get('values'):
                continue
            o = view.get(tuple(p['obj']))
            if not o:
                continue
            regs = o.get('elems') or o.get('units') or []
            pos = {}
            for i, r in enumerate(regs):
                for v in r.get('vals', []):
                    pos[tuple(v['id'])] = i
            idx = [pos.get(tuple(v['id'])) for v in p['values']]
            if all(x is not None for x in idx) and idx != list(range(p['index'], p['index'] + len(idx))):
                return True
        return False

    @staticmethod
    def _reg_after(e, p):
        view = H._after_view(e)
        o = view.get(tuple(p['obj']))
        if not o:
            return None
        if p.get('iskey') or p.get('act') in ('PutMap', 'DeleteMap'):
            for r in o.get('ents') or []:
                if r['k'] == p.get('key'):
                    return r
            return None
        regs = o.get('elems') or o.get('units') or []
        i = p.get('index', -1)
        return regs[i] if 0 <= i < len(regs) else None

    @staticmethod
    def incr_then_insert(e):
        """a remote batch increments the list element at index i and inserts right after it: the Insert patch is
        logged with index i although the new element stands at i + 1 afterwards"""
        ps = e.get('patches') or []
        view = H._after_view(e)
        for a, p1 in enumerate(ps):
            if p1.get('act') != 'Increment' or p1.get('iskey'):
                continue
            for p2 in ps[a + 1:]:
                if p2.get('act') == 'Insert' and p2['obj'] == p1['obj'] and p2.get('index') == p1.get('index') and p2.get('values'):
                    o = view.get(tuple(p2['obj']))
                    regs = (o.get('elems') or o.get('units') or []) if o else []
                    j = p2['index'] + 1
                    if j < len(regs) and any(v['id'] == p2['values'][0]['id'] for v in regs[j]['vals']):
                        return True
        return False

    @staticmethod
    def conflict_patch_on_single(e):
        """a Conflict patch of a remote batch names a register that holds a single value afterwards"""
        for p in e.get('patches') or []:
            if p.get('act') == 'Conflict':
                r = H._reg_after(e, p)
                if r is not None and len(r.get('vals', [])) == 1:
                    return True
        return False

    @staticmethod
    def increment_on_deconflicted(c):
        """a remote batch increments a counter of a register that was conflicted before the batch and is not
        afterwards (the other value was deleted in the same batch): only the Increment patch is logged"""
        sc, idx, e = c.get('scenario') or [], c.get('index', -1), c.get('event') or {}
        before = None
        if 'v1' in e:
            before = {'v2': e['v1']}
        else:
            for p in reversed(sc[:idx]):
                if p.get('r') == e.get('r') and 'view' in (p.get('obs') or {}):
                    before = p
                    break
        if before is None:
            return False
        for p in e.get('patches') or []:
            if p.get('act') == 'Increment':
                ra, rb = H._reg_after(e, p), H._reg_after(before, p)
                if ra is not None and rb is not None and len(rb.get('vals', [])) > 1 and len(ra.get('vals', [])) == 1:
                    return True
        return False

    @staticmethod
    def insert_patch_misordered(e):
        """some Insert patch of the event lists its values in another relative order than the document holds them
        afterwards (separate inserts coalesced into one patch, the later one with an unadjusted index)"""
        view = {tuple(o['id']): o for o in (e.get('obs') or {}).get('view') or []}
        for p in e.get('patches') or []:
            if p.get('act') != 'Insert' or len(p.get('values') or []) < 2:
                continue
            o = view.get(tuple(p['obj']))
            if not o:
                continue
            regs = o.get('elems') or o.get('units') or []
            pos = {}
            for i, r in enumerate(regs):
                for v in r.get('vals', []):
                    pos[tuple(v['id'])] = i
            idx = [pos.get(tuple(v['id'])) for v in p['values']]
            if all(x is not None for x in idx) and idx != sorted(idx):
                return True
        return False


def match_known(k, desc, cls, obj):
    """A known finding matches when its 'check' name is among the failed checks (or its 'desc_re'
    matches the description) AND its class predicate (a python expression over cls) holds."""
    cls = cls or {}
    if "check" in k:
        if not any(c.endswith(":" + k["check"]) or c == k["check"] for c in cls.get("checks", [])):
            return False
    if "desc_re" in k and not re.search(k["desc_re"], desc):
        return False
    if "class_expr" in k:
        try:
            # (c and e are globals of the expression so that generator expressions inside it can see them)
            if not eval(k["class_expr"], {"re": re, "json": json, "H": H, "c": cls, "e": cls.get("event", {})}):
                return False
        except Exception:
            return False
    return True


def digest_of(obj):
    return hashlib.sha256(json.dumps(obj, sort_keys=True).encode()).hexdigest()[:16]


def main(argv):
    import argparse
    from . import props
    ap = argparse.ArgumentParser()
    ap.add_argument("pid")
    ap.add_argument("--tier", default=os.environ.get("VERIF_TIER", "quick"))
    ap.add_argument("--replay")
    if argv and argv[0] == "selftest":
        from . import selftest
        try:
            return selftest.main()
        except ToolError as ex:
            log("TOOL-ERROR:", ex)
            return 2
    a = ap.parse_args(argv)
    seed = int(os.environ.get("VERIF_SEED", "1"))
    if a.pid not in props.REG:
        print(f"unknown property {a.pid}", file=sys.stderr)
        return 2
    level, fn = props.REG[a.pid]
    run = Run(a.pid, a.tier if a.tier in ("quick", "thorough") else "quick", seed, level)
    try:
        if a.replay:
            props.replay(run, a.replay)
        else:
            fn(run)
        return run.finish()
    except ToolError as ex:
        log("TOOL-ERROR:", ex)
        return 2
