"""Per-property check procedures."""
import os, json
from . import (Run, ToolError, drive, read_trace, scenarios, digest_of, log, tlc, SPEC,
               tlc_behaviours, replay_bin)


def sizes(run, quick, thorough):
    return quick if run.tier == "quick" else thorough


def shape(sc):
    """hash of the event sequence without observations (distinctness of scenarios)"""
    return digest_of([[e.get('ev'), e.get('r'), e.get('via'), e.get('batch'), e.get('from'),
                       e.get('hash'), e.get('iso'), e.get('res')] for e in sc])


def count_nontrivial(run, trace_path, pred):
    for sc in scenarios(read_trace(trace_path)):
        if pred(sc):
            run.nontrivial(shape(sc))


def sample_scenario(run, trace_path, pred, maxlen=12):
    for sc in scenarios(read_trace(trace_path)):
        if pred(sc):
            run.sample([{k: v for k, v in e.items() if k not in ('obs', 'def', 'calls')} for e in sc[:maxlen]])
            return


# ---------------------------------------------------------------- graph family
def graph_trace(run, checks, pred, rule, nq, nt, family="graph"):
    n = sizes(run, nq, nt)
    t = os.path.join(run.work, f"{family}.ndjson")
    drive([family, run.seed, n, t])
    run.validate("Trace_Graph.tla", checks, t, family)
    count_nontrivial(run, t, pred)
    sample_scenario(run, t, pred)
    run.cov["rule"] = rule


def has_queue(sc):
    return any(e.get('obs', {}).get('queued') for e in sc)


def has_merge_commit(sc):
    return any(e.get('ev') == 'commit' and e.get('def') and (len(e['def']['deps']) >= 2 or e.get('iso')) for e in sc)


def has_dup(sc):
    return any(e.get('ev') in ('deliver', 'merge') and 'DuplicateSeq' in str(e.get('res')) for e in sc)


def has_retrieval(sc):
    return any(e.get('ev') == 'getchanges' and e.get('have') for e in sc)


def mc_graph(run, cfgname, timeout=900):
    """design-level model checking of ChangeGraph.tla (exhaustive over small constants)"""
    cfg = open(os.path.join(SPEC, cfgname)).read()
    workers = 4 if run.tier == "quick" else 8
    r = tlc("MC_ChangeGraph.tla", cfg, os.path.join(run.work, "mc-" + cfgname), workers=workers,
            timeout=timeout, deque=False)
    if "No error has been found" not in r["out"]:
        raise ToolError("design-level model checking failed (specification error, not an implementation "
                        "violation):\n" + r["out"][-3000:])
    run.add_states(r)
    run.step("mc:" + cfgname, distinct=r.get("distinct"), generated=r.get("generated"), wall=round(r["wall"], 1))


def gen_delivery(run, dagfam, ndags, num, depth, maxchanges=5, maxbatch=3, bundles=False):
    """spec -> impl: TLC samples delivery schedules over real DAGs, replayed on the implementation"""
    d = os.path.join(run.work, dagfam)
    drive([dagfam, run.seed, ndags, d, maxchanges])
    cfg = open(os.path.join(SPEC, "Gen_Delivery.cfg")).read().replace("Depth = 6", f"Depth = {depth}") \
        .replace("MaxBatch = 3", f"MaxBatch = {maxbatch}").replace("WithBundles = FALSE", "WithBundles = " + ("TRUE" if bundles else "FALSE"))
    total = 0
    for i in range(ndags):
        dag = os.path.join(d, f"dag-{i}.json")
        if not os.path.exists(dag):
            continue
        behs, r = tlc_behaviours("Gen_Delivery.tla", cfg, os.path.join(run.work, "gen"), {"DAG": dag},
                                 num, depth + 1, run.seed + i)
        run.add_states(r)
        bp = os.path.join(run.work, f"beh-{dagfam}-{i}.ndjson")
        with open(bp, "w") as f:
            f.write("\n".join(behs) + "\n")
        outp = os.path.join(run.work, f"rep-{dagfam}-{i}.json")
        replay_bin(["delivery", dag, bp, outp])
        res = json.load(open(outp))
        total += res["behaviours"]
        run.cov["evaluations"] += res["steps"]
        for b in set(behs):
            bj = json.loads(b)
            if any(s["queue"] for s in bj):
                run.nontrivial("beh:" + digest_of(b))
        if behs:
            run.sample({"dag": os.path.basename(dag), "behaviour": json.loads(behs[0])[:3]})
        for mm in res["mismatches"][:3]:
            obj = {"dag": json.load(open(dag)), "behaviour": mm["line"], "step": mm["step"],
                   "fields": mm["fields"], "expected": mm["expected"], "got": mm["got"]}
            run.violation(obj, f"replay of TLC delivery schedule on {os.path.basename(dag)}: step {mm['step']} "
                               f"({mm['expected']['via']}) differs from the specification in {mm['fields']}",
                          {"checks": ["replay:" + f for f in mm["fields"]], "event": mm["expected"]})
    run.cov["traces_validated_against_impl"] += total
    run.step("gen_delivery:" + dagfam, dags=ndags, behaviours=total)


def c04(run):
    if os.path.exists(os.path.join(SPEC, "MC_ChangeGraph.tla")):
        mc_graph(run, "MC_ChangeGraph_quick.cfg" if run.tier == "quick" else "MC_ChangeGraph_thorough.cfg")
    graph_trace(run, ["C04"], has_merge_commit,
                "seeded random programs over 2-4 replicas (commits, empty commits, isolated commits, merges, "
                "out-of-order/duplicated deliveries via 4 ingestion paths, forks, fork_at, actor switches, "
                "save/load); non-trivial = scenario (distinct by event sequence) containing a commit made on "
                "several heads or under isolation", 150, 3000)


def c05(run):
    mc_graph(run, "MC_ChangeGraph_quick.cfg" if run.tier == "quick" else "MC_ChangeGraph_thorough.cfg")
    if run.tier == "quick":
        gen_delivery(run, "dag", 3, 20, 6)
    else:
        gen_delivery(run, "dag", 20, 150, 7, maxchanges=6)
    graph_trace(run, ["C05"], has_queue,
                "same programs as C04; non-trivial = scenario in which some replica held a change in its "
                "pending queue (observed through the hook and get_missing_deps)", 150, 3000)


def c38(run):
    if os.path.exists(os.path.join(SPEC, "MC_ChangeGraph.tla")):
        mc_graph(run, "MC_ChangeGraph_quick.cfg" if run.tier == "quick" else "MC_ChangeGraph_thorough.cfg")
    graph_trace(run, ["C38"], has_dup,
                "programs in which forks keep the actor id of their origin and set_actor reuses ids, so that "
                "different changes with equal (actor, seq) exist; non-trivial = scenario with a delivery "
                "rejected for a duplicate sequence number", 100, 2000)
    graph_trace(run, ["C38"], has_dup, run.cov["rule"], 250, 5000, family="dup")
    if run.tier == "quick":
        gen_delivery(run, "dagdup", 3, 20, 6)
    else:
        gen_delivery(run, "dagdup", 20, 150, 7, maxchanges=6)


def c10(run):
    graph_trace(run, ["C10"], has_retrieval,
                "get_changes(have) for random antichains `have` and get_change_by_hash after every scenario, "
                "digests of raw bytes compared with the digest fixed when the change was created; "
                "long histories (17-48 changes, so that the graph's clock cache at every 16th change is used) with fresh "
                "actors that sort before the existing ones, rolled-back and empty transactions, forks, actor switches, "
                "save/load and retrievals in between (longgraph family); "
                "non-trivial = scenario with a retrieval for non-empty have", 150, 3000)
    t = os.path.join(run.work, "longgraph.ndjson")
    drive(["longgraph", run.seed, sizes(run, 120, 2500), t])
    run.validate("Trace_Graph.tla", ["C10"], t, "longgraph")
    count_nontrivial(run, t, has_retrieval)


# ---------------------------------------------------------------- document family
def view_objs(sc):
    for e in sc:
        v = e.get('obs', {}).get('view')
        if v:
            for o in v:
                yield o


def has_conflict(sc):
    for o in view_objs(sc):
        for reg in (o.get('ents') or []) + (o.get('elems') or []) + (o.get('units') or []):
            if len(reg.get('vals', [])) > 1:
                return True
    return False


def interp_trace(run, checks, family, n, pred, label=None, spec="Trace_Interp.tla", extra=None):
    t = os.path.join(run.work, f"{label or family}.ndjson")
    drive([family, run.seed, n, t] + (extra or []))
    run.validate(spec, checks, t, label or family)
    count_nontrivial(run, t, pred)
    sample_scenario(run, t, pred, maxlen=6)


GEN_DOC_CFG = """SPECIFICATION Spec
CONSTANTS
  Replicas = {%s}
  Depth = %d
  Keys = {%s}
  WithList = %s
  WithInserts = %s
  WithHist = %s
  WithRollback = %s
  WithText = %s
  Enc = "%s"
  WithIso = %s
  WithConflict3 = %s
INVARIANTS %s LocalEffect Convergence
%sCHECK_DEADLOCK FALSE
"""


def gen_doc(run, variants):
    """spec -> impl: TLC generates editing/merge programs from Doc.tla with the views Interp predicts;
    every behaviour is replayed on the implementation and compared after every step"""
    total = 0
    for vi, var in enumerate(variants):
        reps, depth, withlist, num = var[:4]
        inserts = var[4] if len(var) > 4 else True
        keys = var[5] if len(var) > 5 else '"k1"'
        whist = var[6] if len(var) > 6 else False
        wrb = var[7] if len(var) > 7 else False
        tenc = var[8] if len(var) > 8 else None
        wiso = var[10] if len(var) > 10 else False
        wc3 = var[11] if len(var) > 11 else False
        # num = 0: exhaustive search with transition coverage (one behaviour per (state, incoming
        # transition) pair); otherwise random simulation of num traces
        exh = num <= 0
        pathcov = (var[9] if len(var) > 9 else False) or bool(tenc)
        view = "StateView" if num < 0 else ("PathView" if pathcov else "TransitionView")
        cfg = GEN_DOC_CFG % (reps, depth, keys, "TRUE" if withlist else "FALSE",
                             "TRUE" if inserts else "FALSE", "TRUE" if whist else "FALSE",
                             "TRUE" if wrb else "FALSE", "TRUE" if tenc else "FALSE", tenc or "cp",
                             "TRUE" if wiso else "FALSE", "TRUE" if wc3 else "FALSE",
                             "EmitAll" if exh else "Emit",
                             ("VIEW %s\n" % view) if exh else "")
        behs, r = tlc_behaviours("Doc.tla", cfg, os.path.join(run.work, "gendoc"), {}, num, depth + 1,
                                 run.seed + vi, exhaustive=exh, workers=4 if exh else 1)
        if exh:
            run.cov["exhaustive"] = True
        run.add_states(r)
        bp = os.path.join(run.work, f"beh-doc-{vi}.ndjson")
        with open(bp, "w") as f:
            f.write("\n".join(behs) + "\n")
        outp = os.path.join(run.work, f"rep-doc-{vi}.json")
        replay_bin(["doc", bp, outp] + (["text:" + tenc] if tenc else (["list"] if withlist else (["conflict3"] if wc3 else []))))
        res = json.load(open(outp))
        total += res["behaviours"]
        run.cov["evaluations"] += res["steps"]
        for b in set(behs):
            if wrb and '"rolledback"' not in b:
                continue
            bj = json.loads(b)
            if any(len(reg.get("vals", [])) > 1 for st in bj if "exp" in st for o in st["exp"]
                   for reg in list(o.get("ents", [])) + list(o.get("elems", []))):
                run.nontrivial("beh:" + digest_of(b))
        if behs:
            run.sample({"gen": "Doc.tla", "behaviour": [{k: v for k, v in st.items() if k not in ("exp", "hreads")} for st in json.loads(behs[0])]})
        for mm in res["mismatches"][:3]:
            obj = {"variant": [reps, depth, withlist], "behaviour": mm["line"], "step": mm["step"],
                   "fields": mm["fields"], "expected": mm["expected"], "got": mm["got"]}
            what = mm["expected"].get("call", {"merge": mm["expected"].get("merge")})
            run.violation(obj, f"replay of TLC editing program (Doc.tla): step {mm['step']} {json.dumps(what)[:160]} "
                               f"differs from the specification in {mm['fields']}",
                          {"checks": ["replay:" + f for f in mm["fields"]], "event": mm["expected"]})
    run.cov["traces_validated_against_impl"] += total
    run.step("gen_doc", behaviours=total)


def c02(run):
    if run.tier == "quick":
        gen_doc(run, [("1, 2", 6, False, 0), ("1, 2", 3, True, 0), ("1, 2, 3", 6, True, 10),
                      ("1, 2, 3", 5, True, 40, False, ""),
                      # delivery-path coverage (states distinguished by which ops each merge delivered)
                      ("1, 2", 5, False, 0, True, '"k1"', False, False, None, True),
                      ("1, 2", 4, True, 0, False, '', False, False, None, True)])
    else:
        gen_doc(run, [("1, 2", 7, False, 0), ("1, 2", 4, True, 0), ("1, 2, 3", 5, False, 0),
                      ("1, 2, 3", 4, True, 0, False, ""), ("1, 2, 3", 7, True, 150),
                      ("1, 2", 6, False, 0, True, '"k1"', False, False, None, True),
                      ("1, 2", 5, True, 0, False, '', False, False, None, True)])
    run.cov["rule"] = ("seeded random multi-replica editing programs (maps, lists, text, counters, nested objects, "
                       "concurrent puts/inserts/deletes/increments, merges, out-of-order deliveries, forks, save/load); "
                       "after every event Interp(ops of applied changes) must equal the projected view; non-trivial = "
                       "scenario (distinct by event sequence) in which some register held a conflict")
    interp_trace(run, ["C02"], "conflict", sizes(run, 200, 4000), has_conflict)
    interp_trace(run, ["C02"], "doc", sizes(run, 150, 3000), has_conflict)
    interp_trace(run, ["C02"], "doctext", sizes(run, 100, 2000), has_conflict)


def reobserved(sc):
    seen = {}
    for e in sc:
        o = e.get('obs', {})
        if 'view' in o:
            k = tuple(o['applied'])
            seen.setdefault(k, set()).add((e.get('r'), e.get('ev'), e.get('via')))
    return any(len(v) > 1 and len(k) >= 3 for k, v in seen.items())


def c01(run):
    run.cov["rule"] = ("conflict-rich histories by 3 writers, then 4 fresh readers per scenario receive the same changes "
                       "in shuffled orders, random batchings, duplicates and through apply_changes / apply_changes_batch / "
                       "one-by-one / load_incremental / merge / save+load; Trace_Same demands equal observations for equal "
                       "applied sets across all replicas and times; TLC-generated programs (Doc.tla) are replayed with the "
                       "view every replica must show; non-trivial = scenario where a set of >= 3 changes was observed via "
                       ">= 2 different replicas/paths")
    mc_graph(run, "MC_ChangeGraph_quick.cfg" if run.tier == "quick" else "MC_ChangeGraph_thorough.cfg")
    interp_trace(run, ["C01"], "converge", sizes(run, 150, 3000), reobserved, spec="Trace_Same.tla")
    interp_trace(run, ["C01"], "doc", sizes(run, 100, 2000), reobserved, spec="Trace_Same.tla")
    interp_trace(run, ["C01"], "doctext", sizes(run, 60, 1500), reobserved, spec="Trace_Same.tla")
    if run.tier == "quick":
        gen_doc(run, [("1, 2, 3", 5, True, 40, False, "")])
    else:
        gen_doc(run, [("1, 2, 3", 4, True, 0, False, ""), ("1, 2", 7, False, 0)])


def has_failed_call(sc):
    return any(str(c.get('res')).startswith('err') for e in sc for c in e.get('calls', []))


def c03(run):
    run.cov["rule"] = ("every call of every transaction (put, put_object, insert, insert_object, delete, increment, "
                       "splice, splice_text; valid, boundary and invalid arguments; maps, lists, text; prior states with "
                       "conflicts, counters, nested objects) is logged with the view read through the open transaction "
                       "before and after it; Trace_Seq demands After = SeqSpec(Before, call), unchanged frame, errors "
                       "exactly for invalid arguments, and committed view = last transaction view; non-trivial = scenario "
                       "containing at least one rejected (invalid) call")
    if run.tier == "thorough":
        # (exhaustive at depth 5 with the list does not finish in 15 minutes: depth 4 exhaustively, deeper by simulation)
        gen_doc(run, [("1, 2", 4, True, 0), ("1, 2", 6, True, 300), ("1, 2, 3", 6, True, 150)])
    else:
        gen_doc(run, [("1, 2", 5, True, 30)])
    interp_trace(run, ["C03"], "seq", sizes(run, 200, 4000), has_failed_call, spec="Trace_Seq.tla")
    interp_trace(run, ["C03"], "docinv", sizes(run, 100, 2000), has_failed_call, spec="Trace_Seq.tla")
    interp_trace(run, ["C03"], "conflict", sizes(run, 100, 2000), has_conflict, spec="Trace_Seq.tla")
    interp_trace(run, ["C03"], "marksinv", sizes(run, 60, 1500), has_failed_call, spec="Trace_Seq.tla")
    interp_trace(run, ["C03"], "textenc", sizes(run, 40, 1000), has_failed_call, spec="Trace_Seq.tla")
    # block markers (split_block / join_block / replace_block at valid and invalid positions) and calls on texts that
    # contain block markers
    interp_trace(run, ["C03"], "spans", sizes(run, 150, 3000), has_failed_call, spec="Trace_Seq.tla")
    # the AutoCommit front end: every plain transaction is run a second time through an AutoCommit copy of the replica
    # (same actor): same result of every call, same view after every call, same committed change hash; maps / lists
    # and text under the three encodings, 30% invalid calls
    interp_trace(run, ["C03"], "autofront", sizes(run, 120, 2500), has_failed_call, spec="Trace_Seq.tla")


def has_readat_pair(sc):
    return any(e.get('ev') == 'readat' and len(e.get('heads', [])) >= 2 for e in sc)


def c07(run):
    run.cov["rule"] = ("conflict-rich histories (counters with concurrent increments, overwritten and deleted values, "
                       "lists, nested objects, text); for every replica, reads at every single change and at pairs of "
                       "concurrent changes (up to 12 head sets per replica): the full projection at those heads "
                       "(get/get_all/keys/length/text per object) must equal OpSet!Interp of the ancestors' ops, and "
                       "fork_at must give heads = the given heads, changes = exactly the ancestors, and the same view; "
                       "non-trivial = scenario with a read at >= 2 concurrent heads")
    # spec -> impl: programs from Doc.tla with the expected view at EVERY antichain of heads
    if run.tier == "quick":
        gen_doc(run, [("1, 2", 5, False, -1, True, '"k1"', True), ("1, 2", 4, True, 4, True, '"k1"', True)])
    else:
        gen_doc(run, [("1, 2", 6, False, -1, True, '"k1"', True), ("1, 2", 4, True, -1, False, '"k1"', True),
                      ("1, 2, 3", 5, False, 200, True, '"k1"', True)])
    interp_trace(run, ["C07"], "hist", sizes(run, 60, 2500), has_readat_pair)
    interp_trace(run, ["C07"], "histdoc", sizes(run, 40, 1500), has_readat_pair)
    # a second, cheaper oracle on the same traces and on long histories (up to 40 changes, where the clock cache of the
    # change graph is in use): the read at H, and fork_at(H), show the document that was observed live when exactly the
    # ancestors of H were applied (Trace_Same)
    for fam in ("hist", "histdoc"):
        run.validate("Trace_Same.tla", ["C07"], os.path.join(run.work, fam + ".ndjson"), fam + "-same")
    interp_trace(run, ["C07"], "histlong", sizes(run, 10, 200), has_readat_pair, spec="Trace_Same.tla")


def has_saveload(sc):
    return any(e.get('ev') == 'saveload' for e in sc)


def has_saveload_queue(sc):
    return any(e.get('ev') == 'saveload' and e.get('obs', {}).get('queued') for e in sc)


def c11(run):
    run.cov["rule"] = ("programs with frequent save/load cycles (deflate on/off, retain_orphans on/off) on documents with "
                       "conflicts, counters, lists, text, empty changes and queued orphans; after load: applied/heads/queue "
                       "as before (Trace_Graph), identical document (Trace_Same), identical change bytes and second-save "
                       "bytes (digests), identical state at historical heads (Trace_Interp ReadAt after reload); "
                       "non-trivial = scenario with a save/load")
    n = sizes(run, 120, 2500)
    t = os.path.join(run.work, "reload.ndjson")
    drive(["reload", run.seed, n, t])
    run.validate("Trace_Graph.tla", ["C11"], t, "reload-graph")
    run.validate("Trace_Same.tla", ["C11"], t, "reload-same")
    run.validate("Trace_Interp.tla", ["C11"], t, "reload-hist")
    count_nontrivial(run, t, has_saveload)
    sample_scenario(run, t, has_saveload_queue)
    t2 = os.path.join(run.work, "store.ndjson")
    drive(["store", run.seed, sizes(run, 20, 300), t2])
    run.validate("Trace_Storage.tla", ["C11"], t2, "store-layout", spec_kind="storage")
    # long histories (up to 40 changes) over a 40-string list: the columns of the saved document pass the size above
    # which they are DEFLATE-compressed, and the change graph's clock cache is in use
    t3 = os.path.join(run.work, "reloadlong.ndjson")
    drive(["reloadlong", run.seed, sizes(run, 10, 200), t3])
    run.validate("Trace_Graph.tla", ["C11"], t3, "reloadlong-graph")
    run.validate("Trace_Same.tla", ["C11"], t3, "reloadlong-same")
    count_nontrivial(run, t3, has_saveload)


def has_feed(sc):
    return any(e.get('ev') == 'feed' for e in sc)


def c12(run):
    run.cov["rule"] = ("a writer (edits, merges from a second actor, empty changes) writes save() followed by 2-5 "
                       "save_after(cursor) pieces; the concatenation is loaded strictly and partially; a reader equal to the "
                       "writer at a random earlier piece is fed the later pieces through load_incremental in shuffled order "
                       "with repeats, then everything again; Trace_Storage predicts every outcome from the logged chunk "
                       "layout with the delivery rules of Graph.tla; non-trivial = scenario with out-of-order feeding")
    mc_storage(run)
    t2 = os.path.join(run.work, "store.ndjson")
    drive(["store", run.seed, sizes(run, 60, 1500), t2])
    run.validate("Trace_Storage.tla", ["C12"], t2, "store", spec_kind="storage")
    count_nontrivial(run, t2, has_feed)
    sample_scenario(run, t2, has_feed, maxlen=30)


def c13(run):
    run.cov["rule"] = ("every byte offset of real append-only files (save + 2-5 incremental saves): strict and partial "
                       "load of each prefix; Trace_Storage computes the expected outcome of each cut from the logged chunk "
                       "boundaries (Storage!LoadResult); non-trivial = distinct (file, cut) pairs with the cut strictly "
                       "inside a chunk")
    mc_storage(run)
    t2 = os.path.join(run.work, "store.ndjson")
    drive(["store", run.seed, sizes(run, 40, 1000), t2])
    run.validate("Trace_Storage.tla", ["C13"], t2, "store", spec_kind="storage")
    ncuts = 0
    for sc in scenarios(read_trace(t2)):
        for e in sc:
            if e.get('ev') == 'crash':
                ncuts += len(e['cuts'])
                for c in e['cuts']:
                    if c['s'] != 'ok' and c['c'] > 0:
                        run.nontrivial((sc[0].get('scn'), c['c']))
                run.sample({"file_bytes": e['total'], "cuts": e['cuts'][:3] + e['cuts'][-2:]})
    run.cov["evaluations"] = ncuts
    run.cov["exhaustive"] = True
    run.cov["explanation"] = "exhaustive over byte offsets per file; the set of files is sampled"


def c14(run):
    run.cov["rule"] = ("single-bit flips of real files (document chunk, compressed or not, followed by incremental change "
                       "chunks), of the whole history as one bundle chunk, and of the file followed by a DEFLATE-compressed "
                       "change chunk (Change::bytes() of a 300-character change): quick = all bits of the first 32 bytes + a seeded sample of 2000 bits per file, thorough = "
                       "every bit; a flip must make strict load fail; outcomes ok-same / ok-different / panic are violations; "
                       "non-trivial = distinct (file, bit) pairs")
    t2 = os.path.join(run.work, "flip.ndjson")
    drive(["storeflip", run.seed, sizes(run, 12, 150), t2, sizes(run, 2000, 10**9)])
    run.validate("Trace_Storage.tla", ["C14"], t2, "flips", spec_kind="storage")
    nf = 0
    for sc in scenarios(read_trace(t2)):
        for e in sc:
            if e.get('ev') == 'flips':
                nf += e['flipped']
                run.sample({"total_bits": e['total_bits'], "flipped": e['flipped'], "rejected": e['rejected'], "bad": e['bad'][:3]})
                for k in range(e['flipped']):
                    pass
                run._nontrivial.update((sc[0].get('scn'), k) for k in range(min(e['flipped'], 5000)))
                if e.get('exhaustive'):
                    run.cov["exhaustive"] = True
    run.cov["evaluations"] = nf


def mc_storage(run):
    cfg = open(os.path.join(SPEC, "MC_Storage.cfg")).read()
    r = tlc("Storage.tla", cfg, os.path.join(run.work, "mc-storage"), workers=2, timeout=600, deque=False)
    if "No error has been found" not in r["out"]:
        raise ToolError("design-level model checking of Storage.tla failed:\n" + r["out"][-2000:])
    run.add_states(r)
    run.step("mc:Storage", distinct=r.get("distinct"))


GEN_SYNC_CFG = """SPECIFICATION GSpec
CONSTANTS
  Peers = {%s}
  MaxChanges = %d
  MaxFP = %d
  ROToggles = %d
  Drops = %d
  Depth = %d
INVARIANTS %s NoStuck TypeOK
%sCONSTRAINT ChanBound
CHECK_DEADLOCK FALSE
%s"""


def gen_sync(run, variants, nontrivial_pred):
    """spec -> impl for the sync protocol: behaviours of Sync.tla (exhaustive transition coverage or random
    simulation) replayed on real documents and sync::State values, Bloom false positives forced by the hook"""
    total = 0
    for vi, (peers, maxc, maxfp, tog, drops, depth, num) in enumerate(variants):
        exh = num == 0
        cfg = GEN_SYNC_CFG % (peers, maxc, maxfp, tog, drops, depth, "EmitAll" if exh else "Emit",
                              "VIEW TransitionView\n" if exh else "", "PROPERTY ReadOnlyNeverApplies\n" if tog and exh else "")
        behs, r = tlc_behaviours("Gen_Sync.tla", cfg, os.path.join(run.work, "gensync"), {}, num, depth + 4,
                                 run.seed + vi, exhaustive=exh, workers=6 if exh else 1, timeout=1800)
        run.add_states(r)
        bp = os.path.join(run.work, f"beh-sync-{vi}.ndjson")
        with open(bp, "w") as f:
            f.write("\n".join(behs) + "\n")
        outp = os.path.join(run.work, f"rep-sync-{vi}.json")
        replay_bin(["sync", bp, outp])
        res = json.load(open(outp))
        total += res["behaviours"] - res.get("inconclusive", 0)
        run.cov["evaluations"] += res["steps"]
        if res.get("inconclusive"):
            run.assumptions.append(f"{res['inconclusive']} behaviours skipped: a natural Bloom false positive occurred")
        nt = 0
        for b in behs:
            if nontrivial_pred(b):
                nt += 1
        run._nontrivial.update(("sync", vi, k) for k in range(nt))
        if behs:
            bj = json.loads(behs[len(behs) // 2])
            run.sample({"gen": "Sync.tla", "steps": [{k: v for k, v in st.items() if k not in ("st", "doc")} for st in bj[:8]]})
        if exh:
            run.cov["exhaustive"] = True
        for mm in res["mismatches"][:3]:
            obj = {"variant": [peers, maxc, maxfp, tog, drops], "behaviour": mm["line"], "step": mm["step"],
                   "fields": mm["fields"], "expected": mm["expected"], "got": mm["got"]}
            run.violation(obj, f"replay of TLC sync behaviour: step {mm['step']} ({mm['expected'].get('act')} "
                               f"p={mm['expected'].get('p')} q={mm['expected'].get('q')}) differs from Sync.tla in {mm['fields']}",
                          {"checks": ["replay:" + f for f in mm["fields"]], "event": mm["expected"]})
    run.cov["traces_validated_against_impl"] += total
    run.step("gen_sync", behaviours=total)


def mc_sync(run, peers, maxc, maxfp, tog, drops, liveness=False, timeout=1800):
    cfg = ("SPECIFICATION %s\nCONSTANTS\n  Peers = {%s}\n  MaxChanges = %d\n  MaxFP = %d\n  ROToggles = %d\n  Drops = %d\n"
           "INVARIANTS NoStuck TypeOK\nCONSTRAINT ChanBound\nCHECK_DEADLOCK FALSE\n%s") % (
        "FairSpec" if liveness else "Spec", peers, maxc, maxfp, tog, drops,
        "PROPERTY EventuallyConverged\n" if liveness else "PROPERTY ReadOnlyNeverApplies\n")
    r = tlc("Sync.tla", cfg, os.path.join(run.work, "mc-sync"), workers=6, timeout=timeout, deque=False)
    if "No error has been found" not in r["out"]:
        raise ToolError("design-level model checking of Sync.tla failed (specification-level counterexample):\n" + r["out"][-3000:])
    run.add_states(r)
    run.step("mc:Sync", peers=peers, changes=maxc, fp=maxfp, toggles=tog, drops=drops, liveness=liveness,
             distinct=r.get("distinct"), generated=r.get("generated"))


def has_fp(b):
    return '"fp":[]' not in b[:40]


def has_toggle(b):
    return '"act":"toggle"' in b


def has_reconnect(b):
    return '"act":"reconnect"' in b


def c20(run):
    run.cov["rule"] = ("Sync.tla (line-by-line transcription of generate/receive) explored exhaustively for 2 peers: every "
                       "interleaving of edit/generate/receive with a persistent Bloom false positive chosen by TLC; invariant "
                       "NoStuck (quiet and nothing in flight => same changes); every (state, transition) replayed on real "
                       "documents and sync::State with the false positive forced through the hook, messages and states "
                       "compared field by field; sessions between long divergent histories with real filters must go quiet and "
                       "converge (Trace_Wire SyncLong); non-trivial = behaviour with a false positive")
    if run.tier == "quick":
        mc_sync(run, "1, 2", 3, 1, 0, 0)
        gen_sync(run, [("1, 2", 2, 1, 0, 0, 40, 0), ("1, 2", 4, 1, 0, 0, 60, 60)], has_fp)
    else:
        mc_sync(run, "1, 2", 3, 1, 0, 0)
        mc_sync(run, "1, 2", 2, 1, 0, 0, liveness=True)
        gen_sync(run, [("1, 2", 3, 1, 0, 0, 50, 0), ("1, 2", 5, 2, 0, 0, 80, 400)], has_fp)
    # arbitrary starting histories: long ones (common prefix 0-43 changes, divergent suffixes up to 50 changes by several
    # actors, local edits during the first rounds, real Bloom filters): quiet within 24 rounds, same heads and state
    t = os.path.join(run.work, "roundtrip.ndjson")
    wirex(["roundtrip", run.seed, sizes(run, 32, 600), t])
    run.validate("Trace_Wire.tla", ["C20"], t, "synclong")


def c22(run):
    run.cov["rule"] = ("as C20 with set_read_only toggles at any point (either side, messages in flight, concurrent edits): "
                       "action property ReadOnlyNeverApplies, NoStuck once no link is read-only (the skipped changes arrive); "
                       "exhaustive transition-coverage replay; non-trivial = behaviour with a toggle")
    if run.tier == "quick":
        gen_sync(run, [("1, 2", 1, 0, 2, 0, 50, 0), ("1, 2", 2, 0, 1, 0, 40, 0), ("1, 2", 3, 1, 2, 0, 60, 30)], has_toggle)
    else:
        mc_sync(run, "1, 2", 2, 1, 2, 0)
        gen_sync(run, [("1, 2", 1, 0, 3, 0, 60, 0), ("1, 2", 2, 1, 1, 0, 40, 0), ("1, 2", 2, 0, 2, 0, 50, 0), ("1, 2", 4, 1, 3, 0, 80, 300)], has_toggle)


def c21(run):
    run.cov["rule"] = ("Sync.tla with 3 peers, link drops that lose in-flight messages in both directions, and reconnection "
                       "with a fresh sync::State or with decode(encode(state)); NoStuck; replay on real code; "
                       "non-trivial = behaviour with a drop/reconnect")
    if run.tier == "quick":
        gen_sync(run, [("1, 2", 2, 0, 0, 1, 40, 0), ("1, 2, 3", 3, 1, 0, 2, 70, 40)], has_reconnect)
    else:
        # (3 peers with 2 changes and a drop is > 30 M distinct states: hours; exhaustive runs: 3 peers with 1 change,
        # 2 peers with 3 changes and a false positive, both with a dropped link)
        mc_sync(run, "1, 2, 3", 1, 0, 0, 1, timeout=2400)
        mc_sync(run, "1, 2", 3, 1, 0, 1, timeout=2400)
        gen_sync(run, [("1, 2", 2, 1, 0, 1, 40, 0), ("1, 2", 3, 0, 0, 2, 60, 0), ("1, 2, 3", 4, 1, 0, 3, 100, 300)], has_reconnect)


def has_rollback(sc):
    return any(e.get('ev') == 'rollback' and e.get('calls') for e in sc)


def c28(run):
    run.cov["rule"] = ("transactions of 1-4 random calls (object creation, deletes of conflicted values, text splices, "
                       "increments, invalid calls) rolled back through Transaction::rollback, transact() with an Err closure "
                       "and AutoCommit::rollback on prior states with conflicts, queues and several actors; heads, changes, "
                       "queue, missing deps, actor, view digest and save() digest before = after, and the same follow-up "
                       "edit on the rolled-back document and on a clone taken before gives a byte-identical change; "
                       "non-trivial = scenario with a non-empty rolled-back transaction")
    t = os.path.join(run.work, "rollback.ndjson")
    drive(["rollback", run.seed, sizes(run, 200, 4000), t])
    # spec -> impl: every (state, rolled-back transaction) pair of the bounded Doc.tla model, the
    # transaction opened on the current state or isolated at any antichain of heads
    gen_doc(run, [("1, 2", 4 if run.tier == "quick" else 5, False, 0, False, '"k1"', False, True)])
    run.validate("Trace_Graph.tla", ["C28"], t, "rollback")
    count_nontrivial(run, t, has_rollback)
    t2 = os.path.join(run.work, "rollbackc.ndjson")
    drive(["rollbackc", run.seed, sizes(run, 200, 4000), t2])
    run.validate("Trace_Graph.tla", ["C28"], t2, "rollbackc")
    count_nontrivial(run, t2, has_rollback)
    sample_scenario(run, t, has_rollback)


def has_iso(sc):
    return any(e.get('ev') == 'commit' and e.get('iso') and e.get('hash') for e in sc)


def c29(run):
    run.cov["rule"] = ("programs in which ~30% of the transactions are transaction_at(H) for random antichains H (remote "
                       "changes arriving in between): first read inside = Interp(ancestors(H)) (Trace_Interp), every call "
                       "has its sequential effect on that isolated view (Trace_Seq), the change's deps = H and its actor "
                       "continues only a history contained in H (Trace_Graph), the document afterwards = Interp(all "
                       "applied); the spans family puts the reconciliation calls (update_text / update_object / update_spans "
                       "with blocks / batch_create / splice of nested values) inside isolated transactions; "
                       "non-trivial = scenario with an isolated commit")
    t = os.path.join(run.work, "iso.ndjson")
    drive(["iso", run.seed, sizes(run, 150, 3000), t])
    run.validate("Trace_Graph.tla", ["C29"], t, "iso-graph")
    run.validate("Trace_Interp.tla", ["C29"], t, "iso-interp")
    run.validate("Trace_Seq.tla", ["C29"], t, "iso-seq")
    count_nontrivial(run, t, has_iso)
    sample_scenario(run, t, has_iso, maxlen=8)
    # isolated transactions on text with marks: the ops of the change may only name ancestors of H
    t2 = os.path.join(run.work, "isomarks.ndjson")
    drive(["isomarks", run.seed, sizes(run, 60, 1500), t2])
    run.validate("Trace_Graph.tla", ["C29"], t2, "isomarks-graph")
    run.validate("Trace_Interp.tla", ["C29"], t2, "isomarks-interp")
    count_nontrivial(run, t2, has_iso)
    # spec -> impl: Doc.tla IsoCall (committed one-call transactions isolated at every antichain) from a base state
    # with three concurrent values counter/int/int; reads inside the transaction, the document after the commit and
    # the agreement of the iterator reads with get/get_all are compared after every step
    if run.tier == "quick":
        gen_doc(run, [("1, 2", 2, False, 0, True, '"k1"', False, False, None, False, True, True),
                      ("1", 3, False, 0, True, '"k1"', False, False, None, False, True, False)])
    else:
        gen_doc(run, [("1, 2", 3, False, 0, True, '"k1"', False, False, None, False, True, True),
                      ("1, 2", 4, False, 0, True, '"k1"', False, False, None, False, True, False)])
    # isolated transactions on conflicted registers (counters, increments, overwrites), observed also through the
    # iterator reads (list_range / map_range / values), which go through the top index
    t3 = os.path.join(run.work, "isoconf.ndjson")
    drive(["isoconf", run.seed, sizes(run, 120, 3000), t3])
    run.validate("Trace_Interp.tla", ["C29"], t3, "isoconf-interp")
    run.validate("Trace_Seq.tla", ["C29"], t3, "isoconf-seq")
    count_nontrivial(run, t3, has_iso)
    # reconciliation / bulk calls (update_text, update_object, update_spans with block markers, batch_create, ...)
    # inside isolated transactions: each must act on the isolated view
    t4 = os.path.join(run.work, "spans.ndjson")
    drive(["spans", run.seed, sizes(run, 250, 5000), t4])
    run.validate("Trace_Seq.tla", ["C29"], t4, "spans-seq")
    count_nontrivial(run, t4, has_iso)
    # the AutoCommit front end: isolate(H) must show the state at H, integrate() the un-isolated document plus the
    # changes made inside, which depend only on H and on each other (ptrans probes, Trace_View)
    from . import write_trace
    t5 = os.path.join(run.work, "conflictpatch.ndjson")
    drive(["conflictpatch", run.seed, sizes(run, 80, 2000), t5])
    evs = [e for e in read_trace(t5) if e.get('ev') in ('ptrans', 'reset')]
    t6 = os.path.join(run.work, "autocommit-isolate.ndjson")
    write_trace(t6, evs)
    run.validate("Trace_View.tla", ["C29"], t6, "autocommit-isolate")
    for e in evs:
        if e.get('kind') in ('isolate', 'integrate') and 'want' in e:
            run.nontrivial(("acisolate", digest_of(e.get('v2'))))


def has_err(sc):
    return any(str(e.get('res', '')).startswith('err') for e in sc) or has_failed_call(sc)


def c06(run):
    run.cov["rule"] = ("failing calls of every kind: apply_changes / load_incremental / merge of changes whose (actor, seq) "
                       "is already applied, queued or duplicated in the batch (dup family), rejected transaction operations "
                       "(docinv/seq families), fork_at of unknown heads; after each failure the applied set and queue must "
                       "equal the specification state before the call, in-transaction views must be unchanged, and the "
                       "document must still save and load; non-trivial = scenario with at least one failing call")
    mc_graph(run, "MC_ChangeGraph_quick.cfg" if run.tier == "quick" else "MC_ChangeGraph_thorough.cfg")
    graph_trace(run, ["C06"], has_err, run.cov["rule"], 50, 3000, family="dup")
    interp_trace(run, ["C06"], "docinv", sizes(run, 100, 2000), has_err, spec="Trace_Seq.tla")
    interp_trace(run, ["C06"], "seq", sizes(run, 100, 2000), has_err, spec="Trace_Seq.tla")
    interp_trace(run, ["C06"], "marksinv", sizes(run, 60, 1500), has_err, spec="Trace_Seq.tla")


def has_diff_pair(sc):
    return any(e.get('ev') == 'diff' and e.get('patches') for e in sc)


def c08(run):
    run.cov["rule"] = ("histories with conflicts, counters (concurrent increments), deletes, nested objects, lists and text; "
                       "diff(H1, H2) for random pairs of antichains in both directions incl. the empty heads and the current "
                       "heads; the TLA+ patch applier (View.tla) applied to the projection at H1 must give the projection at "
                       "H2 (winners, ids, conflict flags, counter values, list order, text); non-trivial = scenario with a "
                       "non-empty diff")
    interp_trace(run, ["C08"], "conflictdiff", sizes(run, 80, 2000), has_diff_pair, spec="Trace_View.tla")
    interp_trace(run, ["C08"], "diff", sizes(run, 80, 2000), has_diff_pair, spec="Trace_View.tla")
    # long histories (up to 40 changes: head sets far apart, the change graph's clock cache in use)
    interp_trace(run, ["C08"], "difflong", sizes(run, 8, 60), has_diff_pair, spec="Trace_View.tla")
    # text under UTF-8 / UTF-16: patch indexes in units (View!ApplyPatchE)
    interp_trace(run, ["C08"], "difftext", sizes(run, 40, 1200), has_diff_pair, spec="Trace_View.tla")


def has_remote_patches(sc):
    return any(e.get('ev') in ('deliver', 'merge') and e.get('patches') for e in sc)


def c09(run):
    run.cov["rule"] = ("every mutating call made through its *_log_patches variant (transactions incl. transaction_at, "
                       "apply_changes single/batch/out-of-order, load_incremental, merge) on 2-4 replicas with conflicted "
                       "registers, counters, lists, nested objects, text; the patches of each call are folded over the "
                       "previous projection by View.tla and must give the new projection; the remaining paths of the property "
                       "(AutoCommit edits with diff_incremental, rollback, receiving sync messages, isolate / integrate, load "
                       "with a patch log) run on private copies at the end of every scenario; non-trivial = scenario with "
                       "non-empty patches from a remote delivery")
    interp_trace(run, ["C09"], "conflictpatch", sizes(run, 150, 1500), has_remote_patches, spec="Trace_View.tla")
    interp_trace(run, ["C09"], "patch", sizes(run, 100, 1000), has_remote_patches, spec="Trace_View.tla")
    # text under the UTF-8 / UTF-16 encodings: patch indexes and lengths are in units (View.tla ApplyPatchE), also for
    # deletions that start inside a multi-unit character
    interp_trace(run, ["C09"], "patchtext", sizes(run, 120, 1000), has_remote_patches, spec="Trace_View.tla")
    # the paths the replicas of those programs do not take themselves, run on private AutoCommit copies at the end of
    # every scenario (ptrans events: edits through AutoCommit, a rolled-back transaction, receiving sync messages,
    # isolate / edits inside / integrate, load with a patch log); validated on their own so that a scenario cut at a
    # listed finding does not hide them
    from . import write_trace
    for fam in ("conflictpatch", "patch", "patchtext"):
        evs = [e for e in read_trace(os.path.join(run.work, fam + ".ndjson")) if e.get('ev') in ('ptrans', 'reset')]
        tp = os.path.join(run.work, fam + "-paths.ndjson")
        write_trace(tp, evs)
        run.validate("Trace_View.tla", ["C09"], tp, fam + "-paths")
        for e in evs:
            if e.get('ev') == 'ptrans' and e.get('patches'):
                run.nontrivial(("ptrans", fam, e.get('kind'), digest_of(e.get('patches'))))



# ---------------------------------------------------------------- rich text: encodings, marks, cursors
MULTI = ("eacute", "euro", "grin", "woman", "laptop", "cacute", "zwj", "vs16", "objrepl")


def text_objs(sc):
    for o in view_objs(sc):
        if o.get('ty') == 'text':
            yield o


def has_multiunit(sc):
    return sc and sc[0].get('enc') != 'cp' and any(t in MULTI for o in text_objs(sc) for t in o.get('text', []))


def has_marks(sc):
    return any(o.get('marks') for o in text_objs(sc))


def has_mark_overlap(sc):
    return any(len(u) > 1 for o in text_objs(sc) for u in o.get('mat', [])) or \
        sum(1 for e in sc for c in e.get('calls', []) if c.get('fn') in ('mark', 'unmark')) >= 3


def has_cursor_of_deleted(sc):
    """a remembered cursor whose element is no longer at the position it was taken from"""
    return any(e.get('ev') == 'curs' for e in sc) and any(c.get('fn') in ('delete', 'splice', 'splice_text') and c.get('res') == 'ok'
                                                            for e in sc for c in e.get('calls', []))


def rich_trace(run, family, n, specs_checks, pred, seedoff=0):
    t = os.path.join(run.work, f"{family}.ndjson")
    drive([family, run.seed + seedoff, n, t])
    for spec, checks in specs_checks:
        run.validate(spec, checks, t, f"{family}-{spec.split('_')[1].split('.')[0].lower()}")
    count_nontrivial(run, t, pred)
    sample_scenario(run, t, pred, maxlen=6)


def c24(run):
    run.cov["rule"] = ("text editing programs (splice_text, delete, mark/unmark, concurrent edits, merges, isolated "
                       "transactions) over an alphabet with 1-4 unit characters (a, e-acute, euro, emoji) under the code point, "
                       "UTF-8, UTF-16 and grapheme encodings, 2-3 replicas, plus reads at historical heads: length = width of "
                       "the string, get/get_all per unit index, marks()/get_marks(i)/spans()/cursor positions measured in "
                       "units (Trace_Interp: OpSet widths per encoding), spans concatenate to the text, and every call's "
                       "index/del arguments act in units (Trace_Seq); grapheme clusters made of several code points form a "
                       "separate family (known finding); non-trivial = scenario under a multi-unit encoding whose text "
                       "holds a multi-unit character")
    # spec -> impl: Doc.tla text variant (characters overwritten by put, deleted, inserted; conflicted characters
    # whose values have different widths), every delivery path of every program of the bounded model
    if run.tier == "quick":
        gen_doc(run, [("1, 2", 5, False, 0, False, '', False, False, "u16")])
    else:
        gen_doc(run, [("1, 2", 6, False, 0, False, '', False, False, "u16"), ("1, 2", 5, False, 0, False, '', False, False, "u8"),
                      ("1, 2", 4, False, 0, True, '', False, False, "u8")])
    rich_trace(run, "textenc", sizes(run, 80, 2500), [("Trace_Interp.tla", ["C24"]), ("Trace_Seq.tla", ["C24"])], has_multiunit)
    rich_trace(run, "textconf", sizes(run, 40, 1500), [("Trace_Interp.tla", ["C24"])], has_multiunit)
    rich_trace(run, "cursortext", sizes(run, 30, 1000), [("Trace_Interp.tla", ["C24"])], has_multiunit)
    rich_trace(run, "grapheme", sizes(run, 25, 600), [("Trace_Interp.tla", ["C24"])], has_multiunit)


def c25(run):
    run.cov["rule"] = ("histories of text edits interleaved with mark/unmark over overlapping ranges (2 names, values incl. "
                       "null, all 4 expand settings) by 2-3 replicas with merges, isolated transactions and reads at historical "
                       "heads: marks(), get_marks(i) for every i and spans() must equal the Peritext reading of the decoded "
                       "ops (OpSet!UnitMarks: greatest active mark id per name, null = unmarked); every mark call changes "
                       "exactly the units [start,end) (Trace_Seq); every single-insertion transaction lands on the side of "
                       "each mark boundary its expand flag asks for (OpSet!ExpandHolds); non-trivial = scenario with "
                       "overlapping marks or >= 3 mark calls")
    rich_trace(run, "marks", sizes(run, 120, 3000), [("Trace_Interp.tla", ["C25"]), ("Trace_Seq.tla", ["C25"])], has_mark_overlap)
    rich_trace(run, "marksinv", sizes(run, 60, 1500), [("Trace_Interp.tla", ["C25"]), ("Trace_Seq.tla", ["C25"])], has_mark_overlap)
    rich_trace(run, "textenc", sizes(run, 40, 1000), [("Trace_Interp.tla", ["C25"])], has_marks)
    # convergence / save-load of mark-bearing histories
    t = os.path.join(run.work, "marks.ndjson")
    run.validate("Trace_Same.tla", ["C01"], t, "marks-same")


def c26(run):
    run.cov["rule"] = ("list and text histories (inserts, deletes, puts and increments on elements, concurrent edits, merges) "
                       "in which cursors of both move modes are taken at random points and all of them are resolved on every "
                       "replica at the end and at random historical heads: position = OpSet!CursorPos (visible element: its "
                       "index; deleted + After: index of the next surviving element or the length; deleted + Before: nearest "
                       "visible element along the insertion chain or 0; unknown element: error); in every projected state "
                       "get_cursor_position(get_cursor(i)) = i for both modes and for the byte/string forms; "
                       "non-trivial = scenario with remembered cursors and a later deletion")
    rich_trace(run, "cursor", sizes(run, 150, 4000), [("Trace_Interp.tla", ["C26"])], has_cursor_of_deleted)
    rich_trace(run, "cursortext", sizes(run, 100, 2500), [("Trace_Interp.tla", ["C26"])], has_cursor_of_deleted)


def has_foreign_id(sc):
    return any(e.get('ev') == 'idprobe' and any(r['ty'] == 'err' for x in e['list'] for r in x['results']) and
               any(r['ty'] != 'err' for x in e['list'] for r in x['results']) for e in sc)


def c30(run):
    run.cov["rule"] = ("histories in which every new actor sorts BEFORE the existing ones (actor bytes descending), so actor "
                       "tables shift on every merge/load; object ids are captured as live values on random replicas at random "
                       "points and later used on every replica - as captured (stale actor-index hint), with perturbed hints, "
                       "after to_bytes/try_from and through the string form - for object_type/keys/length/text and for one "
                       "edit; the outcome must be that of the object with this op id in the replica's own history "
                       "(OpSet!ObjView), or an error/empty result when the replica lacks it; all edits of the programs "
                       "themselves use ids rebuilt with hint 0; non-trivial = scenario in which some id was unknown to one "
                       "replica and known to another")
    t = os.path.join(run.work, "ids.ndjson")
    drive(["ids", run.seed, sizes(run, 150, 4000), t])
    run.validate("Trace_Interp.tla", ["C30"], t, "ids")
    run.validate("Trace_Seq.tla", ["C03"], t, "ids-calls")
    count_nontrivial(run, t, has_foreign_id)
    # actor bytes from 0x20 on: the actors minted for isolated transactions sort BEFORE the replicas' own actors, so
    # every isolated transaction (also one that commits nothing) inserts into / removes from the front of the table
    t2 = os.path.join(run.work, "idshi.ndjson")
    drive(["idshi", run.seed, sizes(run, 150, 4000), t2])
    run.validate("Trace_Interp.tla", ["C30"], t2, "idshi")
    run.validate("Trace_Graph.tla", ["C04"], t2, "idshi-graph")
    count_nontrivial(run, t2, has_foreign_id)
    sample_scenario(run, t, has_foreign_id, maxlen=6)


def has_string_conflict(sc):
    for e in sc:
        if e.get('ev') == 'migrate' and e.get('added'):
            for o in e['obs']['view']:
                for x in (o.get('ents') or []) + (o.get('elems') or []):
                    ks = [v['v']['k'] for v in x['vals']]
                    if 'str' in ks and len(ks) > 1:
                        return True
    return False


def c40(run):
    run.cov["rule"] = ("string-rich histories (strings incl. empty and multi-unit ones in map keys and list elements, in "
                       "conflicted registers next to counters/objects/other strings, deleted strings, strings inside nested and "
                       "deleted objects) by 2-3 replicas; every replica's save is loaded with StringMigration::ConvertToText: "
                       "at most one change is added on top of the heads, none when no string is visible; the migrated "
                       "document is the interpretation of history + that change; each register with visible strings holds "
                       "exactly one text object whose content is the highest-id string, every other register keeps its ops, "
                       "no visible string is left; non-trivial = scenario with a string in a conflicted register")
    t = os.path.join(run.work, "migrate.ndjson")
    drive(["migrate", run.seed, sizes(run, 150, 4000), t])
    run.validate("Trace_Interp.tla", ["C40"], t, "migrate")
    count_nontrivial(run, t, has_string_conflict)
    # strings in conflicted LIST elements and map keys next to counters / other values
    t2 = os.path.join(run.work, "migrateconf.ndjson")
    drive(["migrateconf", run.seed, sizes(run, 120, 3000), t2])
    run.validate("Trace_Interp.tla", ["C40"], t2, "migrateconf")
    count_nontrivial(run, t2, has_string_conflict)
    sample_scenario(run, t, has_string_conflict, maxlen=4)


def has_invalid_accepting(sc):
    return any(e.get('ev') == 'badcall' for e in sc)


C37_FAMILIES = [("graph", 60, 1500), ("dup", 60, 1500), ("doc", 60, 1500), ("doctext", 40, 1000), ("docinv", 60, 1500),
                ("seq", 60, 1500), ("conflict", 60, 1500), ("iso", 60, 1500), ("rollback", 60, 1500), ("patch", 40, 1000),
                ("conflictpatch", 40, 1000), ("diff", 30, 800), ("hist", 30, 800), ("reload", 40, 1000),
                ("marks", 40, 1000), ("marksinv", 60, 1500), ("isomarks", 40, 1000), ("textenc", 40, 1000),
                ("grapheme", 30, 800), ("cursor", 40, 1000), ("cursortext", 40, 1000), ("ids", 40, 1000), ("migrate", 40, 1000),
                ("isoconf", 40, 1000)]


def c37(run):
    run.cov["rule"] = ("(1) a catalogue of ~700 calls per replica with invalid / stale / foreign / extreme arguments (ids of "
                       "unknown objects and actors, counters up to u64::MAX, indexes up to usize::MAX, wrong object and key "
                       "kinds, reversed/empty/out-of-range mark ranges, cursors of other objects, unknown / duplicated / "
                       "non-antichain / mixed heads for every *_at read, diff, fork_at, transaction_at, isolate, and the "
                       "library's own diff() patches fed to hydrate::Value::apply_patches) on replicas reached by random "
                       "programs; Trace_Args: never a panic, invalid arguments give an error or an empty result, the "
                       "document still saves and loads; (2) every event of every other scenario family of this framework "
                       "(24 families) must not have panicked; non-trivial = scenario with bad calls")
    t = os.path.join(run.work, "badargs.ndjson")
    drive(["badargs", run.seed, sizes(run, 25, 400), t])
    run.validate("Trace_Args.tla", ["C37"], t, "badargs")
    count_nontrivial(run, t, has_invalid_accepting)
    for sc in scenarios(read_trace(t))[:1]:
        run.sample([{k: v for k, v in e.items()} for e in sc if e.get('ev') == 'badcall'][:6])
    for fam, nq, nt in C37_FAMILIES:
        tf = os.path.join(run.work, f"{fam}.ndjson")
        drive([fam, run.seed + 37, sizes(run, nq, nt), tf])
        run.validate("Trace_Args.tla", ["C37"], tf, fam)


# ---------------------------------------------------------------- hexane columns
HEX_CFG = """SPECIFICATION Spec
CONSTANTS
  Depth = %d
  MaxLen = %d
  Vals = {"N", "0", "1", "5"}
INVARIANTS Emit PrefixMonotone IftInverse
CHECK_DEADLOCK FALSE
"""


def gen_hex(run, depth, maxlen, num, cap):
    """spec -> impl: programs of HexColumn.tla (TLC simulation: `num` random prefixes x all last steps) replayed on
    every column type with max_segments 2, 3, 4 and 16"""
    from . import BIN, sh
    behs, r = tlc_behaviours("HexColumn.tla", HEX_CFG % (depth, maxlen), os.path.join(run.work, "genhex"), {}, num, depth + 1,
                             run.seed, workers=4)
    run.add_states(r)
    behs = sorted(set(behs))[:cap]
    bp = os.path.join(run.work, "beh-hex.ndjson")
    with open(bp, "w") as f:
        f.write("\n".join(behs) + "\n")
    outp = os.path.join(run.work, "rep-hex.json")
    build_harness_once()
    rc, out, dt = sh([os.path.join(BIN, "hexrun"), "replay", bp, outp], timeout=3000, ok_codes=None)
    if rc != 0 or not os.path.exists(outp):
        raise ToolError("hexrun replay failed:\n" + out[-2000:])
    res = json.load(open(outp))
    run.cov["traces_validated_against_impl"] += res["behaviours"]
    run.cov["evaluations"] += res["steps"]
    for b in behs:
        if '"saveload"' in b or '"remove_n"' in b:
            run.nontrivial("hex:" + digest_of(b))
    if behs:
        run.sample({"gen": "HexColumn.tla", "ops": [s["op"] for s in json.loads(behs[0])]})
    for mm in res["mismatches"][:5]:
        run.violation({"behaviour": mm["line"], "kind": mm["expected"], "got": mm["got"]},
                      f"replay of TLC column program (HexColumn.tla) on {mm['expected']['kind']} max_segments={mm['expected']['maxseg']}: {mm['fields'][0][:200]}",
                      {"checks": ["replay:hexcolumn"], "event": mm["expected"]})
    run.step("gen_hex", behaviours=res["behaviours"], steps=res["steps"])


def build_harness_once():
    from . import build_harness
    build_harness()


def c34(run):
    run.cov["rule"] = ("HexColumn.tla: a column is a sequence over {null, 0, 1, 5}; programs of insert / push / splice (runs of 3, "
                       "replacements) / remove / remove_n / truncate / clear / save+load up to the depth bound; TLC simulation "
                       "draws random prefixes and enumerates every last step; each program is replayed on Column<u64>, "
                       "Column<Option<u64>>, Column<i64> (extremes), Column<bool>, Column<String>, Column<Vec<u8>>, "
                       "PrefixColumn<u64>, DeltaColumn<i64> and RawColumn with max_segments 2, 3, 4, 16 (slab splits and merges); "
                       "after every step: contents, len, get(i) for all i, iter_range for all ranges, flattened runs, "
                       "check_invariants, prefix sums, sum_range, get_index_for_total for every total, find_by_value / "
                       "find_first per value - all against the values TLC computed from the sequence; non-trivial = program "
                       "containing a multi-element removal or a save/load")
    if run.tier == "quick":
        gen_hex(run, 5, 8, 12, 12000)
    else:
        gen_hex(run, 7, 10, 120, 150000)


def c35(run):
    run.cov["rule"] = ("(1) every state reached by the HexColumn.tla programs is saved and loaded back (same type) and must "
                       "give the same values and the same bytes again; (2) bytes campaign: every load (15 column types) on "
                       "single-byte overwrites, bit flips and truncations at every position of real encodings of 6 types, "
                       "hand-made run headers with extreme counts/values, invalid UTF-8, and seeded random byte strings: the "
                       "outcome must be a column or an error, and a column that loads must save to bytes that load to the "
                       "same values (Trace_Wire HexBad); non-trivial = distinct offending-class-free load batches")
    if run.tier == "quick":
        gen_hex(run, 4, 7, 8, 6000)
    else:
        gen_hex(run, 6, 9, 60, 80000)
    from . import BIN, sh
    t = os.path.join(run.work, "hexbytes.ndjson")
    rc, out, dt = sh([os.path.join(BIN, "hexrun"), "bytes", str(run.seed), str(sizes(run, 20000, 1500000)), t], timeout=3000, ok_codes=None)
    if rc != 0:
        # the campaign died (abort / allocation failure inside a load): that is an observation of C35
        run.violation({"output": out[-1500:]}, "hexane bytes campaign aborted: " + out[-300:].replace("\n", " "),
                      {"checks": ["abort"], "event": {}})
    else:
        run.validate("Trace_Wire.tla", ["C35"], t, "hexbytes")
        n = sum(e.get('n', 0) for e in read_trace(t) if e.get('ev') == 'hexagg')
        run.cov["evaluations"] += n
        run._nontrivial.update(("hexload", k) for k in range(min(n, 100000)))
        run.sample([e for e in read_trace(t) if e.get('ev') == 'hexagg'][:6])


# ---------------------------------------------------------------- encodings and untrusted input
def wirex(args, timeout=3000):
    from . import BIN, sh, build_harness
    build_harness()
    rc, out, dt = sh([os.path.join(BIN, "wirex")] + [str(a) for a in args], timeout=timeout, ok_codes=None)
    if rc != 0:
        raise ToolError("wirex failed:\n" + out[-2000:])
    log("[wirex]", out.strip().splitlines()[-1] if out.strip() else "")


def wire_class(e):
    """which property an offending vector belongs to"""
    o = e.get('o', '')
    cls = set()
    if o.startswith('panic') or o in ('abort', 'timeout', 'missing'):
        cls.add('C15')
    if o.startswith('bad:utf8'):
        cls.add('C39')
    elif o.startswith('bad:'):
        cls.add('C16')
    if e.get('over') or o in ('abort', 'timeout'):
        cls.add('C17')
    return cls


def wire_campaign(run, nbases_q, nbases_t):
    """mutation campaign; offenders that match a listed known finding are reported as such and removed, the rest is
    validated by Trace_Wire (an unlisted offender is rejected there and becomes a violation)"""
    from . import match_known, write_trace
    t = os.path.join(run.work, "mutate.ndjson")
    wirex(["mutate", run.seed, sizes(run, nbases_q, nbases_t), t, run.tier], timeout=6000)
    events = read_trace(t)
    kept = []
    nvec = 0
    for e in events:
        if e.get('ev') == 'wire':
            nvec += e['n']
            run.nontrivial((e['base'], e['target'], e['kind']))
        if e.get('ev') == 'wirebad':
            if run.pid not in wire_class(e):
                continue
            hit = None
            for k in run.known:
                if k.get('status') == 'known' and match_known(k, '', {"checks": [k.get('check', '')], "event": e}, e):
                    hit = k
                    break
            if hit:
                line = f"KNOWN-FINDING: property={run.pid} {hit['detail']}"
                if line not in run.known_hits:
                    run.known_hits.append(line)
                    log(line)
                continue
        kept.append(e)
    t2 = os.path.join(run.work, "mutate-filtered.ndjson")
    write_trace(t2, kept)
    run.validate("Trace_Wire.tla", [run.pid], t2, "mutate")
    run.cov["evaluations"] += nvec
    run.sample([e for e in events if e.get('ev') == 'wire'][:5])
    return events


WIRE_RULE = ("structure-aware mutation campaign on real encodings of generated histories (uncompressed and deflated "
             "documents, incremental change chunks, single and DEFLATE-compressed changes, bundles, sync messages, sync "
             "states, Bloom filters, cursors, object ids): at sampled and all header positions - replace the LEB128 integer "
             "starting there by 0, 1, 127, 128, 65535, 2^32-1, 2^32, 2^63, 2^64-1; flip a bit; overwrite a byte; plant "
             "invalid UTF-8 - each with and without recomputing the chunk length and checksum so the mutation reaches the "
             "column decoders; truncation at every offset; duplicated / dropped chunks; random bytes; plus a pool of "
             "malformed strings for Cursor / ObjId / ActorId / ChangeHash parsing and import; entry points load, "
             "load (partial), load_incremental, rescue, Change::from_bytes (+apply), Message::decode (+receive and reply), "
             "State::decode (+generate), Bundle::try_from (+load), BloomFilter / Cursor / ObjId::try_from; every vector "
             "runs in a child process under catch_unwind, a counting allocator and a watchdog; ")


def c15(run):
    run.cov["rule"] = WIRE_RULE + ("C15: the outcome must be a value or an error - a panic, an abort or a hang is a violation; "
                                   "non-trivial = (input kind, entry point, mutation kind) classes exercised")
    gen_bloom(run)
    wire_campaign(run, 1, 2)
    run.cov["explanation"] = "positions are sampled (all header positions + a seeded sample); the set of histories is sampled"


def c16(run):
    run.cov["rule"] = WIRE_RULE + ("C16: every input that is ACCEPTED must yield a document that behaves like a valid one: all "
                                   "reads of the projection and of recent historical heads succeed, save() loads back to an "
                                   "equal document with equal heads, an edit commits and reloads, merging with the unmutated "
                                   "original converges")
    wire_campaign(run, 1, 2)


def c17(run):
    run.cov["rule"] = WIRE_RULE + ("C17: each vector must stay within peak heap <= 32 MiB + 64 KiB per input byte, no single "
                                   "allocation request above 64 MiB, 5 s; Bloom filter parameter vectors enumerated from "
                                   "Wire.tla are included")
    gen_bloom(run)
    wire_campaign(run, 1, 2)


def c39(run):
    run.cov["rule"] = WIRE_RULE + ("C39: every string handed out by an accepted document (map keys, string values, text, mark "
                                   "names and values, spans, change messages) must be valid UTF-8 (re-validated on the raw bytes)")
    wire_campaign(run, 1, 2)


def gen_bloom(run):
    """spec -> impl: Wire.tla enumerates every Bloom filter field vector over the token alphabet with the verdict the
    parser must reach; wirex builds the bytes, decodes, queries and measures"""
    from . import tlc
    cfg = "SPECIFICATION Spec\nINVARIANT AcceptMonotone\nCHECK_DEADLOCK FALSE\n"
    r = tlc("Wire.tla", cfg, os.path.join(run.work, "wire"), workers=1, timeout=600, deque=False)
    import re
    m = re.search(r'<<"REPLAY", "(.*)">>\s*$', r["out"], re.M)
    if not m or "Error" in r["out"]:
        raise ToolError("Wire.tla did not produce vectors:\n" + r["out"][-2000:])
    vecs = json.loads(json.loads('"' + m.group(1) + '"'))
    vp = os.path.join(run.work, "bloomvec.json")
    json.dump(vecs, open(vp, "w"))
    run.add_states(r)
    t = os.path.join(run.work, "bloom.ndjson")
    wirex(["bloom", vp, run.seed, t], timeout=3000)
    run.validate("Trace_Wire.tla", [run.pid], t, "bloom")
    for e in read_trace(t):
        if e.get('ev') == 'bloomvec' and e.get('res') != 'skip':
            run.nontrivial(("bloomvec", e.get('i')))
    run.cov["evaluations"] += len(vecs)
    run.sample(vecs[:3])
    run.cov["exhaustive"] = True
    run.cov["explanation"] = "the Bloom field-vector space of Wire.tla (10 tokens per field x 5 availability classes) is enumerated completely"


def c23(run):
    run.cov["rule"] = ("Wire.tla: every combination of numEntries x numBitsPerEntry x numProbes over {0,1,2,7,8,10,300,65536,"
                       "2^32-1,2^32} x {no bits, exact, 3 extra bytes, one byte short, 40 bytes of a huge capacity}; the "
                       "parser must accept exactly the vectors Wire!Accepts accepts, and every accepted filter must answer 26 "
                       "queries (random, all-zero, all-ones hashes) with a boolean; hash sets of sizes 0,1,2,7,8,9,100,1000,"
                       "5000 and adversarial sets (equal low words, x=y=z, duplicates): no member reported absent, before "
                       "and after to_bytes/try_from; every filter carried by the messages of the sync replays (C20) is "
                       "compared with the model's membership as part of those checks; non-trivial = vectors decided")
    gen_bloom(run)


def has_compressed(sc):
    return any(e.get('ev') == 'chgrt' and e.get('compressed') for e in sc)


def c18(run):
    run.cov["rule"] = ("(1) every change of generated histories (maps, lists, text with marks, multi-unit text, a 400-character "
                       "change with a message that is DEFLATE-compressed): Change::from_bytes of the raw and of the compressed "
                       "bytes gives the same hash and raw bytes, decode() -> Change::from gives the same hash and bytes, hash = "
                       "SHA-256 of the chunk (Trace_Wire ChgRT); a long history (12-50 rounds) of 2-3 actors who keep merging each "
                       "other is bundled as a whole, as a random subset, as a prefix and as a suffix: the bundle and the bundle "
                       "parsed back from its bytes must return byte-identical changes, and loading the bytes must leave the "
                       "same heads, queue and saved document as applying the changes (Trace_Wire BundleRT); (2) bundles: TLC (Gen_Delivery over the real DAG) enumerates "
                       "delivery schedules whose batches are also delivered as one bundle chunk built by Automerge::bundle "
                       "(any subset, duplicates, causally open sets): to_changes() must return byte-identical changes and "
                       "load_incremental of the bundle must leave applied/queue/heads/missing exactly as Graph!DeliverResult "
                       "of the same set; non-trivial = scenario with a compressed change / schedule with a queued change")
    t = os.path.join(run.work, "roundtrip.ndjson")
    wirex(["roundtrip", run.seed, sizes(run, 16, 300), t])
    run.validate("Trace_Wire.tla", ["C18"], t, "roundtrip")
    count_nontrivial(run, t, has_compressed)
    sample_scenario(run, t, has_compressed, maxlen=5)
    if run.tier == "quick":
        gen_delivery(run, "dag", 2, 6, 4, bundles=True)
    else:
        gen_delivery(run, "dag", 12, 40, 5, maxchanges=6, bundles=True)


def has_sync(sc):
    return any(e.get('ev') == 'syncrt' and e.get('nmsgs', 0) >= 2 for e in sc)


def c19(run):
    run.cov["rule"] = ("(1) round trips on generated histories: every object id (bytes, string + import), every cursor of every "
                       "sequence position in both move modes (bytes, string), actor ids and change hashes (strings, bytes), "
                       "every message of a two-replica sync session (decode(encode(m)) = m and re-encodes to the same bytes) "
                       "and both sync states after every message (shared heads survive, session fields do not) - Trace_Wire; "
                       "(2) resolution: ids captured on one replica and decoded from bytes/strings are used on replicas whose "
                       "actor tables differ (new actors sort first; ids family) and must read the object OpSet!ObjView names; "
                       "cursors taken on one replica are resolved on the others (C26 families); non-trivial = scenario with a "
                       "sync session of >= 2 messages")
    t = os.path.join(run.work, "roundtrip.ndjson")
    wirex(["roundtrip", run.seed, sizes(run, 24, 400), t])
    run.validate("Trace_Wire.tla", ["C19"], t, "roundtrip")
    count_nontrivial(run, t, has_sync)
    sample_scenario(run, t, has_sync, maxlen=5)
    t2 = os.path.join(run.work, "ids.ndjson")
    drive(["ids", run.seed, sizes(run, 100, 2500), t2])
    run.validate("Trace_Interp.tla", ["C30"], t2, "ids")
    t3 = os.path.join(run.work, "cursor.ndjson")
    drive(["cursor", run.seed, sizes(run, 60, 1500), t3])
    run.validate("Trace_Interp.tla", ["C26"], t3, "cursor")


def has_nested(sc):
    return any(e.get('ev') == 'serde' and '"t": "map"' in json.dumps(e.get('json', {}).get('ents', [])) for e in sc)


def c32(run):
    run.cov["rule"] = ("histories with nested maps, lists, text, conflicted registers, counters and strings; every replica is "
                       "serialised through AutoSerde to serde_json and to a serializer that enforces serde's length contract "
                       "(entries fed = length announced); the JSON image must equal the image Trace_Interp derives from the "
                       "decoded ops (winners only, text as strings, counters as numbers); non-trivial = scenario whose image "
                       "has a nested map")
    t = os.path.join(run.work, "serde.ndjson")
    drive(["serde", run.seed, sizes(run, 150, 4000), t])
    run.validate("Trace_Interp.tla", ["C32"], t, "serde")
    count_nontrivial(run, t, has_nested)
    sample_scenario(run, t, has_nested, maxlen=4)


def has_bulk(sc):
    return any(c.get('fn') in ('update_object', 'update_text', 'batch_create', 'splice_values', 'init_root') for e in sc for c in e.get('calls', []))


def c27(run):
    run.cov["rule"] = ("programs over 2-3 replicas in which half of the calls are update_text(obj, s), update_object(obj, v), "
                       "batch_create_object(obj, prop, v, insert), splice with nested values and init_root_from_hydrate, with "
                       "targets drawn from a grammar of nested values (depth <= 2, width <= 2: maps, lists, texts incl. "
                       "multi-unit characters and empty text, scalars incl. counters and null), on prior states with "
                       "conflicts, tombstones and nested objects; Trace_Seq: after the call the image of the object "
                       "(winners only, ids and conflict markers forgotten) equals the target value, everything outside the "
                       "object's subtree is unchanged, wrong kinds / indexes are errors; Trace_Interp on the same traces ties "
                       "the result to the decoded ops and Trace_Same to reload; the spans family adds update_spans(obj, spans) with "
                       "text runs (optionally marked) and block markers holding small maps, also inside isolated transactions: "
                       "the spans read back equal the given spans once adjacent text spans with equal marks are merged, text() "
                       "is the concatenation with one object-replacement character per block, nothing outside the text's subtree "
                       "changes; init_from_hydrate is not exercised; non-trivial = scenario with a bulk call")
    t = os.path.join(run.work, "bulk.ndjson")
    drive(["bulk", run.seed, sizes(run, 200, 5000), t])
    run.validate("Trace_Seq.tla", ["C27"], t, "bulk-seq")
    run.validate("Trace_Interp.tla", ["C02"], t, "bulk-interp")
    t2 = os.path.join(run.work, "spans.ndjson")
    drive(["spans", run.seed, sizes(run, 400, 8000), t2])
    run.validate("Trace_Seq.tla", ["C27"], t2, "spans-seq")
    count_nontrivial(run, t2, has_bulk)
    count_nontrivial(run, t, has_bulk)
    sample_scenario(run, t, has_bulk, maxlen=5)


def has_anon_conflict(sc):
    return any(e.get('ev') == 'anon' and e.get('res') == 'ok' and '|' in e['orig']['shape'] for e in sc)


def c31(run):
    run.cov["rule"] = ("histories with maps, lists, text (multi-unit characters, marks), counters, strings, conflicts, nested and "
                       "deleted objects on 2-3 replicas; every replica is anonymized; both change graphs (seq, op count, actor "
                       "class, dependencies) and the canonical shape (object types, number of keys, list order and lengths, "
                       "text widths, conflict multiplicities; values, key names, ids, mark values forgotten) at the current "
                       "heads and at every single change are logged; Trace_Interp Anon: equal bags of recursive change "
                       "signatures, equal actor partitions, every change has a counterpart with the same signature and the same "
                       "shape at its heads, the anonymized document saves and reloads; non-trivial = scenario whose shape has "
                       "a conflicted register")
    rich_off = os.path.join(run.work, "anon.ndjson")
    drive(["anon", run.seed, sizes(run, 150, 4000), rich_off])
    run.validate("Trace_Interp.tla", ["C31"], rich_off, "anon")
    count_nontrivial(run, rich_off, has_anon_conflict)
    sample_scenario(run, rich_off, has_anon_conflict, maxlen=3)
    t2 = os.path.join(run.work, "anontext.ndjson")
    drive(["anontext", run.seed, sizes(run, 100, 2500), t2])
    run.validate("Trace_Interp.tla", ["C31"], t2, "anontext")
    count_nontrivial(run, t2, has_anon_conflict)


CLI_TARGET = os.path.join(os.path.dirname(os.path.dirname(os.path.dirname(os.path.abspath(__file__)))), "harness", "target-cli")


def c33(run):
    run.cov["rule"] = ("JsonGen.tla enumerates 728 JSON objects: every scalar (null, booleans, 13 number tokens incl. i64 min/max, "
                       "i64max+1, u64 max, 2^53+1, 1.5, 1e300, -0.0, 15.0, 1e-7; 7 string tokens incl. empty, non-BMP unicode, "
                       "quotes/backslash, control characters) under each of 4 keys (empty, unicode, dotted), inside arrays, "
                       "nested arrays/objects and multi-key objects; each is piped through the real binary: automerge import "
                       "| Automerge::load + save | automerge export; the exported JSON must equal the input including the kind "
                       "(i64 / u64 / f64) and bits of every number (Trace_Wire Cli); the CLI is rebuilt from /repo; "
                       "non-trivial = values round-tripped")
    from . import sh, tlc, BIN, build_harness
    build_harness()
    rc, out, dt = sh("cargo build --offline -p automerge-cli --target-dir %s 2>&1 | tail -3" % CLI_TARGET, timeout=3000,
                     cwd="/repo/rust", env={"CARGO_NET_OFFLINE": "true"})
    binp = os.path.join(CLI_TARGET, "debug", "automerge")
    if "Finished" not in out or not os.path.exists(binp):
        raise ToolError("building the CLI failed:\n" + out[-2000:])
    r = tlc("JsonGen.tla", "SPECIFICATION Spec\nINVARIANT AllWellFormed\nCHECK_DEADLOCK FALSE\n", os.path.join(run.work, "jsongen"),
            workers=1, timeout=600, deque=False)
    import re
    m = re.search(r'<<"REPLAY", "(.*)">>\s*$', r["out"], re.M)
    if not m or "Error" in r["out"]:
        raise ToolError("JsonGen.tla did not produce values:\n" + r["out"][-2000:])
    vals = json.loads(json.loads('"' + m.group(1) + '"'))
    if run.tier == "quick":
        vals = vals[::2]
    vp = os.path.join(run.work, "jsonvals.json")
    json.dump(vals, open(vp, "w"))
    run.add_states(r)
    t = os.path.join(run.work, "cli.ndjson")
    rc, out, dt = sh([os.path.join(BIN, "clix"), vp, binp, t], timeout=3000, ok_codes=None)
    if rc != 0:
        raise ToolError("clix failed:\n" + out[-2000:])
    run.validate("Trace_Wire.tla", ["C33"], t, "cli")
    run.cov["evaluations"] += len(vals)
    run._nontrivial.update(("cli", i) for i in range(len(vals)))
    run.sample([e for e in read_trace(t) if e.get('ev') == 'cli'][:3])


CAPI_TARGET = os.path.join(os.path.dirname(CLI_TARGET), "target-capi")


def c36(run):
    run.cov["rule"] = ("behaviours of Doc.tla (puts / deletes / increments on a conflicted map register and on the elements of a "
                       "list, inserts, merges between 2-3 replicas; exhaustive transition coverage for small depths) are turned "
                       "into programs for a C driver (capi/driver.c) that performs them through the C ABI of automerge-c "
                       "(AMcreate, AMmapPut*/Delete/Increment, AMlistPut*/Delete/Increment, AMcommit, AMmerge; the text variant of "
                       "Doc.tla with delivery-path coverage: AMspliceText, AMlistPutStr / AMlistDelete on characters of a text "
                       "with concurrent edits, AMtext now and at the base heads), reads results, "
                       "items, byte spans and iterators (AMgetHeads, AMsave, AMkeys, AMmapGetAll, AMlistRange, AMlistGetAll, "
                       "AMobjSize, the same reads at the heads of the base change) after every step and frees results under three "
                       "disciplines (at once, all at exit in reverse, every second one late); each behaviour ends with an epilogue on "
                       "the state it reached: every scalar kind, AMitemResult reference counting, text splices / marks / cursors "
                       "(also at earlier heads), change accessors, AMapplyChanges / AMload / AMloadIncremental, AMfork (at heads) / "
                       "AMsetActorId / AMclone / AMemptyChange, SIZE_MAX and out-of-range positions, item iterators (reversed, "
                       "rewound, advanced), AMrollback, AMmapRange, malformed input to every parser and wrong-object-type calls, "
                       "and the whole sync protocol (AMgenerateSyncMessage / AMsyncMessageEncode / Decode / AMreceiveSyncMessage, "
                       "sync state encode / decode) between two replicas, message bytes compared; built with clang -fsanitize=address,undefined (+LeakSanitizer); every "
                       "observation line (heads, the complete save() bytes, all values) must equal the line the Rust API "
                       "produces for the same operations, and the sanitizers must stay silent; non-trivial = programs replayed")
    from . import sh, BIN, build_harness
    build_harness()
    inc = os.path.join(run.work, "capi")
    os.makedirs(inc, exist_ok=True)
    rc, out, dt = sh("cargo build --offline -p automerge-c --target-dir %s 2>&1 | tail -3" % CAPI_TARGET, timeout=3000, cwd="/repo/rust",
                     env={"CARGO_NET_OFFLINE": "true", "CBINDGEN_TARGET_DIR": inc})
    lib = os.path.join(CAPI_TARGET, "debug", "libautomerge_core.a")
    hdr = os.path.join(inc, "automerge.h")
    if "Finished" not in out or not os.path.exists(lib):
        raise ToolError("building automerge-c failed:\n" + out[-2000:])
    if not os.path.exists(hdr):
        # cbindgen only rewrites the header when the build script runs again: force it
        sh("touch /repo/rust/automerge-c/build.rs", timeout=60)
        rc, out, dt = sh("cargo build --offline -p automerge-c --target-dir %s 2>&1 | tail -3" % CAPI_TARGET, timeout=3000, cwd="/repo/rust",
                         env={"CARGO_NET_OFFLINE": "true", "CBINDGEN_TARGET_DIR": inc})
        if not os.path.exists(hdr):
            raise ToolError("cbindgen did not produce automerge.h:\n" + out[-2000:])
    sh("sed -E 's/A_M([^_]+)_/AM_\\1_/g; s/USIZE_/+8/g' %s > %s" % (hdr, os.path.join(inc, "am.h")), timeout=60)
    drv = os.path.join(inc, "driver")
    src = os.path.join(os.path.dirname(os.path.dirname(CLI_TARGET)), "capi", "driver.c")
    rc, out, dt = sh(["clang", "-fsanitize=address,undefined", "-g", "-O1", "-I", inc, src, lib, "-lpthread", "-ldl", "-lm", "-o", drv],
                     timeout=600, ok_codes=None)
    if rc != 0:
        raise ToolError("compiling the C driver failed:\n" + out[-3000:])
    # (the C documents are AutoCommit::new(): text indexes are code points, the Doc.tla text variant runs with Enc = "cp")
    if run.tier == "quick":
        variants = [("1, 2", 3, True, 0, "list"), ("1, 2, 3", 6, True, 40, "list"), ("1, 2", 3, False, 0, "text"), ("1, 2, 3", 6, False, 30, "text")]
    else:
        variants = [("1, 2", 4, True, 0, "list"), ("1, 2, 3", 7, True, 400, "list"), ("1, 2", 4, False, 0, "text"), ("1, 2, 3", 7, False, 300, "text")]
    total = 0
    for vi, (reps, depth, withlist, num, kind) in enumerate(variants):
        exh = num <= 0
        istext = kind == "text"
        cfg = GEN_DOC_CFG % (reps, depth, '' if istext else '"k1"', "TRUE" if withlist else "FALSE", "TRUE", "FALSE", "FALSE",
                             "TRUE" if istext else "FALSE", "cp", "FALSE", "FALSE",
                             "EmitAll" if exh else "Emit", ("VIEW %s\n" % ("PathView" if istext else "TransitionView")) if exh else "")
        behs, r = tlc_behaviours("Doc.tla", cfg, os.path.join(run.work, "gendoc"), {}, num, depth + 1, run.seed + vi,
                                 exhaustive=exh, workers=4 if exh else 1)
        run.add_states(r)
        behs = sorted(set(behs))
        # an even sample of the behaviours: the C driver runs under AddressSanitizer (about 100 programs per second)
        cap = 450 if run.tier == "quick" else 6000
        behs = behs[::max(1, len(behs) // cap)][:cap]
        bp = os.path.join(run.work, f"beh-capi-{vi}.ndjson")
        with open(bp, "w") as f:
            f.write("\n".join(behs) + "\n")
        prog, exp, got, err = [os.path.join(run.work, f"capi-{vi}.{x}") for x in ("prog", "exp", "got", "err")]
        rc, out, dt = sh([os.path.join(BIN, "replay"), "capi", bp, prog, exp, "epilogue", kind], timeout=3000, ok_codes=None)
        if rc != 0:
            raise ToolError("replay capi failed:\n" + out[-2000:])
        rc, out, dt = sh("%s < %s > %s 2> %s" % (drv, prog, got, err), timeout=3000, ok_codes=None,
                         env={"ASAN_OPTIONS": "detect_leaks=1:abort_on_error=0", "UBSAN_OPTIONS": "print_stacktrace=1"})
        errtxt = open(err).read()
        g = open(got).read().splitlines()
        e = open(exp).read().splitlines()
        total += len(behs)
        run.cov["evaluations"] += len(e)
        if rc != 0 or errtxt.strip():
            run.violation({"stderr": errtxt[:4000], "exit": rc, "program": prog},
                          "C driver under AddressSanitizer/UBSan/LeakSanitizer: exit %d, report: %s" % (rc, errtxt[:300].replace("\n", " ")),
                          {"checks": ["sanitizer"], "event": {}})
        if g != e:
            k = next((i for i in range(min(len(g), len(e))) if g[i] != e[i]), min(len(g), len(e)))
            run.violation({"line": k, "c_api": g[k][:2000] if k < len(g) else "<missing>", "rust_api": e[k][:2000] if k < len(e) else "<missing>",
                           "program": prog},
                          "C API and Rust API disagree at observation line %d of %s" % (k, os.path.basename(prog)),
                          {"checks": ["capi-equals-rust"], "event": {}})
        for i in range(len(behs)):
            run.nontrivial(("capi", vi, i))
        if behs:
            run.sample({"program_head": open(prog).read().splitlines()[:12]})
    run.cov["traces_validated_against_impl"] += total
    run.step("capi", programs=total)


def replay(run, path):
    """re-validate a recorded violating scenario"""
    from . import tlc_trace
    spec = "Trace_Graph.tla"
    r = tlc_trace(spec, [run.pid], path, os.path.join(run.work, "tlc-replay"))
    if not r["accepted"]:
        run.violation(read_trace(path), f"replay of {path} rejected: {r['fails']}")
    run.cov["evaluations"] += 1


REG = {
    "C04": ("model_checking", c04),
    "C05": ("model_checking", c05),
    "C38": ("model_checking", c38),
    "C10": ("model_checking", c10),
    "C02": ("model_checking", c02),
    "C01": ("model_checking", c01),
    "C03": ("model_checking", c03),
    "C07": ("model_checking", c07),
    "C06": ("model_checking", c06),
    "C28": ("model_checking", c28),
    "C29": ("model_checking", c29),
    "C08": ("model_checking", c08),
    "C24": ("model_checking", c24),
    "C30": ("model_checking", c30),
    "C34": ("model_checking", c34),
    "C32": ("model_checking", c32),
    "C33": ("exploration", c33),
    "C36": ("exploration", c36),
    "C31": ("model_checking", c31),
    "C27": ("model_checking", c27),
    "C15": ("fault_enumeration", c15),
    "C16": ("fault_enumeration", c16),
    "C17": ("fault_enumeration", c17),
    "C39": ("fault_enumeration", c39),
    "C23": ("fault_enumeration", c23),
    "C18": ("model_checking", c18),
    "C19": ("model_checking", c19),
    "C35": ("fault_enumeration", c35),
    "C37": ("exploration", c37),
    "C40": ("model_checking", c40),
    "C25": ("model_checking", c25),
    "C26": ("model_checking", c26),
    "C09": ("model_checking", c09),
    "C11": ("model_checking", c11),
    "C20": ("model_checking", c20),
    "C21": ("model_checking", c21),
    "C22": ("model_checking", c22),
    "C12": ("model_checking", c12),
    "C13": ("fault_enumeration", c13),
    "C14": ("fault_enumeration", c14),
}
