use automerge::{transaction::Transactable, marks::{Mark, ExpandMark}, ActorId, Automerge, ObjType, ReadDoc, ROOT};
fn main() {
    let mut a = Automerge::new().with_actor(ActorId::from(vec![1u8]));
    let mut tx = a.transaction();
    let t = tx.put_object(ROOT, "t", ObjType::Text).unwrap();
    tx.splice_text(&t, 0, 0, "ac").unwrap();
    tx.mark(&t, Mark::new("bold".into(), 0, 0, 1), ExpandMark::After).unwrap();
    tx.commit();
    println!("len {} list_range(..): {:?}", a.length(&t), a.list_range(&t, ..).map(|i| (i.index, format!("{:?}", i.value))).collect::<Vec<_>>());
    println!("list_range(2..): {:?}", a.list_range(&t, 2..).map(|i| (i.index, format!("{:?}", i.value))).collect::<Vec<_>>());
    println!("values: {:?}", a.values(&t).map(|v| format!("{:?}", v.0)).collect::<Vec<_>>());
    let mut tx = a.transaction();
    tx.splice_text(&t, 0, 2, "").unwrap();
    tx.commit();
    println!("len {} list_range(..): {:?}", a.length(&t), a.list_range(&t, ..).map(|i| (i.index, format!("{:?}", i.value))).collect::<Vec<_>>());
    println!("list_range(1..): {:?}", a.list_range(&t, 1..).map(|i| (i.index, format!("{:?}", i.value))).collect::<Vec<_>>());
    println!("values: {:?}", a.values(&t).map(|v| format!("{:?}", v.0)).collect::<Vec<_>>());
}
