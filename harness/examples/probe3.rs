use automerge::{transaction::Transactable, ActorId, Automerge, PatchLog, ReadDoc, ROOT, ScalarValue};
fn main() {
    // two concurrent puts on k1, merged; isolated delete at the winner's change, rolled back
    let mut a = Automerge::new().with_actor(ActorId::from(vec![1u8]));
    let mut b = Automerge::new().with_actor(ActorId::from(vec![2u8]));
    let mut tx = a.transaction(); tx.put(ROOT, "k1", 1).unwrap(); tx.commit();
    let mut tx = b.transaction(); tx.put(ROOT, "k1", 2).unwrap(); let (hb, _) = tx.commit();
    a.merge(&mut b).unwrap();
    for call in 0..3 {
        let mut d = a.clone();
        println!("call {} before keys {:?}", call, d.keys(ROOT).collect::<Vec<_>>());
        {
            let mut tx = d.transaction_at(PatchLog::inactive(), &[hb.unwrap()]).unwrap();
            let r = match call { 0 => tx.delete(ROOT, "k1"), 1 => tx.put(ROOT, "k1", 2), _ => tx.increment(ROOT, "k1", 2) };
            println!("  res {:?}", r.is_ok());
            tx.rollback();
        }
        println!("  after keys {:?} get_all {:?}", d.keys(ROOT).collect::<Vec<_>>(), d.get_all(ROOT, "k1").map(|v| v.len()));
    }
}
