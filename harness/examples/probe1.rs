use automerge::{transaction::{Transactable, CommitOptions}, ActorId, Automerge, PatchLog, ReadDoc, ROOT};
fn main() {
    let mut a = Automerge::new().with_actor(ActorId::from(vec![1u8]));
    let mut tx = a.transaction(); tx.put(ROOT, "k", 1).unwrap(); let (h1, _) = tx.commit(); let h1 = h1.unwrap();
    let h2 = a.empty_commit(CommitOptions::default().with_time(0));
    let mut tx = a.transaction_at(PatchLog::inactive(), &[h1]).unwrap(); tx.put(ROOT, "k", 2).unwrap(); let (h3, _) = tx.commit(); let h3 = h3.unwrap();
    let c1 = a.get_change_by_hash(&h1).unwrap(); let c3 = a.get_change_by_hash(&h3).unwrap(); let c2 = a.get_change_by_hash(&h2).unwrap();
    println!("c3 actor {:?} seq {} deps {:?}", c3.actor_id(), c3.seq(), c3.deps());
    let mut b = Automerge::new().with_actor(ActorId::from(vec![2u8]));
    let r = std::panic::catch_unwind(std::panic::AssertUnwindSafe(|| {
        println!("apply c1,c3: {:?}", b.apply_changes([c1.clone(), c3.clone()]));
        println!("heads {:?} nchanges {}", b.get_heads(), b.get_changes(&[]).len());
        let s = b.save(); println!("reload: {:?}", Automerge::load(&s).map(|d| d.get_changes(&[]).len()));
        println!("apply c2: {:?}", b.apply_changes([c2.clone()]));
        println!("nchanges {}", b.get_changes(&[]).len());
        let s = b.save(); println!("reload: {:?}", Automerge::load(&s).map(|d| d.get_changes(&[]).len()));
    }));
    println!("{:?}", r.is_ok());
    let s = a.save(); println!("reload a: {:?}", Automerge::load(&s).map(|d| d.get_changes(&[]).len()));
}
