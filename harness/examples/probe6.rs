use automerge::{transaction::Transactable, ActorId, Automerge, ObjType, ReadDoc, ROOT, PatchLog};
fn main() {
    let mut a = Automerge::new().with_actor(ActorId::from(vec![1u8]));
    let mut tx = a.transaction();
    let l = tx.put_object(ROOT, "l", ObjType::List).unwrap();
    tx.insert(&l, 0, 1).unwrap();
    let (h1, _) = tx.commit(); let h1 = h1.unwrap();
    // outside the isolation heads: a put on the element
    let mut tx = a.transaction(); tx.put(&l, 0, 99).unwrap(); tx.commit();
    // isolated at h1: delete the element through splice
    let mut tx = a.transaction_at(PatchLog::inactive(), &[h1]).unwrap();
    tx.splice(&l, 0, 1, Vec::<automerge::hydrate::Value>::new()).unwrap();
    tx.commit();
    println!("live: len {} get {:?} get_all {:?}", a.length(&l), a.get(&l, 0).unwrap().map(|x| format!("{:?}", x.0)), a.get_all(&l, 0).unwrap().len());
    let b = Automerge::load(&a.save()).unwrap();
    println!("load: len {} get {:?} get_all {:?}", b.length(&l), b.get(&l, 0).unwrap().map(|x| format!("{:?}", x.0)), b.get_all(&l, 0).unwrap().len());
    // same with delete()
    let mut a = Automerge::new().with_actor(ActorId::from(vec![1u8]));
    let mut tx = a.transaction();
    let l = tx.put_object(ROOT, "l", ObjType::List).unwrap();
    tx.insert(&l, 0, 1).unwrap();
    let (h1, _) = tx.commit(); let h1 = h1.unwrap();
    let mut tx = a.transaction(); tx.put(&l, 0, 99).unwrap(); tx.commit();
    let mut tx = a.transaction_at(PatchLog::inactive(), &[h1]).unwrap();
    tx.delete(&l, 0).unwrap();
    tx.commit();
    println!("delete live: len {} get {:?}", a.length(&l), a.get(&l, 0).unwrap().map(|x| format!("{:?}", x.0)));
}
