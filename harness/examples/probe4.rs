use automerge::{transaction::Transactable, ActorId, Automerge, ObjType, ReadDoc, ROOT, MoveCursor};
fn main() {
    let mut a = Automerge::new().with_actor(ActorId::from(vec![1u8]));
    let mut tx = a.transaction();
    let l = tx.put_object(ROOT, "l", ObjType::List).unwrap();
    tx.insert(&l, 0, 1).unwrap();
    tx.insert(&l, 1, 2).unwrap();
    tx.commit();
    let mut tx = a.transaction();
    tx.put(&l, 0, true).unwrap();
    tx.commit();
    for mode in [MoveCursor::After, MoveCursor::Before] {
        let c = a.get_cursor_moving(&l, 0, None, mode).unwrap();
        println!("cursor {}", c);
        let r = std::panic::catch_unwind(std::panic::AssertUnwindSafe(|| a.get_cursor_position(&l, &c, None)));
        println!("pos {:?}", r.map_err(|_| "panic"));
    }
}
