use automerge::{transaction::Transactable, ActorId, Automerge, ObjType, ScalarValue, ROOT, ReadDoc};
fn main() {
    let mut a = Automerge::new().with_actor(ActorId::from(vec![2u8]));
    let mut tx = a.transaction();
    let l = tx.put_object(ROOT, "k1", ObjType::List).unwrap();
    tx.insert(&l, 0, ScalarValue::counter(0)).unwrap();
    tx.commit();
    let mut tx = a.transaction();
    tx.increment(&l, 0, 3).unwrap();
    tx.insert(&l, 1, false).unwrap();
    let (h, _) = tx.commit();
    println!("committed");
    let r = std::panic::catch_unwind(std::panic::AssertUnwindSafe(|| a.get_change_by_hash(&h.unwrap()).map(|c| c.len())));
    println!("get_change_by_hash: {:?}", r.is_ok());
    let r = std::panic::catch_unwind(std::panic::AssertUnwindSafe(|| a.get_changes(&[]).len()));
    println!("get_changes: {:?}", r.is_ok());
    let r = std::panic::catch_unwind(std::panic::AssertUnwindSafe(|| { let s = a.save(); Automerge::load(&s).map(|d| d.get_changes(&[]).len()) }));
    println!("save/load: {:?}", r);
    let mut b = a.fork();
    let r = std::panic::catch_unwind(std::panic::AssertUnwindSafe(|| { let mut c = Automerge::new(); c.merge(&mut b).map(|_| c.length(&l)) }));
    println!("merge into fresh: {:?}", r);
}
