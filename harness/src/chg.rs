//! Change -> JSON (metadata + decoded ops) for the TLA+ side.
use crate::enc;
use automerge::legacy as lg;
use automerge::Change;
use serde_json::{json, Value as J};
use sha2::{Digest, Sha256};

fn lg_opid(id: &lg::OpId) -> J {
    enc::opid(id.0, &id.1)
}

pub fn digest(bytes: &[u8]) -> String {
    hex::encode(&Sha256::digest(bytes)[0..8])
}

/// Full sha256 as hex.
pub fn sha256_hex(bytes: &[u8]) -> String {
    hex::encode(Sha256::digest(bytes))
}

pub fn meta(c: &Change) -> J {
    json!({
        "hash": enc::hash_str(&c.hash()),
        "actor": enc::actor_num(c.actor_id()),
        "seq": c.seq() as i64,
        "startOp": c.start_op().get() as i64,
        "nops": c.len() as i64,
        "deps": enc::hashes_sorted(c.deps()),
        "digest": digest(c.raw_bytes()),
    })
}

/// Decoded ops in the shape OpSet.tla expects.
pub fn ops(c: &Change) -> Vec<J> {
    let ex = c.decode();
    let start = ex.start_op.get();
    let mut out = vec![];
    for (i, op) in ex.operations.iter().enumerate() {
        let id = enc::opid(start + i as u64, &ex.actor_id);
        let obj = match &op.obj {
            lg::ObjectId::Root => json!([0, 0]),
            lg::ObjectId::Id(o) => lg_opid(o),
        };
        let (key, elem) = match &op.key {
            lg::Key::Map(k) => (enc::safe_str(k), json!([0, 0])),
            lg::Key::Seq(lg::ElementId::Head) => (String::new(), json!([0, 0])),
            lg::Key::Seq(lg::ElementId::Id(e)) => (String::new(), lg_opid(e)),
        };
        let ismap = matches!(&op.key, lg::Key::Map(_));
        let (act, val, mname, expand) = match &op.action {
            lg::OpType::Make(t) => ("make", enc::objval(*t), String::new(), false),
            lg::OpType::Delete => ("del", enc::nothing(), String::new(), false),
            lg::OpType::Increment(n) => (
                "inc",
                json!({"k":"int","s":"","n":*n,"toks":[]}),
                String::new(),
                false,
            ),
            lg::OpType::Put(v) => ("set", enc::scalar(v), String::new(), false),
            lg::OpType::MarkBegin(m) => {
                ("mark", enc::scalar(&m.value), enc::safe_str(&m.name), m.expand)
            }
            lg::OpType::MarkEnd(e) => ("markend", enc::nothing(), String::new(), *e),
        };
        let pred: Vec<J> = op.pred.iter().map(lg_opid).collect();
        out.push(json!({
            "id": id, "obj": obj, "ismap": ismap, "key": key, "elem": elem, "insert": op.insert,
            "act": act, "val": val, "pred": pred, "mname": mname, "expand": expand,
        }));
    }
    out
}
