//! hexrun replay <behaviours.ndjson> <out.json>     C34/C35: programs of HexColumn.tla on every column type
//! hexrun bytes <seed> <n> <out.ndjson>             C35: mutated / random encodings fed to every load
//!
//! No model logic: the expected sequence and its derived reads (prefix sums, index-for-total, positions
//! per value) come from TLC with each step; this file only maps tokens to values and names to calls.
use amverif::rng::Rng;
use amverif::world;
use hexane::{Column, DeltaColumn, LoadOpts, PrefixColumn, RawColumn};

/// segment budgets for load_with: every residue mod 4 around the slab-splitting thresholds
const LOAD_BUDGETS: [usize; 12] = [2, 3, 4, 5, 6, 7, 8, 9, 10, 11, 14, 17];
use serde_json::{json, Value as J};
use std::panic::{catch_unwind, AssertUnwindSafe};

fn toks(j: &J) -> Vec<String> {
    j.as_array().map(|a| a.iter().map(|x| x.as_str().unwrap_or("N").to_string()).collect()).unwrap_or_default()
}
fn num(t: &str) -> u64 {
    match t {
        "1" => 1,
        "5" => 5,
        _ => 0,
    }
}

/// value mapping per column kind
trait Kind {
    type V: Clone + PartialEq + std::fmt::Debug;
    const NAME: &'static str;
    const NULLABLE: bool;
    fn val(t: &str) -> Self::V;
}
struct KU64;
impl Kind for KU64 {
    type V = u64;
    const NAME: &'static str = "u64";
    const NULLABLE: bool = false;
    fn val(t: &str) -> u64 { num(t) }
}
struct KOpt;
impl Kind for KOpt {
    type V = Option<u64>;
    const NAME: &'static str = "opt_u64";
    const NULLABLE: bool = true;
    fn val(t: &str) -> Option<u64> { if t == "N" { None } else { Some(num(t)) } }
}
struct KI64;
impl Kind for KI64 {
    type V = i64;
    const NAME: &'static str = "i64";
    const NULLABLE: bool = false;
    fn val(t: &str) -> i64 { match t { "1" => -1, "5" => i64::MAX, "N" => i64::MIN, _ => 0 } }
}
struct KBool;
impl Kind for KBool {
    type V = bool;
    const NAME: &'static str = "bool";
    const NULLABLE: bool = false;
    fn val(t: &str) -> bool { t == "1" || t == "5" }
}
struct KStr;
impl Kind for KStr {
    type V = String;
    const NAME: &'static str = "string";
    const NULLABLE: bool = false;
    fn val(t: &str) -> String { match t { "N" => String::new(), "5" => "\u{e9}\u{1f600}5".to_string(), x => x.repeat(3) } }
}
struct KBytes;
impl Kind for KBytes {
    type V = Vec<u8>;
    const NAME: &'static str = "bytes";
    const NULLABLE: bool = false;
    fn val(t: &str) -> Vec<u8> { match t { "N" => vec![], "5" => vec![0xff; 5], x => x.as_bytes().to_vec() } }
}

macro_rules! plain_column_replay {
    ($fname:ident, $kind:ty, $col:ty, $get:expr) => {
        fn $fname(beh: &J, maxseg: usize, bad: &mut Vec<String>) {
            type K = $kind;
            let mut col: $col = <$col>::with_max_segments(maxseg);
            for (si, step) in beh.as_array().unwrap().iter().enumerate() {
                let op = &step["op"];
                let vs: Vec<<K as Kind>::V> = toks(&op["vs"]).iter().map(|t| K::val(t)).collect();
                let i = op["i"].as_u64().unwrap_or(0) as usize;
                match op["f"].as_str().unwrap_or("") {
                    "insert" => col.insert(i, vs[0].clone()),
                    "push" => col.push(vs[0].clone()),
                    "splice" => col.splice(i, op["del"].as_u64().unwrap_or(0) as usize, vs.clone()),
                    "remove" => col.remove(i),
                    "remove_n" => col.remove_n(i, op["n"].as_u64().unwrap_or(0) as usize),
                    "truncate" => col.truncate(i),
                    "clear" => col.clear(),
                    "saveload" => {
                        let bytes = col.save();
                        match <$col>::load(&bytes) {
                            Ok(c) => {
                                if c.save() != bytes {
                                    bad.push(format!("{} step {}: save(load(save)) differs", K::NAME, si));
                                }
                                col = c;
                            }
                            Err(e) => bad.push(format!("{} step {}: own bytes do not load: {:?}", K::NAME, si, e)),
                        }
                    }
                    other => bad.push(format!("unknown op {}", other)),
                }
                col.check_invariants();
                let want: Vec<<K as Kind>::V> = toks(&step["exp"]["col"]).iter().map(|t| K::val(t)).collect();
                let getf = $get;
                let got: Vec<<K as Kind>::V> = col.to_vec().into_iter().map(|x| getf(x)).collect();
                if got != want || col.len() != want.len() {
                    bad.push(format!("{} seg{} step {} {}: contents {:?} want {:?}", K::NAME, maxseg, si, op, got, want));
                    return;
                }
                for k in 0..want.len() {
                    if col.get(k).map(|x| getf(x)) != Some(want[k].clone()) {
                        bad.push(format!("{} seg{} step {}: get({})", K::NAME, maxseg, si, k));
                        return;
                    }
                }
                if col.get(want.len()).is_some() {
                    bad.push(format!("{} seg{} step {}: get(len) is Some", K::NAME, maxseg, si));
                }
                for a in 0..=want.len() {
                    for b in a..=want.len() {
                        let r: Vec<<K as Kind>::V> = col.iter_range(a..b).map(|x| getf(x)).collect();
                        if r != want[a..b] {
                            bad.push(format!("{} seg{} step {}: iter_range({}..{})", K::NAME, maxseg, si, a, b));
                            return;
                        }
                    }
                }
                // runs, flattened
                let mut flat: Vec<<K as Kind>::V> = vec![];
                let mut runs = col.iter().runs();
                while let Some(r) = runs.next() {
                    for _ in 0..r.count {
                        flat.push(getf(r.value.clone()));
                    }
                }
                if flat != want {
                    bad.push(format!("{} seg{} step {}: runs {:?} want {:?}", K::NAME, maxseg, si, flat, want));
                    return;
                }
                // save / load round trip of every reached state (C35)
                let bytes = col.save();
                match <$col>::load(&bytes) {
                    Ok(c) => {
                        let g2: Vec<<K as Kind>::V> = c.to_vec().into_iter().map(|x| getf(x)).collect();
                        if g2 != want {
                            bad.push(format!("{} seg{} step {}: load(save) differs", K::NAME, maxseg, si));
                            return;
                        }
                    }
                    Err(e) => {
                        bad.push(format!("{} seg{} step {}: load(save) fails {:?}", K::NAME, maxseg, si, e));
                        return;
                    }
                }
                // ... and with explicit segment budgets (the loader splits the bytes into slabs accordingly);
                // the reloaded column saves to bytes that load to the same values
                for n in LOAD_BUDGETS {
                    match <$col>::load_with(&bytes, LoadOpts::new().with_max_segments(n)) {
                        Ok(c) => {
                            let g2: Vec<<K as Kind>::V> = c.to_vec().into_iter().map(|x| getf(x)).collect();
                            let again = <$col>::load(&c.save()).map(|d| d.to_vec().into_iter().map(|x| getf(x)).collect::<Vec<<K as Kind>::V>>());
                            if g2 != want || c.len() != want.len() || again.ok().as_ref() != Some(&want) {
                                bad.push(format!("{} seg{} step {}: load_with(max_segments {}) gives {:?} want {:?}", K::NAME, maxseg, si, n, g2, want));
                                return;
                            }
                        }
                        Err(e) => {
                            bad.push(format!("{} seg{} step {}: load_with(max_segments {}) fails {:?}", K::NAME, maxseg, si, n, e));
                            return;
                        }
                    }
                }
            }
        }
    };
}

plain_column_replay!(replay_u64, KU64, Column<u64>, |x: u64| x);
plain_column_replay!(replay_opt, KOpt, Column<Option<u64>>, |x: Option<u64>| x);
plain_column_replay!(replay_i64, KI64, Column<i64>, |x: i64| x);
plain_column_replay!(replay_bool, KBool, Column<bool>, |x: bool| x);
plain_column_replay!(replay_str, KStr, Column<String>, |x: &str| x.to_string());
plain_column_replay!(replay_bytes, KBytes, Column<Vec<u8>>, |x: &[u8]| x.to_vec());

fn replay_prefix(beh: &J, maxseg: usize, bad: &mut Vec<String>) {
    let mut col: PrefixColumn<u64> = PrefixColumn::with_max_segments(maxseg);
    for (si, step) in beh.as_array().unwrap().iter().enumerate() {
        let op = &step["op"];
        let vs: Vec<u64> = toks(&op["vs"]).iter().map(|t| num(t)).collect();
        let i = op["i"].as_u64().unwrap_or(0) as usize;
        match op["f"].as_str().unwrap_or("") {
            "insert" => col.insert(i, vs[0]),
            "push" => col.push(vs[0]),
            "splice" => col.splice(i, op["del"].as_u64().unwrap_or(0) as usize, vs.clone()),
            "remove" => col.remove(i),
            "remove_n" => col.remove_n(i, op["n"].as_u64().unwrap_or(0) as usize),
            "truncate" => col.truncate(i),
            "clear" => col.clear(),
            "saveload" => match PrefixColumn::<u64>::load(&col.save()) {
                Ok(c) => col = c,
                Err(e) => bad.push(format!("prefix step {}: own bytes do not load: {:?}", si, e)),
            },
            _ => {}
        }
        let want: Vec<u64> = toks(&step["exp"]["col"]).iter().map(|t| num(t)).collect();
        if col.to_vec() != want {
            bad.push(format!("prefix seg{} step {} {}: contents {:?} want {:?}", maxseg, si, op, col.to_vec(), want));
            return;
        }
        for n in LOAD_BUDGETS {
            match PrefixColumn::<u64>::load_with(&col.save(), LoadOpts::new().with_max_segments(n)) {
                Ok(c) if c.to_vec() == want => {}
                other => {
                    bad.push(format!("prefix seg{} step {}: load_with(max_segments {}) {:?}", maxseg, si, n, other.map(|c| c.to_vec())));
                    return;
                }
            }
        }
        let pre: Vec<u64> = step["exp"]["pre"].as_array().unwrap().iter().map(|x| x.as_u64().unwrap()).collect();
        for (k, p) in pre.iter().enumerate() {
            if col.get_prefix(k) as u64 != *p {
                bad.push(format!("prefix seg{} step {}: get_prefix({}) = {} want {}", maxseg, si, k, col.get_prefix(k), p));
                return;
            }
            if k < want.len() {
                let pv = col.get(k).map(|x| (x.prefix() as u64, x.total() as u64, x.value));
                if pv != Some((*p, *p + want[k], want[k])) {
                    bad.push(format!("prefix seg{} step {}: get({}) = {:?}", maxseg, si, k, pv));
                    return;
                }
            }
        }
        let ift: Vec<usize> = step["exp"]["ift"].as_array().unwrap().iter().map(|x| x.as_u64().unwrap() as usize).collect();
        for (t, want_i) in ift.iter().enumerate() {
            let g = col.get_index_for_total(t as u128);
            if g != *want_i {
                bad.push(format!("prefix seg{} step {}: get_index_for_total({}) = {} want {} (col {:?})", maxseg, si, t, g, want_i, want));
                return;
            }
        }
        for a in 0..=want.len() {
            for b in a..=want.len() {
                if col.sum_range(a..b) as u64 != want[a..b].iter().sum::<u64>() {
                    bad.push(format!("prefix seg{} step {}: sum_range({}..{})", maxseg, si, a, b));
                    return;
                }
            }
        }
    }
}

fn replay_delta(beh: &J, maxseg: usize, bad: &mut Vec<String>) {
    // tokens map to values far apart so that deltas are large and signed
    fn dv(t: &str) -> i64 {
        match t {
            "1" => -3,
            "5" => 1 << 40,
            "N" => 7,
            _ => 0,
        }
    }
    replay_delta_with(beh, maxseg, bad, dv)
}

fn replay_delta_ap(beh: &J, maxseg: usize, bad: &mut Vec<String>) {
    // tokens map to an arithmetic progression, so that runs of equal (also negative) deltas arise
    fn dv(t: &str) -> i64 {
        match t {
            "N" => 6,
            "0" => 4,
            "1" => 2,
            _ => 0,
        }
    }
    replay_delta_with(beh, maxseg, bad, dv)
}

fn replay_delta_neg(beh: &J, maxseg: usize, bad: &mut Vec<String>) {
    fn dv(t: &str) -> i64 {
        match t {
            "N" => -2,
            "0" => -4,
            "1" => -6,
            _ => -8,
        }
    }
    replay_delta_with(beh, maxseg, bad, dv)
}

fn replay_delta_with(beh: &J, maxseg: usize, bad: &mut Vec<String>, dv: fn(&str) -> i64) {
    let mut col: DeltaColumn<i64> = DeltaColumn::with_max_segments(maxseg);
    for (si, step) in beh.as_array().unwrap().iter().enumerate() {
        let op = &step["op"];
        let vs: Vec<i64> = toks(&op["vs"]).iter().map(|t| dv(t)).collect();
        let i = op["i"].as_u64().unwrap_or(0) as usize;
        match op["f"].as_str().unwrap_or("") {
            "insert" => col.insert(i, vs[0]),
            "push" => col.push(vs[0]),
            "splice" => col.splice(i, op["del"].as_u64().unwrap_or(0) as usize, vs.clone()),
            "remove" => col.remove(i),
            "remove_n" => col.remove_n(i, op["n"].as_u64().unwrap_or(0) as usize),
            "truncate" => col.truncate(i),
            "clear" => col.clear(),
            "saveload" => match DeltaColumn::<i64>::load(&col.save()) {
                Ok(c) => col = c,
                Err(e) => bad.push(format!("delta step {}: own bytes do not load: {:?}", si, e)),
            },
            _ => {}
        }
        col.check_invariants();
        let want: Vec<i64> = toks(&step["exp"]["col"]).iter().map(|t| dv(t)).collect();
        if col.to_vec() != want || col.len() != want.len() {
            bad.push(format!("delta seg{} step {} {}: contents {:?} want {:?}", maxseg, si, op, col.to_vec(), want));
            return;
        }
        for k in 0..want.len() {
            if col.get(k) != Some(want[k]) {
                bad.push(format!("delta seg{} step {}: get({})", maxseg, si, k));
                return;
            }
        }
        for a in 0..=want.len() {
            for b in a..=want.len() {
                let r: Vec<i64> = col.iter_range(a..b).collect();
                if r != want[a..b] {
                    bad.push(format!("delta seg{} step {}: iter_range({}..{})", maxseg, si, a, b));
                    return;
                }
            }
        }
        // find_by_value agrees with the positions the specification lists per token
        for t in ["N", "0", "1", "5"] {
            let mut wantpos: Vec<usize> = step["exp"]["pos"][t].as_array().unwrap().iter().map(|x| x.as_u64().unwrap() as usize).collect();
            wantpos.sort();
            let mut got: Vec<usize> = col.find_by_value(dv(t)).collect();
            got.sort();
            if got != wantpos {
                bad.push(format!("delta seg{} step {}: find_by_value({}) = {:?} want {:?}", maxseg, si, dv(t), got, wantpos));
                return;
            }
            if col.find_first(dv(t)) != wantpos.first().copied() {
                bad.push(format!("delta seg{} step {}: find_first({})", maxseg, si, dv(t)));
                return;
            }
        }
        match DeltaColumn::<i64>::load(&col.save()) {
            Ok(c) if c.to_vec() == want => {}
            other => {
                bad.push(format!("delta seg{} step {}: load(save) {:?}", maxseg, si, other.map(|c| c.to_vec())));
                return;
            }
        }
        for n in LOAD_BUDGETS {
            match DeltaColumn::<i64>::load_with(&col.save(), LoadOpts::new().with_max_segments(n)) {
                Ok(c) if c.to_vec() == want => {}
                other => {
                    bad.push(format!("delta seg{} step {}: load_with(max_segments {}) {:?}", maxseg, si, n, other.map(|c| c.to_vec())));
                    return;
                }
            }
        }
    }
}

fn replay_raw(beh: &J, maxseg: usize, bad: &mut Vec<String>) {
    // raw column: every token is a 2-byte cell, indexes are scaled by 2
    fn cell(t: &str) -> [u8; 2] {
        match t {
            "1" => [1, 0xff],
            "5" => [5, 0],
            "N" => [0, 0],
            _ => [0x30, 0x80],
        }
    }
    let mut col = RawColumn::with_max_segments(maxseg);
    for (si, step) in beh.as_array().unwrap().iter().enumerate() {
        let op = &step["op"];
        let bytes: Vec<u8> = toks(&op["vs"]).iter().flat_map(|t| cell(t)).collect();
        let i = 2 * op["i"].as_u64().unwrap_or(0) as usize;
        let len = col.len();
        match op["f"].as_str().unwrap_or("") {
            "insert" | "splice" => col.splice_slice(i, 2 * op["del"].as_u64().unwrap_or(0) as usize, &bytes),
            "push" => col.splice_slice(len, 0, &bytes),
            "remove" => col.splice_slice(i, 2, &[]),
            "remove_n" => col.splice_slice(i, 2 * op["n"].as_u64().unwrap_or(0) as usize, &[]),
            "truncate" => col.splice_slice(i, len - i, &[]),
            "clear" => col.splice_slice(0, len, &[]),
            "saveload" => match RawColumn::load_with_max_segments(&col.save(), maxseg) {
                Ok(c) => col = c,
                Err(e) => bad.push(format!("raw step {}: own bytes do not load: {:?}", si, e)),
            },
            _ => {}
        }
        let want: Vec<u8> = toks(&step["exp"]["col"]).iter().flat_map(|t| cell(t)).collect();
        if col.len() != want.len() || col.save() != want {
            bad.push(format!("raw seg{} step {} {}: len {} want {}", maxseg, si, op, col.len(), want.len()));
            return;
        }
        for a in (0..want.len()).step_by(2) {
            if col.get(a..a + 2) != &want[a..a + 2] {
                bad.push(format!("raw seg{} step {}: get({}..{})", maxseg, si, a, a + 2));
                return;
            }
        }
    }
}

fn replay(args: &[String]) {
    let text = std::fs::read_to_string(&args[2]).unwrap();
    world::silence_panics();
    let mut nb = 0;
    let mut nsteps = 0;
    let mut mism: Vec<J> = vec![];
    type F = fn(&J, usize, &mut Vec<String>);
    let kinds: Vec<(&str, F)> = vec![
        ("u64", replay_u64), ("opt_u64", replay_opt), ("i64", replay_i64), ("bool", replay_bool), ("string", replay_str),
        ("bytes", replay_bytes), ("prefix_u64", replay_prefix), ("delta_i64", replay_delta), ("delta_ap", replay_delta_ap), ("delta_neg", replay_delta_neg), ("raw", replay_raw),
    ];
    for line in text.lines().filter(|l| !l.trim().is_empty()) {
        let beh: J = serde_json::from_str(line).unwrap();
        nb += 1;
        nsteps += beh.as_array().map(|a| a.len()).unwrap_or(0);
        for (name, f) in &kinds {
            for maxseg in [2usize, 3, 4, 16] {
                let mut bad = vec![];
                let r = catch_unwind(AssertUnwindSafe(|| f(&beh, maxseg, &mut bad)));
                if let Err(p) = r {
                    bad.push(format!("{} seg{}: {}", name, maxseg, world::panic_msg(p)));
                }
                if !bad.is_empty() && mism.len() < 50 {
                    let ops: Vec<J> = beh.as_array().unwrap().iter().map(|s| s["op"].clone()).collect();
                    mism.push(json!({"behaviour": nb - 1, "step": 0, "fields": [format!("{}:{}", name, bad[0].chars().take(160).collect::<String>())],
                                     "expected": {"kind": name, "maxseg": maxseg, "ops": ops}, "got": bad, "line": beh}));
                }
            }
        }
    }
    let out = json!({"behaviours": nb, "steps": nsteps * kinds.len() * 4, "mismatches": mism});
    std::fs::write(&args[3], out.to_string()).unwrap();
    println!("REPLAY behaviours={} steps={} mismatches={}", nb, nsteps, out["mismatches"].as_array().unwrap().len());
}

// ---------------------------------------------------------------- C35: bad bytes
fn load_all(bytes: &[u8]) -> Vec<(String, String)> {
    // every column type's load on the same bytes: returns (type, outcome)
    let mut out = vec![];
    macro_rules! try_load {
        ($name:expr, $ty:ty, $cmp:expr) => {{
            let r = catch_unwind(AssertUnwindSafe(|| match <$ty>::load(bytes) {
                Ok(c) => {
                    // a column that loads saves back to bytes that load to the same values
                    let saved = c.save();
                    match <$ty>::load(&saved) {
                        Ok(c2) => {
                            let same = $cmp(&c, &c2);
                            if same { "ok".to_string() } else { "bad:resave-differs".to_string() }
                        }
                        Err(e) => format!("bad:resave-does-not-load:{:?}", e).chars().take(80).collect(),
                    }
                }
                Err(_) => "err".to_string(),
            }));
            out.push(($name.to_string(), r.unwrap_or_else(|p| world::panic_msg(p))));
        }};
    }
    try_load!("u64", Column<u64>, |a: &Column<u64>, b: &Column<u64>| a.len() == b.len() && a.save() == b.save());
    try_load!("opt_u64", Column<Option<u64>>, |a: &Column<Option<u64>>, b: &Column<Option<u64>>| a.len() == b.len() && a.save() == b.save());
    try_load!("i64", Column<i64>, |a: &Column<i64>, b: &Column<i64>| a.len() == b.len() && a.save() == b.save());
    try_load!("opt_i64", Column<Option<i64>>, |a: &Column<Option<i64>>, b: &Column<Option<i64>>| a.len() == b.len() && a.save() == b.save());
    try_load!("u32", Column<u32>, |a: &Column<u32>, b: &Column<u32>| a.len() == b.len() && a.save() == b.save());
    try_load!("bool", Column<bool>, |a: &Column<bool>, b: &Column<bool>| a.len() == b.len() && a.save() == b.save());
    try_load!("string", Column<String>, |a: &Column<String>, b: &Column<String>| a.len() == b.len() && a.save() == b.save());
    try_load!("opt_string", Column<Option<String>>, |a: &Column<Option<String>>, b: &Column<Option<String>>| a.len() == b.len() && a.save() == b.save());
    try_load!("bytes", Column<Vec<u8>>, |a: &Column<Vec<u8>>, b: &Column<Vec<u8>>| a.len() == b.len() && a.save() == b.save());
    try_load!("prefix_u64", PrefixColumn<u64>, |a: &PrefixColumn<u64>, b: &PrefixColumn<u64>| a.len() == b.len() && a.save() == b.save());
    try_load!("prefix_bool", PrefixColumn<bool>, |a: &PrefixColumn<bool>, b: &PrefixColumn<bool>| a.len() == b.len() && a.save() == b.save());
    try_load!("delta_i64", DeltaColumn<i64>, |a: &DeltaColumn<i64>, b: &DeltaColumn<i64>| a.len() == b.len() && a.save() == b.save());
    try_load!("delta_u64", DeltaColumn<u64>, |a: &DeltaColumn<u64>, b: &DeltaColumn<u64>| a.len() == b.len() && a.save() == b.save());
    try_load!("delta_opt_i64", DeltaColumn<Option<i64>>, |a: &DeltaColumn<Option<i64>>, b: &DeltaColumn<Option<i64>>| a.len() == b.len() && a.save() == b.save());
    try_load!("raw", RawColumn, |a: &RawColumn, b: &RawColumn| a.len() == b.len() && a.save() == b.save());
    out
}

fn leb(mut v: u64, out: &mut Vec<u8>) {
    loop {
        let b = (v & 0x7f) as u8;
        v >>= 7;
        if v == 0 {
            out.push(b);
            break;
        }
        out.push(b | 0x80);
    }
}
fn sleb(mut v: i64, out: &mut Vec<u8>) {
    loop {
        let b = (v & 0x7f) as u8;
        v >>= 7;
        let done = (v == 0 && b & 0x40 == 0) || (v == -1 && b & 0x40 != 0);
        out.push(if done { b } else { b | 0x80 });
        if done {
            break;
        }
    }
}

fn bytes_campaign(args: &[String]) {
    use std::io::Write;
    let seed: u64 = args[2].parse().unwrap();
    let n: usize = args[3].parse().unwrap();
    let mut out = std::io::BufWriter::new(std::fs::File::create(&args[4]).unwrap());
    world::silence_panics();
    let mut rng = Rng::new(seed ^ 0x4e8);
    writeln!(out, "{}", json!({"ev":"reset","scn":0,"family":"hexbytes","enc":"cp"})).unwrap();
    // base encodings of each type
    let mut bases: Vec<(String, Vec<u8>)> = vec![];
    let v64: Vec<u64> = (0..40).map(|k| if k % 7 < 4 { 5 } else { k as u64 * 1000 }).collect();
    bases.push(("u64".into(), Column::<u64>::from_values(v64.clone()).save()));
    bases.push(("opt_u64".into(), Column::<Option<u64>>::from_values(v64.iter().map(|x| if x % 3 == 0 { None } else { Some(*x) }).collect()).save()));
    bases.push(("bool".into(), Column::<bool>::from_values((0..50).map(|k| k % 9 < 5).collect()).save()));
    bases.push(("string".into(), Column::<String>::from_values((0..20).map(|k| if k % 4 == 0 { "\u{e9}\u{1f600}".to_string() } else { "ab".repeat(k % 3) }).collect()).save()));
    bases.push(("delta_i64".into(), DeltaColumn::<i64>::from_values((0..40).map(|k| (k * k) as i64 - 300).collect()).save()));
    bases.push(("prefix_u64".into(), PrefixColumn::<u64>::from_values(v64.clone()).save()));
    // hand-made extremes: run lengths and values at the edges of the encodings
    let mut hand: Vec<Vec<u8>> = vec![];
    for count in [0i64, 1, -1, 2, -2, i64::MAX, i64::MIN, 1 << 32, -(1 << 32), 127, -128] {
        for val in [0u64, 1, u64::MAX, 1 << 63, 1 << 32] {
            let mut b = vec![];
            sleb(count, &mut b);
            leb(val, &mut b);
            hand.push(b.clone());
            b.extend_from_slice(&[0x80, 0x80, 0x80, 0x80, 0x80, 0x80, 0x80, 0x80, 0x80, 0x80, 0x80, 0x01]);
            hand.push(b);
        }
        let mut b = vec![];
        sleb(count, &mut b);
        hand.push(b);
    }
    hand.push(vec![0x00]);
    hand.push(vec![0x00, 0x00]);
    hand.push(vec![0x00, 0xff, 0xff, 0xff, 0xff, 0x0f]);
    hand.push(vec![0x7f, 0x02, 0xc3]); // literal run of 1 string with a truncated utf8 byte
    hand.push(vec![0x7f, 0x02, 0xff, 0xfe]); // invalid utf8
    hand.push(vec![0x7e, 0x01, 0x61]); // literal run of 2, only one value
    let mut total = 0usize;
    let mut counts: std::collections::BTreeMap<(String, String), usize> = Default::default();
    let mut feed = |label: &str, bytes: &[u8], out: &mut std::io::BufWriter<std::fs::File>| {
        for (ty, o) in load_all(bytes) {
            total += 1;
            let cls = if o == "ok" || o == "err" { o.clone() } else { o.chars().take(70).collect() };
            let c = counts.entry((ty.clone(), cls)).or_insert(0);
            *c += 1;
            if o != "ok" && o != "err" && *c <= 3 {
                writeln!(out, "{}", json!({"ev":"hexbad","label":label,"ty":ty,"o":o,"hex":hex::encode(&bytes[..bytes.len().min(64)]),"n":bytes.len()})).unwrap();
            }
        }
    };
    for (k, h) in hand.iter().enumerate() {
        feed(&format!("hand{}", k), h, &mut out);
    }
    for (name, base) in &bases {
        feed(&format!("identity:{}", name), base, &mut out);
        for p in 0..base.len() {
            for v in [0x00u8, 0x7f, 0x80, 0xff, 0x01, 0x40] {
                let mut b = base.clone();
                b[p] = v;
                feed(&format!("set:{}", name), &b, &mut out);
            }
            let mut b = base.clone();
            b[p] ^= 1 << (p % 8);
            feed(&format!("flip:{}", name), &b, &mut out);
            feed(&format!("trunc:{}", name), &base[..p], &mut out);
        }
    }
    for k in 0..n {
        let len = 1 + rng.below(24);
        let b: Vec<u8> = (0..len).map(|_| if rng.chance(1, 3) { [0u8, 1, 0x7f, 0x80, 0xff, 0x7e, 0x02][rng.below(7)] } else { rng.below(256) as u8 }).collect();
        feed(&format!("random{}", k % 10), &b, &mut out);
    }
    for ((ty, cls), c) in &counts {
        writeln!(out, "{}", json!({"ev":"hexagg","ty":ty,"cls":cls,"n":c})).unwrap();
    }
    out.flush().unwrap();
    println!("HEXRUN bytes loads={}", total);
}

fn main() {
    let args: Vec<String> = std::env::args().collect();
    match args.get(1).map(|s| s.as_str()) {
        Some("replay") => replay(&args),
        Some("bytes") => bytes_campaign(&args),
        _ => {
            eprintln!("usage: hexrun replay|bytes ...");
            std::process::exit(2);
        }
    }
}
