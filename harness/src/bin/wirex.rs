//! wirex: encodings and untrusted input (C15-C19, C23, C39).
//!
//!   wirex roundtrip <seed> <n> <out.ndjson>            C18 / C19 round trips on real histories and sync sessions
//!   wirex bloom <vectors.json> <seed> <out.ndjson>     C23 (+C15/C17): TLC-enumerated filter parameter vectors, hash sets
//!   wirex mutate <seed> <nbases> <out.ndjson> <quick|thorough>   C15/C16/C17/C39 mutation campaign
//!   wirex worker <job.json> <results.ndjson>           (internal) runs mutation vectors in a child process
//!
//! Panics are data (catch_unwind).  Aborts, hangs and refused giant allocations are observed through
//! process isolation: the campaign runs in child processes which report progress line by line.
use amverif::calls::Profile;
use amverif::rng::Rng;
use amverif::world::{self, ObsLevel, World};
use amverif::{chg, enc, scen};
use automerge::sync::{self, SyncDoc};
use automerge::{ActorId, Automerge, Change, ChangeHash, Cursor, ObjId, ReadDoc};
use serde_json::{json, Value as J};
use std::alloc::{GlobalAlloc, Layout, System};
use std::io::Write;
use std::panic::{catch_unwind, AssertUnwindSafe};
use std::sync::atomic::{AtomicUsize, Ordering};

// ---------------------------------------------------------------- allocation monitor
struct Counting;
static CUR: AtomicUsize = AtomicUsize::new(0);
static PEAK: AtomicUsize = AtomicUsize::new(0);
static BIGGEST: AtomicUsize = AtomicUsize::new(0);
/// a single request above this is refused (null): the library's `try_reserve` paths report an error,
/// anything else aborts the worker, which the parent observes
const REFUSE: usize = 1 << 31;
/// requests above this size get their call site recorded (first automerge / hexane frame of a backtrace)
const SITE_ABOVE: usize = 64 << 20;
static IN_CAPTURE: std::sync::atomic::AtomicBool = std::sync::atomic::AtomicBool::new(false);
static BIG_SITE: std::sync::Mutex<String> = std::sync::Mutex::new(String::new());

fn note_big_site(size: usize) {
    if size < SITE_ABOVE || IN_CAPTURE.swap(true, Ordering::SeqCst) {
        return;
    }
    let bt = std::backtrace::Backtrace::force_capture().to_string();
    let frame = bt
        .lines()
        .filter_map(|l| l.trim().split_once(": ").map(|x| x.1.trim().to_string()))
        .find(|f| (f.starts_with("automerge::") || f.starts_with("hexane::") || f.starts_with("<automerge::") || f.starts_with("<hexane::")))
        .unwrap_or_default();
    if let Ok(mut g) = BIG_SITE.try_lock() {
        *g = frame;
    }
    IN_CAPTURE.store(false, Ordering::SeqCst);
}

unsafe impl GlobalAlloc for Counting {
    unsafe fn alloc(&self, l: Layout) -> *mut u8 {
        if l.size() > BIGGEST.load(Ordering::Relaxed) {
            BIGGEST.store(l.size(), Ordering::Relaxed);
            note_big_site(l.size());
        }
        if l.size() >= REFUSE {
            return std::ptr::null_mut();
        }
        let p = System.alloc(l);
        if !p.is_null() {
            let c = CUR.fetch_add(l.size(), Ordering::Relaxed) + l.size();
            if c > PEAK.load(Ordering::Relaxed) {
                PEAK.store(c, Ordering::Relaxed);
            }
        }
        p
    }
    unsafe fn dealloc(&self, p: *mut u8, l: Layout) {
        CUR.fetch_sub(l.size(), Ordering::Relaxed);
        System.dealloc(p, l)
    }
    unsafe fn realloc(&self, p: *mut u8, l: Layout, new: usize) -> *mut u8 {
        if new > BIGGEST.load(Ordering::Relaxed) {
            BIGGEST.store(new, Ordering::Relaxed);
            note_big_site(new);
        }
        if new >= REFUSE {
            return std::ptr::null_mut();
        }
        let q = System.realloc(p, l, new);
        if !q.is_null() {
            if new > l.size() {
                let c = CUR.fetch_add(new - l.size(), Ordering::Relaxed) + (new - l.size());
                if c > PEAK.load(Ordering::Relaxed) {
                    PEAK.store(c, Ordering::Relaxed);
                }
            } else {
                CUR.fetch_sub(l.size() - new, Ordering::Relaxed);
            }
        }
        q
    }
}
#[global_allocator]
static A: Counting = Counting;

fn reset_peak() {
    PEAK.store(CUR.load(Ordering::Relaxed), Ordering::Relaxed);
    BIGGEST.store(0, Ordering::Relaxed);
    if let Ok(mut g) = BIG_SITE.try_lock() {
        g.clear();
    }
}
fn big_site() -> String {
    BIG_SITE.try_lock().map(|g| g.clone()).unwrap_or_default()
}
fn peak_since() -> (usize, usize) {
    (PEAK.load(Ordering::Relaxed).saturating_sub(CUR.load(Ordering::Relaxed).min(PEAK.load(Ordering::Relaxed))), BIGGEST.load(Ordering::Relaxed))
}

// ---------------------------------------------------------------- material
fn history(i: usize, rng: &mut Rng) -> World {
    let fam = ["doc", "marks", "textenc", "ids"][i % 4];
    let mut prof = Profile::all();
    let mut encd = automerge::TextEncoding::UnicodeCodePoint;
    let mut base = vec![];
    match fam {
        "marks" | "textenc" => {
            prof.nested = false;
            prof.lists = false;
            prof.maps = false;
            prof.marks = true;
            prof.unicode = fam == "textenc";
            prof.text_puts = fam == "textenc";
            prof.max_objs = 3;
            if fam == "textenc" {
                encd = [automerge::TextEncoding::Utf16CodeUnit, automerge::TextEncoding::Utf8CodeUnit][i % 2];
            }
            base = vec![
                json!({"fn":"put_object","obj":[0,0],"key":"t","ty":"text"}),
                json!({"fn":"splice_text","obj":[1,1],"idx":0,"del":0,"toks":["a","grin","eacute","b"]}),
            ];
        }
        _ => {
            prof.stringy = i % 8 < 4;
        }
    }
    let o = scen::GraphOpts {
        weights: if fam == "ids" { scen::W_RELOAD } else { scen::W_CONFLICT },
        twin_start: false,
        base_calls: base,
        readat: 0,
        reload_before_readat: false,
        rollback_pct: 0,
        diffs: 0,
        log_patches: false,
        steps: 10 + rng.below(10),
        max_reps: 3,
        max_changes: 12,
        dup_actors: false,
        obs: ObsLevel::Graph,
        prof,
        enc: encd,
    };
    scen::graph_scenario(i, rng, &o, if fam == "ids" { "ids" } else { "wire" })
}

/// a change big enough to be DEFLATE-compressed, with a commit message
fn big_change(doc: &mut Automerge) -> Option<Change> {
    use automerge::transaction::{CommitOptions, Transactable};
    let mut tx = doc.transaction();
    let t = tx.put_object(automerge::ROOT, "big", automerge::ObjType::Text).ok()?;
    let s: String = (0..400).map(|k| char::from(b'a' + (k % 7) as u8)).collect();
    tx.splice_text(&t, 0, 0, &s).ok()?;
    let (h, _) = tx.commit_with(CommitOptions::default().with_time(7).with_message("a message \u{e9}\u{1f600}"));
    doc.get_change_by_hash(&h?)
}

fn emit(out: &mut impl Write, e: J) {
    writeln!(out, "{}", e).unwrap();
}

// ---------------------------------------------------------------- roundtrip
fn change_rt(c: &Change) -> J {
    let raw = c.raw_bytes().to_vec();
    let again = Change::from_bytes(raw.clone());
    let raw_ok = again.as_ref().map(|a| a.hash() == c.hash() && a.raw_bytes() == c.raw_bytes() && a == c).unwrap_or(false);
    let mut cc = c.clone();
    let comp = cc.bytes().to_vec();
    let compressed = comp != raw;
    let viac = Change::from_bytes(comp.clone());
    let comp_ok = viac.as_ref().map(|a| a.hash() == c.hash() && a.raw_bytes() == c.raw_bytes()).unwrap_or(false);
    let ex = c.decode();
    let re = Change::from(ex);
    let reenc_ok = re.hash() == c.hash() && re.raw_bytes() == c.raw_bytes();
    let hash_ok = raw.len() > 8 && chg::sha256_hex(&raw[8..]) == c.hash().to_string();
    json!({"ev":"chgrt","hash":enc::hash_str(&c.hash()),"len":raw.len(),"compressed":compressed,
           "raw_ok":raw_ok,"comp_ok":comp_ok,"reenc_ok":reenc_ok,"hash_ok":hash_ok})
}

/// C18: a long history by 2-3 actors who keep exchanging changes (so their changes interleave in the
/// graph), bundled as a whole and as random subsets; the bundle goes through its bytes.
fn bundle_rt(i: usize, rng: &mut Rng) -> Vec<J> {
    use automerge::transaction::Transactable;
    let nact = 2 + (i % 2);
    let rounds = 12 + rng.below(40);
    let mut docs: Vec<automerge::AutoCommit> = (0..nact).map(|k| automerge::AutoCommit::new().with_actor(enc::actor_from_num(if i % 4 < 2 { k as u8 + 1 } else { 9 - k as u8 }))).collect();
    let l = docs[0].put_object(automerge::ROOT, "l", automerge::ObjType::List).unwrap();
    let t = docs[0].put_object(automerge::ROOT, "t", automerge::ObjType::Text).unwrap();
    docs[0].commit();
    for k in 1..nact {
        let mut b = docs[0].clone();
        docs[k].merge(&mut b).unwrap();
    }
    for r in 0..rounds {
        for k in 0..nact {
            let d = &mut docs[k];
            match rng.below(5) {
                0 => { let _ = d.put(automerge::ROOT, format!("k{}", rng.below(4)), r as i64); }
                1 => { let n = d.length(&l); let _ = d.insert(&l, rng.below(n + 1), r as i64); }
                2 => { let n = d.length(&l); if n > 0 { let _ = d.delete(&l, rng.below(n)); } else { let _ = d.insert(&l, 0, 0i64); } }
                3 => { let n = d.length(&t); let _ = d.splice_text(&t, rng.below(n + 1), 0, "ab"); }
                _ => { let _ = d.put(automerge::ROOT, "c", automerge::ScalarValue::counter(r as i64)); let _ = d.increment(automerge::ROOT, "c", 2); }
            }
            if rng.below(4) == 0 { let _ = d.put(automerge::ROOT, "z", r as i64); }
            d.commit();
        }
        // exchange: everybody merges everybody with high probability
        for k in 0..nact {
            for j in 0..nact {
                if j != k && rng.below(10) < 8 {
                    let mut o = docs[j].clone();
                    let _ = docs[k].merge(&mut o);
                }
            }
        }
    }
    for k in 1..nact {
        let mut o = docs[k].clone();
        let _ = docs[0].merge(&mut o);
    }
    let full = docs[0].document().clone();
    let all: Vec<Change> = full.get_changes(&[]).into_iter().collect();
    let mut out = vec![];
    for sub in 0..4 {
        let chosen: Vec<Change> = match sub {
            0 => all.clone(),
            1 => all.iter().filter(|_| rng.below(10) < 7).cloned().collect(),
            2 => { let cut = rng.below(all.len() + 1); all[..cut].to_vec() }
            _ => { let cut = rng.below(all.len() + 1); all[cut..].to_vec() }
        };
        let e = catch_unwind(AssertUnwindSafe(|| {
            let want: std::collections::BTreeSet<Vec<u8>> = chosen.iter().map(|c| c.raw_bytes().to_vec()).collect();
            let b = match full.bundle(chosen.iter().map(|c| c.hash())) {
                Ok(b) => b,
                Err(e) => return json!({"ev":"bundlert","n":chosen.len(),"sub":sub,"res":format!("bundle:{:?}", e)}),
            };
            let mem_ok = b.to_changes().map(|cs| cs.iter().map(|c| c.raw_bytes().to_vec()).collect::<std::collections::BTreeSet<_>>() == want).unwrap_or(false);
            let bytes = b.bytes().to_vec();
            let bytes_ok = match automerge::Bundle::try_from(bytes.as_slice()) {
                Ok(b2) => b2.to_changes().map(|cs| cs.iter().map(|c| c.raw_bytes().to_vec()).collect::<std::collections::BTreeSet<_>>() == want).unwrap_or(false),
                Err(_) => false,
            };
            // loading the bundle acts like applying its changes
            let mut viaload = Automerge::new().with_actor(enc::actor_from_num(90));
            let mut viaapply = Automerge::new().with_actor(enc::actor_from_num(90));
            let lr = viaload.load_incremental(&bytes).is_ok();
            let ar = viaapply.apply_changes(chosen.iter().cloned()).is_ok();
            let same = lr == ar && viaload.get_heads() == viaapply.get_heads()
                && enc::hashes_sorted(&viaload.verif_queued_hashes()) == enc::hashes_sorted(&viaapply.verif_queued_hashes())
                && viaload.save() == viaapply.save();
            json!({"ev":"bundlert","n":chosen.len(),"sub":sub,"actors":nact,"res":"ok","mem_ok":mem_ok,"bytes_ok":bytes_ok,"load_ok":same})
        }))
        .unwrap_or_else(|p| json!({"ev":"bundlert","n":chosen.len(),"sub":sub,"res":world::panic_msg(p)}));
        out.push(e);
    }
    out
}

/// C20 on long histories: two peers with a common prefix and long divergent suffixes (several actors each) sync
/// over a reliable link, with local edits during the first rounds; then messages keep flowing until both are quiet.
fn sync_long(i: usize, rng: &mut Rng) -> J {
    use automerge::transaction::Transactable;
    let common = [0usize, 3, 17, 40][i % 4] + rng.below(4);
    let (ka, kb) = ([35usize, 2, 20, 0][(i / 4) % 4] + rng.below(6), [1usize, 33, 18, 45][(i / 4) % 4] + rng.below(6));
    let mut a = automerge::AutoCommit::new().with_actor(enc::actor_from_num(1));
    let l = a.put_object(automerge::ROOT, "l", automerge::ObjType::List).unwrap();
    a.commit();
    let edit = |d: &mut automerge::AutoCommit, rng: &mut Rng, k: usize| {
        match rng.below(3) {
            0 => { let _ = d.put(automerge::ROOT, format!("k{}", rng.below(5)), k as i64); }
            1 => { let n = d.length(&l); let _ = d.insert(&l, rng.below(n + 1), k as i64); }
            _ => { let n = d.length(&l); if n > 0 { let _ = d.delete(&l, rng.below(n)); } else { let _ = d.insert(&l, 0, 1i64); } }
        }
        d.commit();
    };
    for k in 0..common {
        if k % 5 == 4 { a.set_actor(enc::actor_from_num(1 + (k % 3) as u8)); }
        edit(&mut a, rng, k);
    }
    let mut b = a.fork().with_actor(enc::actor_from_num(10));
    a.set_actor(enc::actor_from_num(20));
    for k in 0..ka {
        if k % 7 == 6 { a.set_actor(enc::actor_from_num(20 + (k % 4) as u8)); }
        edit(&mut a, rng, 100 + k);
    }
    for k in 0..kb {
        if k % 6 == 5 { b.set_actor(enc::actor_from_num(10 + (k % 4) as u8)); }
        edit(&mut b, rng, 200 + k);
    }
    let (mut sa, mut sb) = (sync::State::new(), sync::State::new());
    let (mut nm, mut quiet_at, mut late_edits) = (0usize, None, 0usize);
    for round in 0..24 {
        let mut quiet = true;
        for dir in 0..2 {
            let (from, to, sf, st) = if dir == 0 { (&mut a, &mut b, &mut sa, &mut sb) } else { (&mut b, &mut a, &mut sb, &mut sa) };
            if let Some(m) = from.sync().generate_sync_message(sf) {
                quiet = false;
                nm += 1;
                let bytes = m.encode();
                match sync::Message::decode(&bytes) {
                    Ok(dm) => { let _ = to.sync().receive_sync_message(st, dm); }
                    Err(_) => return json!({"ev":"synclong","res":"decode-failed"}),
                }
            }
            // local edits while the conversation is young
            if round < 3 && rng.below(3) == 0 {
                edit(to, rng, 300 + round);
                late_edits += 1;
                quiet = false;
            }
        }
        if quiet {
            quiet_at = Some(round);
            break;
        }
    }
    // (the saved bytes of two replicas may order the same changes differently; the state is compared)
    let state = |d: &mut automerge::AutoCommit| serde_json::to_string(&automerge::AutoSerde::from(d.document())).unwrap_or_default();
    let same = a.get_heads() == b.get_heads() && state(&mut a) == state(&mut b) && a.document().get_changes(&[]).len() == b.document().get_changes(&[]).len();
    json!({"ev":"synclong","res":"ok","common":common,"na":ka,"nb":kb,"edits":late_edits,"nmsgs":nm,
           "quiet": quiet_at.is_some(), "rounds": quiet_at.map(|x| x as i64).unwrap_or(-1), "converged": a.get_heads() == b.get_heads(), "same": same})
}

fn roundtrip(args: &[String]) {
    let seed: u64 = args[2].parse().unwrap();
    let n: usize = args[3].parse().unwrap();
    let mut out = std::io::BufWriter::new(std::fs::File::create(&args[4]).unwrap());
    world::silence_panics();
    let mut rng = Rng::new(seed ^ 0x51);
    for i in 0..n {
        let mut srng = rng.fork();
        let mut w = history(i, &mut srng);
        emit(&mut out, json!({"ev":"reset","scn":i,"family":"roundtrip","enc":world::enc_name(w.enc)}));
        if w.dead || w.reps.is_empty() {
            continue;
        }
        if let Some(c) = big_change(&mut w.reps[0]) {
            w.known.insert(enc::hash_str(&c.hash()), c);
        }
        // C18: every change
        for c in w.known.values() {
            let e = catch_unwind(AssertUnwindSafe(|| change_rt(c))).unwrap_or_else(|p| json!({"ev":"chgrt","res":world::panic_msg(p)}));
            emit(&mut out, e);
        }
        // C18: bundles of a long interleaved history through their bytes
        for e in bundle_rt(i, &mut srng) {
            emit(&mut out, e);
        }
        // C20: sync between long divergent histories
        let e = catch_unwind(AssertUnwindSafe(|| sync_long(i, &mut srng))).unwrap_or_else(|p| json!({"ev":"synclong","res":world::panic_msg(p)}));
        emit(&mut out, e);
        // C19: identifiers of every replica
        for r in 0..w.n() {
            let d = &w.reps[r];
            let e = catch_unwind(AssertUnwindSafe(|| {
                let mut bad: Vec<String> = vec![];
                let mut nids = 0;
                let mut ncur = 0;
                let v = amverif::proj::view(d, None);
                for o in v.as_array().cloned().unwrap_or_default() {
                    let id = amverif::calls::objid_from(&o["id"]);
                    nids += 1;
                    match ObjId::try_from(id.to_bytes().as_slice()) {
                        Ok(b) if b == id => {}
                        other => bad.push(format!("objid bytes {} -> {:?}", id, other.map(|x| x.to_string()))),
                    }
                    match d.import(&id.to_string()) {
                        Ok((s, _)) if s == id => {}
                        other => bad.push(format!("objid string {} -> {:?}", id, other.map(|x| x.0.to_string()))),
                    }
                    let ty = o["ty"].as_str().unwrap_or("");
                    if ty == "list" || ty == "text" {
                        let len = o["len"].as_u64().unwrap_or(0) as usize;
                        for i in 0..len {
                            for mode in [automerge::MoveCursor::After, automerge::MoveCursor::Before] {
                                if let Ok(c) = d.get_cursor_moving(&id, i, None, mode) {
                                    ncur += 1;
                                    if Cursor::try_from(c.to_bytes().as_slice()).ok().as_ref() != Some(&c) {
                                        bad.push(format!("cursor bytes {}", c));
                                    }
                                    if Cursor::try_from(c.to_string().as_str()).ok().as_ref() != Some(&c) {
                                        bad.push(format!("cursor string {}", c));
                                    }
                                }
                            }
                        }
                        for pos in [automerge::CursorPosition::Start, automerge::CursorPosition::End] {
                            if let Ok(c) = d.get_cursor(&id, pos, None) {
                                if Cursor::try_from(c.to_bytes().as_slice()).ok().as_ref() != Some(&c)
                                    || Cursor::try_from(c.to_string().as_str()).ok().as_ref() != Some(&c) {
                                    bad.push(format!("cursor {}", c));
                                }
                            }
                        }
                    }
                }
                let mut nstr = 0;
                for c in d.get_changes(&[]) {
                    nstr += 2;
                    let h = c.hash();
                    if h.to_string().parse::<ChangeHash>().ok() != Some(h) {
                        bad.push(format!("hash string {}", h));
                    }
                    if ChangeHash::try_from(h.as_ref()).ok() != Some(h) {
                        bad.push(format!("hash bytes {}", h));
                    }
                    let a = c.actor_id().clone();
                    if ActorId::try_from(a.to_hex_string().as_str()).ok().as_ref() != Some(&a) || ActorId::from(a.to_bytes()) != a {
                        bad.push(format!("actor {}", a));
                    }
                }
                json!({"ev":"idrt","r":r+1,"nids":nids,"ncursors":ncur,"nstrings":nstr,"bad":bad})
            }))
            .unwrap_or_else(|p| json!({"ev":"idrt","r":r+1,"res":world::panic_msg(p),"bad":["panic"]}));
            emit(&mut out, e);
        }
        // C19: a sync session between the first two replicas: every message and both states
        if w.n() >= 2 {
            let e = catch_unwind(AssertUnwindSafe(|| {
                let mut a = w.reps[0].clone();
                let mut b = w.reps[1].clone();
                let (mut sa, mut sb) = (sync::State::new(), sync::State::new());
                let mut bad: Vec<String> = vec![];
                let (mut nm, mut ns) = (0, 0);
                for _round in 0..12 {
                    let mut quiet = true;
                    for dir in 0..2 {
                        let (from, to, sf, st) = if dir == 0 { (&mut a, &mut b, &mut sa, &mut sb) } else { (&mut b, &mut a, &mut sb, &mut sa) };
                        if let Some(m) = from.generate_sync_message(sf) {
                            quiet = false;
                            nm += 1;
                            let bytes = m.clone().encode();
                            match sync::Message::decode(&bytes) {
                                Ok(d) => {
                                    if d != m {
                                        bad.push(format!("message differs after decode (round {})", _round));
                                    }
                                    if d.clone().encode() != bytes {
                                        bad.push("message re-encodes differently".into());
                                    }
                                    let _ = to.receive_sync_message(st, d);
                                }
                                Err(e) => bad.push(format!("message does not decode: {:?}", e)),
                            }
                        }
                        for s in [&*sf, &*st] {
                            ns += 1;
                            match sync::State::decode(&s.encode()) {
                                Ok(d) => {
                                    let mut x = d.shared_heads.clone();
                                    let mut y = s.shared_heads.clone();
                                    x.sort();
                                    y.sort();
                                    if x != y {
                                        bad.push("state shared_heads differ after decode".into());
                                    }
                                    if d.their_heads.is_some() || d.their_have != Some(vec![]) && d.their_have.is_some() && !d.their_have.as_ref().unwrap().is_empty() || !d.sent_hashes.is_empty() {
                                        bad.push("decoded state carries session fields".into());
                                    }
                                }
                                Err(e) => bad.push(format!("state does not decode: {:?}", e)),
                            }
                        }
                    }
                    if quiet {
                        break;
                    }
                }
                let conv = a.get_heads() == b.get_heads();
                json!({"ev":"syncrt","nmsgs":nm,"nstates":ns,"bad":bad,"converged":conv})
            }))
            .unwrap_or_else(|p| json!({"ev":"syncrt","res":world::panic_msg(p),"bad":["panic"]}));
            emit(&mut out, e);
        }
    }
    out.flush().unwrap();
    println!("WIREX roundtrip scenarios={}", n);
}

// ---------------------------------------------------------------- bloom
fn tok_val(t: &str) -> u64 {
    match t {
        "max32" => u32::MAX as u64,
        "over32" => (u32::MAX as u64) + 1,
        "max64" => u64::MAX,
        _ => t.parse().unwrap_or(0),
    }
}

fn leb(mut v: u64, out: &mut Vec<u8>) {
    loop {
        let b = (v & 0x7f) as u8;
        v >>= 7;
        if v == 0 {
            out.push(b);
            break;
        }
        out.push(b | 0x80);
    }
}

fn rand_hash(rng: &mut Rng) -> ChangeHash {
    scen::unknown_hash(rng)
}

/// supervising parent: the vectors run in a child process; a vector that kills or hangs the child is
/// recorded as "abort" / "timeout" and the run continues after it
fn bloom(args: &[String]) {
    let vectors: J = serde_json::from_str(&std::fs::read_to_string(&args[2]).unwrap()).unwrap();
    let nvec = vectors.as_array().map(|a| a.len()).unwrap_or(0);
    let exe = std::env::current_exe().unwrap();
    let _ = std::fs::remove_file(&args[4]);
    let mut start = 0usize;
    let mut rounds = 0;
    loop {
        rounds += 1;
        let mut child = std::process::Command::new(&exe).arg("bloomworker").arg(&args[2]).arg(&args[3]).arg(&args[4]).arg(start.to_string())
            .stdout(std::process::Stdio::null()).stderr(std::process::Stdio::null()).spawn().unwrap();
        let t0 = std::time::Instant::now();
        let mut last = (0u64, std::time::Instant::now());
        let status = loop {
            if let Some(st) = child.try_wait().unwrap() {
                break Some(st);
            }
            std::thread::sleep(std::time::Duration::from_millis(50));
            let sz = std::fs::metadata(&args[4]).map(|m| m.len()).unwrap_or(0);
            if sz != last.0 {
                last = (sz, std::time::Instant::now());
            } else if last.1.elapsed().as_secs() > 20 || t0.elapsed().as_secs() > 600 {
                let _ = child.kill();
                let _ = child.wait();
                break None;
            }
        };
        if status.map(|s| s.success()).unwrap_or(false) || rounds > 100 {
            break;
        }
        // find the vector that was running
        let text = std::fs::read_to_string(&args[4]).unwrap_or_default();
        let mut cur: Option<usize> = None;
        let mut done: Option<usize> = None;
        for l in text.lines() {
            if let Ok(v) = serde_json::from_str::<J>(l) {
                if v["ev"] == "bloomstart" {
                    cur = v["i"].as_u64().map(|x| x as usize);
                } else if v["ev"] == "bloomvec" {
                    done = v["i"].as_u64().map(|x| x as usize);
                }
            }
        }
        let at = cur.unwrap_or(start);
        if done != Some(at) && at < nvec {
            let mut f = std::fs::OpenOptions::new().append(true).open(&args[4]).unwrap();
            writeln!(f, "{}", json!({"ev":"bloomvec","i":at,"vec":vectors[at],"res": if status.is_none() { "timeout" } else { "abort" },
                                     "positives":-1,"reenc":false,"n":0,"peak":0,"biggest":0,"ms":20000})).unwrap();
        }
        start = at + 1;
    }
    println!("WIREX bloom done");
}

fn bloomworker(args: &[String]) {
    let vectors: J = serde_json::from_str(&std::fs::read_to_string(&args[2]).unwrap()).unwrap();
    let seed: u64 = args[3].parse().unwrap();
    let start: usize = args[5].parse().unwrap();
    let mut out = std::fs::OpenOptions::new().create(true).append(true).open(&args[4]).unwrap();
    world::silence_panics();
    let mut rng = Rng::new(seed ^ 0xB100);
    if start == 0 {
        emit(&mut out, json!({"ev":"reset","scn":0,"family":"bloom","enc":"cp"}));
    }
    let probes: Vec<ChangeHash> = (0..24).map(|_| rand_hash(&mut rng)).chain([ChangeHash([0u8; 32]), ChangeHash([0xffu8; 32])]).collect();
    // (1) spec -> impl: parameter vectors enumerated by TLC with the predicted accept/reject
    for (vi, v) in vectors.as_array().cloned().unwrap_or_default().into_iter().enumerate() {
        if vi < start {
            continue;
        }
        emit(&mut out, json!({"ev":"bloomstart","i":vi}));
        let (ne, bpe, np) = (tok_val(v["ne"].as_str().unwrap()), tok_val(v["bpe"].as_str().unwrap()), tok_val(v["np"].as_str().unwrap()));
        let cap: u128 = ((ne as u128) * (bpe as u128) + 7) / 8;
        let avail = v["avail"].as_str().unwrap();
        let nbytes: Option<usize> = match avail {
            "none" => Some(0),
            "exact" if cap <= 1 << 16 => Some(cap as usize),
            "long" if cap <= 1 << 16 => Some(cap as usize + 3),
            "short" if cap >= 1 => Some(((cap - 1).min(1 << 16)) as usize),
            "some" => Some(40),
            _ => None,
        };
        let Some(nbytes) = nbytes else {
            emit(&mut out, json!({"ev":"bloomvec","i":vi,"vec":v,"res":"skip"}));
            continue;
        };
        let mut bytes = vec![];
        leb(ne, &mut bytes);
        leb(bpe, &mut bytes);
        leb(np, &mut bytes);
        let hdr = bytes.len();
        bytes.extend((0..nbytes).map(|k| (k * 37 + 11) as u8));
        let t0 = std::time::Instant::now();
        reset_peak();
        let r = catch_unwind(AssertUnwindSafe(|| match sync::BloomFilter::try_from(bytes.as_slice()) {
            Ok(f) => {
                let pos = probes.iter().filter(|h| f.contains_hash(h)).count();
                // encode/decode of the accepted filter
                let again = sync::BloomFilter::try_from(f.to_bytes().as_slice()).map(|g| g == f).unwrap_or(false);
                ("ok".to_string(), pos as i64, again)
            }
            Err(_) => ("err".to_string(), -1, true),
        }));
        let (peak, biggest) = peak_since();
        let ms = t0.elapsed().as_millis() as i64;
        let (res, pos, again) = match r {
            Ok(x) => x,
            Err(p) => (world::panic_msg(p), -1, true),
        };
        emit(&mut out, json!({"ev":"bloomvec","i":vi,"vec":v,"res":res,"positives":pos,"reenc":again,"n":hdr + nbytes,"peak":peak as i64,"biggest":(biggest.min(1 << 30)) as i64,"ms":ms}));
    }
    // (2) no false negatives, before and after an encode/decode round trip
    for (kind, n) in [("rand", 0usize), ("rand", 1), ("rand", 2), ("rand", 7), ("rand", 8), ("rand", 9), ("rand", 100), ("rand", 1000), ("rand", 5000),
                      ("zero", 1), ("sameword", 50), ("xyz", 50), ("dup", 20)] {
        let set: Vec<ChangeHash> = (0..n)
            .map(|k| match kind {
                "zero" => ChangeHash([0u8; 32]),
                "sameword" => {
                    let mut b = [0u8; 32];
                    b[12..].iter_mut().for_each(|x| *x = rng.below(256) as u8);
                    b[0] = 5;
                    ChangeHash(b)
                }
                "xyz" => {
                    let w = [rng.below(256) as u8, rng.below(256) as u8, rng.below(256) as u8, rng.below(256) as u8];
                    let mut b = [0u8; 32];
                    for j in 0..3 {
                        b[4 * j..4 * j + 4].copy_from_slice(&w);
                    }
                    ChangeHash(b)
                }
                "dup" if k % 2 == 1 => ChangeHash([k as u8 - 1; 32]),
                "dup" => ChangeHash([k as u8; 32]),
                _ => rand_hash(&mut rng),
            })
            .collect();
        let r = catch_unwind(AssertUnwindSafe(|| {
            let f = sync::BloomFilter::from_hashes(set.iter());
            let fn1 = set.iter().filter(|h| !f.contains_hash(h)).count();
            let bytes = f.to_bytes();
            let g = sync::BloomFilter::try_from(bytes.as_slice());
            match g {
                Ok(g) => (fn1 as i64, set.iter().filter(|h| !g.contains_hash(h)).count() as i64, g == f, bytes.len() as i64),
                Err(_) => (fn1 as i64, -1, false, bytes.len() as i64),
            }
        }));
        let e = match r {
            Ok((a, b, eq, len)) => json!({"ev":"bloomset","kind":kind,"n":n as i64,"fn_built":a,"fn_decoded":b,"same":eq,"len":len,"res":"ok"}),
            Err(p) => json!({"ev":"bloomset","kind":kind,"n":n as i64,"fn_built":-1,"fn_decoded":-1,"same":false,"len":0,"res":world::panic_msg(p)}),
        };
        emit(&mut out, e);
    }
    out.flush().unwrap();
    println!("WIREX bloom done");
}

// ---------------------------------------------------------------- mutation campaign
/// entry points fed with bytes
const BYTE_TARGETS: [&str; 9] = ["load", "load_partial", "load_unverified", "load_incremental", "rescue", "change", "message", "state", "bundle"];

fn utf8_ok_doc(d: &Automerge) -> Result<(), String> {
    // every string the document hands out must be valid UTF-8 (C39): strings are &str / String, so
    // validity is re-checked on the raw bytes
    fn chk(s: &str, what: &str) -> Result<(), String> {
        std::str::from_utf8(s.as_bytes()).map(|_| ()).map_err(|_| format!("invalid utf8 in {}", what))
    }
    let mut todo = vec![ObjId::Root];
    let mut seen = 0;
    while let Some(o) = todo.pop() {
        seen += 1;
        if seen > 200 {
            break;
        }
        match d.object_type(&o) {
            Ok(automerge::ObjType::Map) | Ok(automerge::ObjType::Table) => {
                for k in d.keys(&o) {
                    chk(&k, "map key")?;
                    for (v, id) in d.get_all(&o, k.as_str()).map_err(|e| format!("get_all: {:?}", e))? {
                        if let automerge::Value::Scalar(s) = &v {
                            if let automerge::ScalarValue::Str(s) = s.as_ref() {
                                chk(s, "string value")?;
                            }
                        } else {
                            todo.push(id);
                        }
                    }
                }
            }
            Ok(ty) => {
                let len = d.length(&o);
                if ty == automerge::ObjType::Text {
                    chk(&d.text(&o).map_err(|e| format!("text: {:?}", e))?, "text")?;
                    for m in d.marks(&o).map_err(|e| format!("marks: {:?}", e))? {
                        chk(m.name(), "mark name")?;
                        if let automerge::ScalarValue::Str(s) = m.value() {
                            chk(s, "mark value")?;
                        }
                    }
                    if let Ok(sp) = d.spans(&o) {
                        for s in sp {
                            chk(s.as_str(), "span")?;
                        }
                    }
                }
                for i in 0..len.min(64) {
                    for (v, id) in d.get_all(&o, i).map_err(|e| format!("get_all: {:?}", e))? {
                        if let automerge::Value::Scalar(s) = &v {
                            if let automerge::ScalarValue::Str(s) = s.as_ref() {
                                chk(s, "string element")?;
                            }
                        } else {
                            todo.push(id);
                        }
                    }
                }
            }
            Err(_) => {}
        }
    }
    for c in d.get_changes(&[]) {
        if let Some(m) = c.message() {
            chk(m, "change message")?;
        }
    }
    Ok(())
}

/// C16: a document that loaded must behave like a valid one
fn consistent(d: &Automerge, original: Option<&Automerge>) -> Result<(), String> {
    use automerge::transaction::Transactable;
    let v1 = amverif::proj::view(d, None);
    let heads = d.get_heads();
    let changes = d.get_changes(&[]);
    for h in &heads {
        if d.get_change_by_hash(h).is_none() {
            return Err("head without change".into());
        }
    }
    let _ = d.get_missing_deps(&[]);
    let _ = d.hydrate(None);
    for c in changes.iter().rev().take(3) {
        let _ = amverif::proj::view(d, Some(&[c.hash()]));
    }
    // save -> load gives an equal document
    let bytes = d.save();
    let again = Automerge::load(&bytes).map_err(|e| format!("save output does not load: {:?}", e))?;
    if amverif::proj::view(&again, None) != v1 {
        return Err("save/load changes the document".into());
    }
    let mut hs2 = again.get_heads();
    let mut hs1 = heads.clone();
    hs1.sort();
    hs2.sort();
    if hs1 != hs2 {
        return Err("save/load changes the heads".into());
    }
    // an edit and a commit work
    let mut e = d.clone().with_actor(ActorId::from(vec![0xA7u8]));
    let mut tx = e.transaction();
    tx.put(automerge::ROOT, "wirex", 1i64).map_err(|e| format!("edit fails: {:?}", e))?;
    tx.commit();
    match e.get(automerge::ROOT, "wirex") {
        Ok(Some(_)) => {}
        other => return Err(format!("edit not visible: {:?}", other.map(|x| x.is_some()))),
    }
    Automerge::load(&e.save()).map_err(|x| format!("edited document does not reload: {:?}", x))?;
    // merging with the unmutated original works both ways and converges
    if let Some(o) = original {
        let mut a = d.clone();
        let mut b = o.clone();
        let ra = a.merge(&mut b.clone());
        let rb = b.merge(&mut d.clone());
        if ra.is_ok() && rb.is_ok() {
            let mut ha = a.get_heads();
            let mut hb = b.get_heads();
            ha.sort();
            hb.sort();
            if ha == hb && amverif::proj::view(&a, None) != amverif::proj::view(&b, None) {
                return Err("merge with the original does not converge".into());
            }
        }
    }
    Ok(())
}

/// Feed `bytes` to `target`; returns (outcome, detail).  outcome: ok | err | bad:<why> | panic:<msg>
fn feed(target: &str, bytes: &[u8], original: Option<&Automerge>) -> String {
    let r = catch_unwind(AssertUnwindSafe(|| -> String {
        let check_doc = |d: &Automerge| -> String {
            if let Err(e) = utf8_ok_doc(d) {
                return format!("bad:utf8:{}", e);
            }
            match consistent(d, original) {
                Ok(()) => "ok".into(),
                Err(e) => format!("bad:inconsistent:{}", e),
            }
        };
        match target {
            "load" => match Automerge::load(bytes) {
                Ok(d) => check_doc(&d),
                Err(_) => "err".into(),
            },
            "load_partial" => match Automerge::load_with_options(bytes, automerge::LoadOptions::new().on_partial_load(automerge::OnPartialLoad::Ignore)) {
                Ok(d) => check_doc(&d),
                Err(_) => "err".into(),
            },
            "load_unverified" => match Automerge::load_unverified_heads(bytes) {
                Ok(d) => {
                    if let Err(e) = utf8_ok_doc(&d) {
                        format!("bad:utf8:{}", e)
                    } else {
                        let _ = amverif::proj::view(&d, None);
                        let _ = d.save();
                        "ok".into()
                    }
                }
                Err(_) => "err".into(),
            },
            "load_incremental" => {
                let mut d = original.cloned().unwrap_or_default();
                match d.load_incremental(bytes) {
                    Ok(_) => check_doc(&d),
                    Err(_) => {
                        // C06: a failed load_incremental leaves a usable document
                        match Automerge::load(&d.save()) {
                            Ok(_) => "err".into(),
                            Err(e) => format!("bad:unloadable-after-error:{:?}", e),
                        }
                    }
                }
            }
            "rescue" => match Automerge::rescue(bytes) {
                Ok(v) => {
                    let _ = format!("{:?}", v).len();
                    "ok".into()
                }
                Err(_) => "err".into(),
            },
            "change" => match Change::from_bytes(bytes.to_vec()) {
                Ok(c) => {
                    let _ = c.decode();
                    if let Some(m) = c.message() {
                        if std::str::from_utf8(m.as_bytes()).is_err() {
                            return "bad:utf8:change message".into();
                        }
                    }
                    let mut d = Automerge::new();
                    match d.apply_changes([c]) {
                        Ok(()) => check_doc(&d),
                        Err(_) => "ok".into(),
                    }
                }
                Err(_) => "err".into(),
            },
            "message" => match sync::Message::decode(bytes) {
                Ok(m) => {
                    // processing a decoded sync message, and generating the reply
                    let mut d = original.cloned().unwrap_or_default();
                    let mut st = sync::State::new();
                    let _ = d.receive_sync_message(&mut st, m);
                    let reply = d.generate_sync_message(&mut st);
                    let _ = reply.map(|r| r.encode().len());
                    check_doc(&d)
                }
                Err(_) => "err".into(),
            },
            "state" => match sync::State::decode(bytes) {
                Ok(s) => {
                    let mut d = original.cloned().unwrap_or_default();
                    let mut s = s;
                    let _ = d.generate_sync_message(&mut s).map(|r| r.encode().len());
                    "ok".into()
                }
                Err(_) => "err".into(),
            },
            "bundle" => match automerge::Bundle::try_from(bytes) {
                Ok(b) => {
                    let _ = b.to_changes().map(|c| c.len());
                    let mut d = Automerge::new();
                    match d.load_incremental(bytes) {
                        Ok(_) => check_doc(&d),
                        Err(_) => "ok".into(),
                    }
                }
                Err(_) => "err".into(),
            },
            "bloom" => match sync::BloomFilter::try_from(bytes) {
                Ok(f) => {
                    let _ = f.contains_hash(&ChangeHash([3u8; 32]));
                    "ok".into()
                }
                Err(_) => "err".into(),
            },
            "cursor" => match Cursor::try_from(bytes) {
                Ok(c) => {
                    let d = original.cloned().unwrap_or_default();
                    let _ = d.get_cursor_position(automerge::ROOT, &c, None);
                    let _ = c.to_string();
                    "ok".into()
                }
                Err(_) => "err".into(),
            },
            "objid" => match ObjId::try_from(bytes) {
                Ok(o) => {
                    let d = original.cloned().unwrap_or_default();
                    let _ = d.get(&o, "k1");
                    let _ = d.object_type(&o);
                    let _ = d.length(&o);
                    "ok".into()
                }
                Err(_) => "err".into(),
            },
            _ => "bad:unknown-target".into(),
        }
    }));
    match r {
        Ok(s) => s,
        Err(p) => world::panic_msg(p),
    }
}

fn feed_str(target: &str, s: &str, original: Option<&Automerge>) -> String {
    let r = catch_unwind(AssertUnwindSafe(|| -> String {
        let d = original.cloned().unwrap_or_default();
        match target {
            "cursor_str" => match Cursor::try_from(s) {
                Ok(c) => {
                    let _ = d.get_cursor_position(automerge::ROOT, &c, None);
                    "ok".into()
                }
                Err(_) => "err".into(),
            },
            "import" => match d.import(s) {
                Ok((o, _)) => {
                    let _ = d.get(&o, "k1");
                    "ok".into()
                }
                Err(_) => "err".into(),
            },
            "import_obj" => match d.import_obj(s) {
                Ok(o) => {
                    let _ = d.get(&o, "k1");
                    let _ = d.length(&o);
                    "ok".into()
                }
                Err(_) => "err".into(),
            },
            "actor_str" => match ActorId::try_from(s) {
                Ok(a) => {
                    let _ = a.to_hex_string();
                    "ok".into()
                }
                Err(_) => "err".into(),
            },
            "hash_str" => match s.parse::<ChangeHash>() {
                Ok(_) => "ok".into(),
                Err(_) => "err".into(),
            },
            _ => "bad:unknown-target".into(),
        }
    }));
    match r {
        Ok(s) => s,
        Err(p) => world::panic_msg(p),
    }
}

/// chunk boundaries: (offset, total length, type, data offset)
fn chunks(bytes: &[u8]) -> Vec<(usize, usize, u8, usize)> {
    let mut out = vec![];
    let mut off = 0;
    while off + 9 < bytes.len() {
        if bytes[off..off + 4] != [0x85, 0x6f, 0x4a, 0x83] {
            break;
        }
        let ty = bytes[off + 8];
        let mut len: u64 = 0;
        let mut shift = 0;
        let mut p = off + 9;
        loop {
            if p >= bytes.len() || shift > 63 {
                return out;
            }
            let b = bytes[p];
            len |= ((b & 0x7f) as u64) << shift;
            shift += 7;
            p += 1;
            if b & 0x80 == 0 {
                break;
            }
        }
        let end = p as u64 + len;
        if end > bytes.len() as u64 {
            break;
        }
        out.push((off, (end as usize) - off, ty, p));
        off = end as usize;
    }
    out
}

/// recompute length prefix and checksum of the chunk at index k after its data was replaced
fn rebuild(bytes: &[u8], k: usize, newdata: &[u8]) -> Vec<u8> {
    use sha2::{Digest, Sha256};
    let cs = chunks(bytes);
    let (off, total, ty, _dp) = cs[k];
    let mut body = vec![ty];
    leb(newdata.len() as u64, &mut body);
    body.extend_from_slice(newdata);
    let hash = Sha256::digest(&body);
    let mut out = bytes[..off].to_vec();
    out.extend_from_slice(&[0x85, 0x6f, 0x4a, 0x83]);
    out.extend_from_slice(&hash[0..4]);
    out.extend_from_slice(&body);
    out.extend_from_slice(&bytes[off + total..]);
    out
}

fn read_leb(data: &[u8], p: usize) -> Option<(u64, usize)> {
    let mut v: u64 = 0;
    let mut shift = 0;
    let mut q = p;
    loop {
        let b = *data.get(q)?;
        if shift > 63 {
            return None;
        }
        v |= ((b & 0x7f) as u64) << shift;
        shift += 7;
        q += 1;
        if b & 0x80 == 0 {
            return Some((v, q - p));
        }
    }
}

const EXTREMES: [u64; 9] = [0, 1, 127, 128, 65535, u32::MAX as u64, (u32::MAX as u64) + 1, 1 << 63, u64::MAX];
// invalid UTF-8 of every class: stray bytes, overlong forms (2, 3, 4 bytes), a UTF-16 surrogate, a truncated sequence,
// code points above U+10FFFF, lead bytes that cannot occur
const BADUTF8: [&[u8]; 11] = [&[0xff], &[0x80], &[0xc0, 0xaf], &[0xed, 0xa0, 0x80], &[0xf0, 0x9f], &[0xe2, 0x82],
                              &[0xe0, 0x80, 0xaf], &[0xf0, 0x80, 0x80, 0xaf], &[0xf4, 0x90, 0x80, 0x80], &[0xf5, 0x80, 0x80, 0x80], &[0xc1, 0xbf]];

/// One job = (target, base bytes, list of mutation descriptors).  The worker applies each mutation
/// and feeds the result; descriptors: {"k": kind, "p": position, "v": value index, "fix": bool}
fn mutate_bytes(base: &[u8], m: &J) -> Option<Vec<u8>> {
    let kind = m["k"].as_str()?;
    let p = m["p"].as_u64().unwrap_or(0) as usize;
    let v = m["v"].as_u64().unwrap_or(0) as usize;
    let fix = m["fix"].as_bool().unwrap_or(false);
    let cs = chunks(base);
    let in_chunk = |pos: usize| cs.iter().position(|(off, total, _, dp)| pos >= *dp && pos < off + total);
    let apply_in_chunk = |pos: usize, f: &dyn Fn(&[u8], usize) -> Option<Vec<u8>>| -> Option<Vec<u8>> {
        match (fix, in_chunk(pos)) {
            (true, Some(k)) => {
                let (off, total, _, dp) = cs[k];
                let data = &base[dp..off + total];
                let nd = f(data, pos - dp)?;
                Some(rebuild(base, k, &nd))
            }
            _ => f(base, pos),
        }
    };
    match kind {
        "flip" => apply_in_chunk(p / 8, &|d, q| {
            let mut x = d.to_vec();
            *x.get_mut(q)? ^= 1 << (p % 8);
            Some(x)
        }),
        "set" => apply_in_chunk(p, &|d, q| {
            let mut x = d.to_vec();
            *x.get_mut(q)? = [0x00u8, 0x7f, 0x80, 0xff][v % 4];
            Some(x)
        }),
        "trunc" => Some(base[..p.min(base.len())].to_vec()),
        "leb" => apply_in_chunk(p, &|d, q| {
            let (_, n) = read_leb(d, q)?;
            let mut x = d[..q].to_vec();
            leb(EXTREMES[v % EXTREMES.len()], &mut x);
            x.extend_from_slice(&d[q + n..]);
            Some(x)
        }),
        "utf8" => apply_in_chunk(p, &|d, q| {
            let bad = BADUTF8[v % BADUTF8.len()];
            if q + bad.len() > d.len() {
                return None;
            }
            let mut x = d.to_vec();
            x[q..q + bad.len()].copy_from_slice(bad);
            Some(x)
        }),
        "hashswap" => apply_in_chunk(p, &|d, q| {
            // overwrite the 32-byte hash at q by another hash of the same history
            let h = hex::decode(m["h"].as_str()?).ok()?;
            if h.len() != 32 || q + 32 > d.len() {
                return None;
            }
            let mut x = d.to_vec();
            x[q..q + 32].copy_from_slice(&h);
            Some(x)
        }),
        "dupchunk" => {
            let (off, total, _, _) = *cs.get(p % cs.len().max(1))?;
            let mut x = base.to_vec();
            x.extend_from_slice(&base[off..off + total]);
            Some(x)
        }
        "dropchunk" => {
            let (off, total, _, _) = *cs.get(p % cs.len().max(1))?;
            let mut x = base[..off].to_vec();
            x.extend_from_slice(&base[off + total..]);
            Some(x)
        }
        "garbage" => {
            let mut r = Rng::new(p as u64 * 31 + v as u64);
            Some((0..(v % 64) + 1).map(|_| r.below(256) as u8).collect())
        }
        _ => None,
    }
}

fn worker(args: &[String]) {
    let job: J = serde_json::from_str(&std::fs::read_to_string(&args[2]).unwrap()).unwrap();
    let mut out = std::fs::OpenOptions::new().create(true).append(true).open(&args[3]).unwrap();
    world::silence_panics();
    let start = job["start"].as_u64().unwrap_or(0) as usize;
    let items = job["items"].as_array().cloned().unwrap_or_default();
    let bases = job["bases"].as_array().cloned().unwrap_or_default();
    let base_bytes: Vec<Vec<u8>> = bases.iter().map(|b| hex::decode(b["hex"].as_str().unwrap_or("")).unwrap_or_default()).collect();
    let originals: Vec<Option<Automerge>> = bases.iter().map(|b| b["orig"].as_str().and_then(|h| hex::decode(h).ok()).and_then(|x| Automerge::load(&x).ok())).collect();
    for (i, it) in items.iter().enumerate().skip(start) {
        // progress marker first: if this vector kills the process the parent knows which one it was
        writeln!(out, "{}", json!({"start": i})).unwrap();
        out.flush().unwrap();
        let bi = it["b"].as_u64().unwrap_or(0) as usize;
        let target = it["t"].as_str().unwrap_or("");
        let t0 = std::time::Instant::now();
        reset_peak();
        let (n, outcome) = if let Some(s) = it.get("s").and_then(|s| s.as_str()) {
            (s.len(), feed_str(target, s, originals.get(bi).and_then(|o| o.as_ref())))
        } else {
            match mutate_bytes(&base_bytes[bi], &it["m"]) {
                Some(b) => (b.len(), feed(target, &b, originals.get(bi).and_then(|o| o.as_ref()))),
                None => (0, "skip".to_string()),
            }
        };
        let (peak, biggest) = peak_since();
        writeln!(out, "{}", json!({"done": i, "o": outcome, "n": n, "peak": peak, "big": biggest, "ms": t0.elapsed().as_millis() as u64, "bigsite": big_site()})).unwrap();
    }
    out.flush().unwrap();
}

/// where an aborted child died: "alloc:<first automerge / hexane frame>" for an allocation failure,
/// "stack-overflow", or the first automerge / hexane frame of the backtrace
fn abort_site(stderr: &str) -> String {
    let frame = stderr
        .lines()
        .filter_map(|l| l.trim().split_once(": ").map(|x| x.1.trim()))
        .find(|f| (f.starts_with("automerge::") || f.starts_with("hexane::") || f.starts_with("<automerge::") || f.starts_with("<hexane::")) && !f.contains("GlobalAlloc"))
        .unwrap_or("")
        .to_string();
    if stderr.contains("memory allocation of") {
        format!("alloc:{}", frame)
    } else if stderr.contains("overflowed its stack") {
        "stack-overflow".to_string()
    } else {
        frame
    }
}

fn run_job(job: &J, tmp: &str, tag: &str) -> Vec<J> {
    // runs the job in child processes; returns one record per item: {"o","n","peak","big","ms"}
    let items = job["items"].as_array().map(|a| a.len()).unwrap_or(0);
    let jobfile = format!("{}/job-{}.json", tmp, tag);
    let resfile = format!("{}/res-{}.ndjson", tmp, tag);
    let _ = std::fs::remove_file(&resfile);
    let mut results: Vec<J> = vec![J::Null; items];
    let mut start = 0usize;
    let exe = std::env::current_exe().unwrap();
    let mut restarts = 0;
    while start < items && restarts < 200 {
        let mut j = job.clone();
        j["start"] = json!(start);
        std::fs::write(&jobfile, j.to_string()).unwrap();
        let _ = std::fs::remove_file(&resfile);
        // the child's stderr is kept: when it aborts, the allocation-failure message and the backtrace name the site
        let errfile = format!("{}/err-{}.txt", tmp, tag);
        let errf = std::fs::File::create(&errfile).unwrap();
        let mut child = std::process::Command::new(&exe).arg("worker").arg(&jobfile).arg(&resfile)
            .env("RUST_BACKTRACE", "1")
            .stdout(std::process::Stdio::null()).stderr(errf).spawn().unwrap();
        // watchdog: kill the child if it makes no progress for 20 s
        let mut last_size = 0u64;
        let mut last_change = std::time::Instant::now();
        let status = loop {
            if let Some(st) = child.try_wait().unwrap() {
                break Some(st);
            }
            std::thread::sleep(std::time::Duration::from_millis(50));
            let sz = std::fs::metadata(&resfile).map(|m| m.len()).unwrap_or(0);
            if sz != last_size {
                last_size = sz;
                last_change = std::time::Instant::now();
            } else if last_change.elapsed().as_secs() > 10 {
                let _ = child.kill();
                let _ = child.wait();
                break None;
            }
        };
        let text = std::fs::read_to_string(&resfile).unwrap_or_default();
        let mut started: Option<usize> = None;
        let mut finished: Option<usize> = None;
        for l in text.lines() {
            if let Ok(v) = serde_json::from_str::<J>(l) {
                if let Some(i) = v.get("start").and_then(|x| x.as_u64()) {
                    started = Some(i as usize);
                } else if let Some(i) = v.get("done").and_then(|x| x.as_u64()) {
                    results[i as usize] = v.clone();
                    finished = Some(i as usize);
                }
            }
        }
        let clean = status.map(|s| s.success()).unwrap_or(false);
        if clean && finished == Some(items - 1) || (clean && items == start) {
            break;
        }
        // the child died or hung at `started`
        let at = started.unwrap_or(start);
        if finished != Some(at) {
            let site = if status.is_none() { String::new() } else { abort_site(&std::fs::read_to_string(&errfile).unwrap_or_default()) };
            results[at] = json!({"done": at, "o": if status.is_none() { "timeout" } else { "abort" }, "n": 0, "peak": 0, "big": 0, "ms": 20000, "site": site});
        }
        start = at + 1;
        restarts += 1;
    }
    results
}

fn mutate(args: &[String]) {
    let seed: u64 = args[2].parse().unwrap();
    let nbases: usize = args[3].parse().unwrap();
    let mut out = std::io::BufWriter::new(std::fs::File::create(&args[4]).unwrap());
    let thorough = args.get(5).map(|s| s == "thorough").unwrap_or(false);
    world::silence_panics();
    let tmp = format!("{}.tmp", &args[4]);
    std::fs::create_dir_all(&tmp).unwrap();
    let mut rng = Rng::new(seed ^ 0x77);
    for bi in 0..nbases {
        let mut srng = rng.fork();
        // (debugging aid: AMV_ONLY_HISTORY=k runs the campaign for the k-th history only)
        if let Ok(only) = std::env::var("AMV_ONLY_HISTORY") {
            if only.parse::<usize>().ok() != Some(bi) {
                continue;
            }
        }
        let mut w = history(bi, &mut srng);
        if w.dead || w.reps.is_empty() {
            continue;
        }
        let _ = big_change(&mut w.reps[0]);
        let doc = w.reps[0].clone();
        let orig_hex = hex::encode(doc.save());
        // base inputs of this history
        let raw = doc.save_with_options(automerge::SaveOptions { deflate: false, retain_orphans: true });
        let deflated = doc.save();
        let changes = doc.get_changes(&[]);
        let inc: Vec<u8> = changes.iter().rev().take(3).flat_map(|c| c.raw_bytes().to_vec()).collect();
        let mut cbig = changes.iter().max_by_key(|c| c.raw_bytes().len()).cloned();
        let compressed_change = cbig.as_mut().map(|c| c.bytes().to_vec()).unwrap_or_default();
        let small_change = changes.first().map(|c| c.raw_bytes().to_vec()).unwrap_or_default();
        let bundle = doc.bundle(changes.iter().map(|c| c.hash())).map(|b| b.bytes().to_vec()).unwrap_or_default();
        let (msg, st) = {
            let mut a = doc.clone();
            let b = if w.n() > 1 { w.reps[1].clone() } else { Automerge::new() };
            let mut sa = sync::State::new();
            let mut sb = sync::State::new();
            let mut bb = b.clone();
            let m1 = a.generate_sync_message(&mut sa);
            if let Some(m) = m1.clone() {
                let _ = bb.receive_sync_message(&mut sb, m);
            }
            let m2 = bb.generate_sync_message(&mut sb);
            if let Some(m) = m2.clone() {
                let _ = a.receive_sync_message(&mut sa, m);
            }
            let m3 = a.generate_sync_message(&mut sa);
            let best = [m3, m1, m2].into_iter().flatten().max_by_key(|m| m.clone().encode().len());
            (best.map(|m| m.encode()).unwrap_or_default(), sa.encode())
        };
        let bloomb = sync::BloomFilter::from_hashes(changes.iter().map(|c| c.hash())).to_bytes();
        let (cursorb, cursors, objb, objs) = {
            let v = amverif::proj::view(&doc, None);
            let seqo = v.as_array().and_then(|a| a.iter().find(|o| (o["ty"] == "list" || o["ty"] == "text") && o["len"].as_u64().unwrap_or(0) > 0).cloned());
            match seqo {
                Some(o) => {
                    let id = amverif::calls::objid_from(&o["id"]);
                    let c = doc.get_cursor(&id, 0, None).ok();
                    (c.as_ref().map(|c| c.to_bytes()).unwrap_or_default(), c.map(|c| c.to_string()).unwrap_or_default(), id.to_bytes(), id.to_string())
                }
                None => (vec![], String::new(), vec![], String::new()),
            }
        };
        // a document with (at least) two heads: its head list is a place where one hash can be replaced by another
        let (twoheads, th_hashes) = {
            let mut a = doc.clone().with_actor(enc::actor_from_num(71));
            let mut b = doc.fork().with_actor(enc::actor_from_num(72));
            for (d, k) in [(&mut a, "ha"), (&mut b, "hb")] {
                use automerge::transaction::Transactable;
                let mut tx = d.transaction();
                let _ = tx.put(automerge::ROOT, k, 1i64);
                tx.commit();
            }
            let _ = a.merge(&mut b);
            let hs: Vec<ChangeHash> = a.get_changes(&[]).iter().map(|c| c.hash()).collect();
            (a.save_with_options(automerge::SaveOptions { deflate: false, retain_orphans: true }), hs)
        };
        // the strings of the document: keys, mark names, change messages, string values
        let doc_strings: Vec<String> = {
            let mut set: std::collections::BTreeSet<String> = Default::default();
            let v = amverif::proj::view(&doc, None);
            for o in v.as_array().cloned().unwrap_or_default() {
                for e in o["ents"].as_array().cloned().unwrap_or_default() {
                    if let Some(k) = e["k"].as_str() {
                        set.insert(k.to_string());
                    }
                }
                let id = amverif::calls::objid_from(&o["id"]);
                if let Ok(ms) = doc.marks(&id) {
                    for m in ms {
                        set.insert(m.name().to_string());
                    }
                }
            }
            for c in &changes {
                if let Some(m) = c.message() {
                    set.insert(m.to_string());
                }
            }
            set.insert("big".into());
            set.into_iter().filter(|s| s.len() >= 2 || s.chars().all(|c| c.is_ascii_alphabetic())).take(12).collect()
        };
        let bases: Vec<(&str, Vec<u8>, Vec<&str>)> = vec![
            ("doc_twoheads", twoheads.clone(), vec!["load"]),
            ("doc_raw", raw.clone(), vec!["load", "load_partial", "rescue", "load_incremental"]),
            ("doc_deflated", deflated, vec!["load", "load_incremental"]),
            ("incremental", inc, vec!["load_incremental", "load"]),
            ("change", small_change, vec!["change", "load_incremental"]),
            ("change_compressed", compressed_change, vec!["change"]),
            ("bundle", bundle, vec!["bundle", "load_incremental", "load"]),
            ("message", msg, vec!["message"]),
            ("state", st, vec!["state"]),
            ("bloom", bloomb, vec!["bloom"]),
            ("cursor", cursorb, vec!["cursor"]),
            ("objid", objb, vec!["objid"]),
        ];
        let _ = BYTE_TARGETS;
        let mut job_bases = vec![];
        let mut items: Vec<J> = vec![];
        let mut meta: Vec<(String, String, String)> = vec![]; // (base name, target, kind)
        for (k, (name, bytes, targets)) in bases.iter().enumerate() {
            job_bases.push(json!({"hex": hex::encode(bytes), "orig": orig_hex}));
            if bytes.is_empty() {
                continue;
            }
            let n = bytes.len();
            let small = n <= 64;
            // position sample: all positions for small inputs and headers; a seeded sample otherwise
            let budget = if thorough { 200 } else { 48 };
            let positions: Vec<usize> = if n <= budget { (0..n).collect() } else {
                let mut p: Vec<usize> = (0..(budget / 2).min(n)).collect();
                while p.len() < budget { p.push(srng.below(n)); }
                p.sort();
                p.dedup();
                p
            };
            for t in targets {
                let mut push = |m: J, kind: &str| {
                    items.push(json!({"b": k, "t": t, "m": m}));
                    meta.push((name.to_string(), t.to_string(), kind.to_string()));
                };
                push(json!({"k":"flip","p":0,"v":0,"fix":false,"noop":true}), "identity");
                for &p in &positions {
                    for fix in [false, true] {
                        if fix && (small || *name == "message" || *name == "state") {
                            continue;
                        }
                        for v in 0..EXTREMES.len() {
                            if !thorough && v % 2 == 1 && p >= 64 {
                                continue;
                            }
                            push(json!({"k":"leb","p":p,"v":v,"fix":fix}), if fix { "leb-fixed" } else { "leb" });
                        }
                        push(json!({"k":"flip","p":p * 8 + (p % 8),"v":0,"fix":fix}), if fix { "flip-fixed" } else { "flip" });
                        push(json!({"k":"set","p":p,"v":p % 4,"fix":fix}), if fix { "set-fixed" } else { "set" });
                        if fix || small {
                            push(json!({"k":"utf8","p":p,"v":p % BADUTF8.len(),"fix":fix}), "utf8");
                        }
                    }
                }
                for p in 0..n.min(if thorough { 500 } else { 60 }) {
                    push(json!({"k":"trunc","p":p,"v":0,"fix":false}), "trunc");
                }
                if matches!(*name, "doc_raw" | "change" | "bundle" | "incremental" | "doc_twoheads") {
                    // structure-aware: every occurrence of a string of the document (keys, mark names, messages,
                    // string values) gets every invalid sequence that fits into it, checksum fixed
                    let mut nut = 0;
                    for sname in &doc_strings {
                        let sb = sname.as_bytes();
                        if sb.is_empty() {
                            continue;
                        }
                        let mut from = 0usize;
                        let mut occ = 0;
                        while let Some(off) = bytes[from..].windows(sb.len()).position(|w| w == sb).map(|x| x + from) {
                            for (v, bad) in BADUTF8.iter().enumerate() {
                                if bad.len() <= sb.len() && nut < (if thorough { 1200 } else { 260 }) {
                                    nut += 1;
                                    push(json!({"k":"utf8","p":off,"v":v,"fix":true}), "utf8-in-string");
                                    if bad.len() < sb.len() {
                                        push(json!({"k":"utf8","p":off + sb.len() - bad.len(),"v":v,"fix":true}), "utf8-in-string");
                                    }
                                }
                            }
                            from = off + 1;
                            occ += 1;
                            if occ >= (if thorough { 6 } else { 2 }) {
                                break;
                            }
                        }
                    }
                }
                if *name == "doc_twoheads" {
                    // every stored hash (heads) replaced by every other hash of the history, checksum fixed
                    let mut nsw = 0;
                    for (hi, h) in th_hashes.iter().enumerate() {
                        let hb: &[u8] = h.as_ref();
                        let mut from = 0usize;
                        while let Some(off) = bytes[from..].windows(32).position(|w| w == hb).map(|x| x + from) {
                            for (oi, o2) in th_hashes.iter().enumerate().rev().take(if thorough { 12 } else { 4 }) {
                                if oi != hi && nsw < (if thorough { 400 } else { 40 }) {
                                    nsw += 1;
                                    push(json!({"k":"hashswap","p":off,"v":0,"h":hex::encode(o2.as_ref() as &[u8]),"fix":true}), "hashswap");
                                }
                            }
                            from = off + 32;
                        }
                    }
                }
                for p in 0..4 {
                    push(json!({"k":"dupchunk","p":p,"v":0}), "dupchunk");
                    push(json!({"k":"dropchunk","p":p,"v":0}), "dropchunk");
                }
                for p in 0..(if thorough { 300 } else { 20 }) {
                    push(json!({"k":"garbage","p":p + bi * 1000,"v":p}), "garbage");
                }
            }
        }
        // string inputs
        let mut strs: Vec<(String, &str)> = vec![];
        let pool: Vec<String> = vec![
            "".into(), "s".into(), "e".into(), "x".into(), "-".into(), "@".into(), "1@".into(), "@01".into(), "1@zz".into(), "1@0".into(),
            "\u{e9}".into(), "\u{1f600}@01".into(), "-\u{e9}@01".into(), "1@\u{e9}\u{e9}".into(), "18446744073709551615@01".into(), "18446744073709551616@01".into(),
            "4294967296@01".into(), "-1@01".into(), "--1@01".into(), "1@01@02".into(), " 1@01".into(), "1 @01".into(), "01".into(), "0x01".into(), "zz".into(),
            "_root".into(), "_head".into(), "1@".to_string() + &"ab".repeat(40), "9".repeat(40) + "@01", cursors.clone(), objs.clone(),
            format!("{}x", cursors), format!("-{}", cursors), objs.replace('@', "@@"), "a".repeat(63), "a".repeat(64), "g".repeat(64), "ab".repeat(32), "AB".repeat(32),
        ];
        for s in &pool {
            for t in ["cursor_str", "import", "import_obj", "actor_str", "hash_str"] {
                strs.push((s.clone(), t));
            }
        }
        for (s, t) in &strs {
            items.push(json!({"b": 0, "t": t, "s": s}));
            meta.push(("string".into(), t.to_string(), "string".into()));
        }
        let job = json!({"bases": job_bases, "items": items});
        let results = run_job(&job, &tmp, &format!("{}", bi));
        // aggregate per (base, target, kind); list the offenders individually
        let mut agg: std::collections::BTreeMap<(String, String, String), (i64, i64, i64, i64, i64, i64, i64)> = Default::default();
        let mut bad: Vec<J> = vec![];
        let mut badcount: std::collections::BTreeMap<String, usize> = Default::default();
        let mut baselines: std::collections::BTreeMap<(String, String), (i64, i64)> = Default::default();
        for (i, r) in results.iter().enumerate() {
            let (bn, t, kind) = &meta[i];
            let o = r["o"].as_str().unwrap_or("missing");
            let n = r["n"].as_i64().unwrap_or(0);
            let peak = r["peak"].as_i64().unwrap_or(0);
            let big = r["big"].as_i64().unwrap_or(0);
            let ms = r["ms"].as_i64().unwrap_or(0);
            if kind == "identity" {
                baselines.insert((bn.clone(), t.clone()), (peak, ms));
            }
            let e = agg.entry((bn.clone(), t.clone(), kind.clone())).or_insert((0, 0, 0, 0, 0, 0, 0));
            e.0 += 1;
            match o {
                "ok" => e.1 += 1,
                "err" => e.2 += 1,
                "skip" => e.3 += 1,
                _ => e.4 += 1,
            }
            e.5 = e.5.max(peak);
            e.6 = e.6.max(ms);
            // budgets (C17): peak heap <= 32 MiB + 64 KiB per input byte (the measurement includes the harness's
            // own consistency probes of an accepted document: clones, views, save/load, a merge), no single
            // request above 64 MiB, <= 5 s
            let over = peak > (32 << 20) + 65536 * n.max(1) || big > (64 << 20) || ms > 5000;
            if !(o == "ok" || o == "err" || o == "skip") || over {
                let key = format!("{}|{}|{}", t, kind, o.chars().take(60).collect::<String>());
                let cnt = badcount.entry(key).or_insert(0usize);
                *cnt += 1;
                if *cnt <= 3 && bad.len() < 600 {
                    // the offending input itself (replayable with `wirex feed <target> <hex>`)
                    let input_hex = match items[i].get("s").and_then(|x| x.as_str()) {
                        Some(st) => format!("str:{}", st),
                        None => {
                            let bi2 = items[i]["b"].as_u64().unwrap_or(0) as usize;
                            mutate_bytes(&bases[bi2].1, &items[i]["m"]).filter(|b| b.len() <= 16384).map(hex::encode).unwrap_or_default()
                        }
                    };
                    bad.push(json!({"base": bn, "target": t, "kind": kind, "item": items[i], "o": o, "n": n, "peak": peak, "big": big, "ms": ms, "over": over, "input": input_hex,
                                    "site": r["site"].as_str().unwrap_or(""), "bigsite": r["bigsite"].as_str().unwrap_or("")}));
                }
            }
        }
        emit(&mut out, json!({"ev":"reset","scn":bi,"family":"mutate","enc":"cp"}));
        for ((bn, t, kind), (n, ok, err, skip, other, peak, ms)) in &agg {
            emit(&mut out, json!({"ev":"wire","base":bn,"target":t,"kind":kind,"n":n,"ok":ok,"err":err,"skip":skip,"other":other,"maxpeak":peak,"maxms":ms}));
        }
        for b in bad {
            let mut e = b.clone();
            e["ev"] = json!("wirebad");
            emit(&mut out, e);
        }
    }
    let _ = std::fs::remove_dir_all(&tmp);
    out.flush().unwrap();
    println!("WIREX mutate bases={}", nbases);
}

fn main() {
    let args: Vec<String> = std::env::args().collect();
    match args.get(1).map(|s| s.as_str()) {
        Some("roundtrip") => roundtrip(&args),
        Some("bloom") => bloom(&args),
        Some("bloomworker") => bloomworker(&args),
        Some("feed") => {
            // wirex feed <target> <hex | str:...> : run one input in this process (a crash is the observation)
            let inp = args[3].clone();
            let o = match inp.strip_prefix("str:") {
                Some(st) => feed_str(&args[2], st, None),
                None => feed(&args[2], &hex::decode(inp.trim()).expect("hex"), None),
            };
            println!("FEED {} biggest={} bigsite={}", o, peak_since().1, big_site());
        }
        Some("mutate") => mutate(&args),
        Some("worker") => worker(&args),
        _ => {
            eprintln!("usage: wirex roundtrip|bloom|mutate ...");
            std::process::exit(2);
        }
    }
}
