//! drive <family> <seed> <nscenarios> <out.ndjson>
use amverif::calls::Profile;
use amverif::rng::Rng;
use amverif::scen;
use amverif::world::{self, ObsLevel};
use std::io::Write;

fn main() {
    let args: Vec<String> = std::env::args().collect();
    if args.len() < 5 {
        eprintln!("usage: drive <family> <seed> <n> <out>");
        std::process::exit(2);
    }
    let family = args[1].as_str();
    if family == "rerun" {
        // drive rerun <trace.ndjson> <out.ndjson> [nopanic-hook]: re-execute recorded scenarios
        use amverif::world::World;
        let text = std::fs::read_to_string(&args[2]).expect("trace");
        if args.len() <= 4 {
            world::silence_panics();
        }
        let mut out = std::io::BufWriter::new(std::fs::File::create(&args[3]).expect("out"));
        let mut w: Option<World> = None;
        let mut rng = Rng::new(0);
        let mut n = 0;
        for line in text.lines().filter(|l| !l.trim().is_empty()) {
            let e: serde_json::Value = serde_json::from_str(line).expect("json");
            if e["ev"] == "reset" {
                if let Some(w) = w.take() {
                    for x in &w.log {
                        writeln!(out, "{}", x).unwrap();
                        n += 1;
                    }
                }
                let lvl = if e["family"].as_str().unwrap_or("").starts_with("doc") { ObsLevel::View } else { ObsLevel::Graph };
                w = Some(World::new(world::enc_from(e["enc"].as_str().unwrap_or("cp")), lvl,
                    e["scn"].as_u64().unwrap_or(0) as usize, e["family"].as_str().unwrap_or("rerun")));
            } else if let Some(w) = w.as_mut() {
                w.replay_event(&e, &mut rng);
            }
        }
        if let Some(w) = w.take() {
            for x in &w.log {
                writeln!(out, "{}", x).unwrap();
                n += 1;
            }
        }
        out.flush().unwrap();
        println!("DRIVE family=rerun events={}", n);
        return;
    }
    if family == "dag" || family == "dagdup" {
        // drive dag <seed> <n> <outdir> [maxchanges]: histories exported as DAG constants for TLC
        return dag_main(&args);
    }
    let seed: u64 = args[2].parse().expect("seed");
    let n: usize = args[3].parse().expect("n");
    world::silence_panics();
    let mut out = std::io::BufWriter::new(std::fs::File::create(&args[4]).expect("create out"));
    let mut rng = Rng::new(seed);
    let mut events = 0usize;
    for i in 0..n {
        let mut srng = rng.fork();
        let w = match family {
            "conflict" | "converge" | "hist" | "conflictdiff" | "conflictpatch" | "rollbackc" | "isoconf" | "richconf" | "migrateconf" => {
                use serde_json::json;
                if family == "isoconf" || family == "richconf" {
                    amverif::proj::set_rich(true);
                }
                let mut prof = Profile::all();
                prof.texts = false;
                prof.nested = false;
                prof.nkeys = 1 + (i % 2);
                prof.counter_heavy = true;
                prof.max_len = 4;
                prof.stringy = family == "migrateconf";
                let cval = |n: i64| json!({"k":"counter","s":"","n":n,"toks":[]});
                let base = vec![
                    json!({"fn":"put_object","obj":[0,0],"key":"l","ty":"list"}),
                    json!({"fn":"insert","obj":[1,1],"idx":0,"val":cval(1)}),
                    json!({"fn":"insert","obj":[1,1],"idx":1,"val":{"k":"int","s":"7","n":0,"toks":[]}}),
                ];
                let o = scen::GraphOpts {
                    weights: if family == "isoconf" { scen::W_ISO } else { scen::W_CONFLICT },
                    twin_start: false,
                    base_calls: base,
                    readat: if family == "hist" { 12 } else if family == "richconf" { 6 } else { 0 },
                    reload_before_readat: false,
                    rollback_pct: if family == "rollbackc" { 50 } else { 0 },
                    diffs: if family == "conflictdiff" { 8 } else { 0 },
                    log_patches: family == "conflictpatch",
                    steps: 10 + srng.below(10),
                    max_reps: 3,
                    max_changes: 12,
                    dup_actors: false,
                    obs: ObsLevel::View,
                    prof,
                    enc: automerge::TextEncoding::UnicodeCodePoint,
                };
                if family == "converge" {
                    scen::converge_scenario(i, &mut srng, &o, family, 4)
                } else {
                    scen::graph_scenario(i, &mut srng, &o, family)
                }
            }
            "store" | "storeflip" => {
                let mut prof = Profile::all();
                prof.max_len = 6;
                let o = amverif::store::StoreOpts {
                    crash: family == "store",
                    feed: family == "store",
                    flips: if family == "storeflip" { args.get(5).and_then(|s| s.parse().ok()).unwrap_or(2000) } else { 0 },
                    enc: automerge::TextEncoding::UnicodeCodePoint,
                    prof,
                };
                amverif::store::store_scenario(i, &mut srng, &o, family)
            }
            "seq" => {
                use serde_json::json;
                let mut prof = Profile::all();
                prof.invalid_pct = 25;
                prof.max_len = 6;
                let iv = |k: &str, s: &str, n: i64| json!({"k":k,"s":s,"n":n,"toks":[]});
                let base = vec![
                    json!({"fn":"put_object","obj":[0,0],"key":"l","ty":"list"}),
                    json!({"fn":"insert","obj":[1,1],"idx":0,"val":iv("counter","",1)}),
                    json!({"fn":"insert","obj":[1,1],"idx":1,"val":iv("int","7",0)}),
                    json!({"fn":"insert","obj":[1,1],"idx":2,"val":iv("bool","true",0)}),
                    json!({"fn":"put_object","obj":[0,0],"key":"t","ty":"text"}),
                    json!({"fn":"splice_text","obj":[5,1],"idx":0,"del":0,"toks":["a","b","c"]}),
                    json!({"fn":"put","obj":[0,0],"key":"k1","val":iv("counter","",2)}),
                ];
                let o = scen::GraphOpts {
                    weights: scen::W_DOC,
                    twin_start: false,
                    base_calls: base,
                    readat: if family == "hist" { 12 } else { 0 },
                    reload_before_readat: false,
                    rollback_pct: 0,
                    diffs: 0,
                    log_patches: false,
                    steps: 8 + srng.below(8),
                    max_reps: 3,
                    max_changes: 12,
                    dup_actors: false,
                    obs: ObsLevel::View,
                    prof,
                    enc: automerge::TextEncoding::UnicodeCodePoint,
                };
                scen::graph_scenario(i, &mut srng, &o, family)
            }
            "doc" | "doctext" | "docinv" | "histdoc" | "reload" | "rollback" | "iso" | "diff" | "patch" | "ids" | "idshi" | "migrate" | "badargs" | "isorich" | "serde" | "bulk" | "spans" | "anon" | "reloadlong" | "histlong" | "difflong" | "autofront" | "patchtext" | "difftext" => {
                if family == "isorich" {
                    amverif::proj::set_rich(true);
                }
                let text = family == "doctext" || family == "patchtext" || family == "difftext" || (family == "autofront" && i % 2 == 1);
                let mut prof = Profile::all();
                if family == "docinv" || family == "autofront" {
                    prof.invalid_pct = 30;
                }
                if family == "badargs" {
                    prof.marks = true;
                    prof.texts = true;
                }
                if family == "spans" {
                    prof.bulk = true;
                    prof.spans = true;
                    prof.texts = true;
                    prof.lists = false;
                    prof.marks = i % 2 == 1;
                    prof.unicode = i % 3 == 0;
                    prof.max_objs = 4;
                }
                if family == "bulk" {
                    prof.bulk = true;
                    prof.texts = true;
                    prof.unicode = i % 2 == 0;
                    prof.max_objs = 12;
                }
                if family == "anon" {
                    prof.stringy = i % 2 == 0;
                    prof.texts = true;
                }
                if family == "serde" {
                    prof.stringy = i % 2 == 0;
                    prof.max_objs = 6;
                }
                if family == "migrate" {
                    prof.stringy = true;
                    prof.nkeys = 2;
                }
                if text {
                    prof.lists = false;
                    prof.unicode = true;
                    prof.max_len = 7;
                } else {
                    prof.texts = i % 3 == 2;
                }
                let enc = if text {
                    [automerge::TextEncoding::UnicodeCodePoint, automerge::TextEncoding::Utf8CodeUnit, automerge::TextEncoding::Utf16CodeUnit][i % 3]
                } else {
                    automerge::TextEncoding::UnicodeCodePoint
                };
                let o = scen::GraphOpts {
                    weights: if family == "reload" || family == "ids" || family == "reloadlong" { scen::W_RELOAD } else if family == "histlong" || family == "difflong" { scen::W_CONFLICT } else if family == "iso" || family == "isorich" || family == "idshi" { scen::W_ISO } else if family == "migrate" { scen::W_CONFLICT } else { scen::W_DOC },
                    twin_start: false,
                    base_calls: if family == "reloadlong" {
                        // 40 distinct strings of 8 characters: the value column of the saved document exceeds the
                        // 256-byte threshold above which columns are DEFLATE-compressed
                        let vals: Vec<serde_json::Value> = (0..40).map(|k| {
                            let st: Vec<String> = format!("v{:03}abcd", k * 7).chars().map(|c| c.to_string()).collect();
                            serde_json::json!({"k":"str","s":st.concat(),"n":0,"toks":st})
                        }).collect();
                        vec![serde_json::json!({"fn":"put_object","obj":[0,0],"key":"l","ty":"list"}),
                             serde_json::json!({"fn":"splice","obj":[1,1],"idx":0,"del":0,"vals":vals})]
                    } else if family == "spans" {
                        vec![serde_json::json!({"fn":"put_object","obj":[0,0],"key":"t","ty":"text"}),
                             serde_json::json!({"fn":"splice_text","obj":[1,1],"idx":0,"del":0,"toks":["a","b"]})]
                    } else { vec![] },
                    readat: if family == "histlong" { 30 } else if family == "histdoc" { 10 } else if family == "reload" { 6 } else { 0 },
                    reload_before_readat: family == "reload",
                    rollback_pct: if family == "rollback" { 45 } else { 0 },
                    diffs: if family == "diff" || family == "difftext" { 6 } else if family == "difflong" { 10 } else { 0 },
                    log_patches: family == "patch" || family == "patchtext",
                    steps: if family == "reloadlong" || family == "histlong" || family == "difflong" { 45 + srng.below(25) } else { 8 + srng.below(10) },
                    max_reps: 3,
                    max_changes: if family == "reloadlong" || family == "histlong" || family == "difflong" { 40 } else { 10 },
                    dup_actors: false,
                    obs: ObsLevel::View,
                    prof,
                    enc,
                };
                scen::graph_scenario(i, &mut srng, &o, family)
            }
            "marks" | "marksinv" | "isomarks" | "textenc" | "textconf" | "grapheme" | "cursor" | "cursortext" | "anontext" => {
                use serde_json::json;
                amverif::proj::set_rich(true);
                let mut prof = Profile::all();
                prof.nested = false;
                prof.max_objs = 3;
                prof.nkeys = 1;
                let text = family != "cursor";
                let enc = match family {
                    "textconf" => [automerge::TextEncoding::Utf16CodeUnit, automerge::TextEncoding::Utf8CodeUnit][i % 2],
                    "textenc" => [automerge::TextEncoding::Utf16CodeUnit, automerge::TextEncoding::Utf8CodeUnit,
                                  automerge::TextEncoding::GraphemeCluster, automerge::TextEncoding::UnicodeCodePoint][i % 4],
                    "grapheme" => automerge::TextEncoding::GraphemeCluster,
                    "cursortext" => [automerge::TextEncoding::Utf16CodeUnit, automerge::TextEncoding::UnicodeCodePoint][i % 2],
                    // text widths are part of the shape anonymize must keep: every encoding
                    "anontext" => [automerge::TextEncoding::Utf8CodeUnit, automerge::TextEncoding::UnicodeCodePoint, automerge::TextEncoding::Utf16CodeUnit][i % 3],
                    _ => automerge::TextEncoding::UnicodeCodePoint,
                };
                let iv = |k: &str, s: &str, n: i64| json!({"k":k,"s":s,"n":n,"toks":[]});
                let base = if text {
                    prof.lists = false;
                    prof.maps = false;
                    prof.marks = family != "cursortext";
                    if family == "anontext" {
                        amverif::proj::set_rich(false);
                    }
                    prof.unicode = !family.contains("marks");
                    if family == "marksinv" {
                        prof.invalid_pct = 25;
                    }
                    prof.combining = family == "grapheme";
                    prof.text_puts = family == "textenc" || family == "cursortext" || family == "textconf";
                    prof.max_len = if family.contains("marks") { 8 } else if family == "textconf" { 5 } else { 10 };
                    let toks: Vec<&str> = match family {
                        "marks" | "marksinv" | "isomarks" => vec!["a", "b", "c", "d"],
                        "grapheme" => vec!["a", "e", "cacute", "woman"],
                        _ => vec!["a", "grin", "eacute", "b"],
                    };
                    vec![
                        json!({"fn":"put_object","obj":[0,0],"key":"t","ty":"text"}),
                        json!({"fn":"splice_text","obj":[1,1],"idx":0,"del":0,"toks":toks}),
                    ]
                } else {
                    prof.texts = false;
                    prof.maps = false;
                    prof.max_len = 6;
                    vec![
                        json!({"fn":"put_object","obj":[0,0],"key":"l","ty":"list"}),
                        json!({"fn":"insert","obj":[1,1],"idx":0,"val":iv("counter","",1)}),
                        json!({"fn":"insert","obj":[1,1],"idx":1,"val":iv("int","7",0)}),
                        json!({"fn":"insert","obj":[1,1],"idx":2,"val":iv("bool","true",0)}),
                    ]
                };
                let o = scen::GraphOpts {
                    weights: if family == "isomarks" { scen::W_ISO } else { scen::W_CONFLICT },
                    twin_start: false,
                    base_calls: base,
                    readat: 4,
                    reload_before_readat: false,
                    rollback_pct: 0,
                    diffs: 0,
                    log_patches: false,
                    steps: 10 + srng.below(10),
                    max_reps: 3,
                    max_changes: 12,
                    dup_actors: false,
                    obs: ObsLevel::View,
                    prof,
                    enc,
                };
                scen::graph_scenario(i, &mut srng, &o, family)
            }
            "longgraph" => {
                // C10: histories long enough for the change graph's clock cache (every 16th change), fresh actors
                // that sort before the existing ones, transactions that commit nothing, retrievals for many have-sets
                let o = scen::GraphOpts {
                    weights: [40, 43, 47, 60, 72, 78, 80, 84, 88, 90],
                    twin_start: false,
                    base_calls: vec![],
                    readat: 0,
                    reload_before_readat: false,
                    rollback_pct: 18,
                    diffs: 0,
                    log_patches: false,
                    steps: 60 + srng.below(40),
                    max_reps: 4,
                    max_changes: 48,
                    dup_actors: false,
                    obs: ObsLevel::Graph,
                    prof: Profile::graph(),
                    enc: automerge::TextEncoding::UnicodeCodePoint,
                };
                scen::graph_scenario(i, &mut srng, &o, family)
            }
            "graph" | "dup" => {
                let dup = family == "dup";
                let o = scen::GraphOpts {
                    weights: if dup { scen::W_DUP } else { scen::W_DEFAULT },
                    twin_start: dup,
                    base_calls: vec![],
                    readat: 0,
                    reload_before_readat: false,
                    rollback_pct: 0,
                    diffs: 0,
                    log_patches: false,
                    steps: 10 + srng.below(14),
                    max_reps: 4,
                    max_changes: 14,
                    dup_actors: dup || i % 2 == 1,
                    obs: ObsLevel::Graph,
                    prof: Profile::graph(),
                    enc: automerge::TextEncoding::UnicodeCodePoint,
                };
                scen::graph_scenario(i, &mut srng, &o, family)
            }
            _ => {
                eprintln!("unknown family {}", family);
                std::process::exit(2);
            }
        };
        for e in &w.log {
            writeln!(out, "{}", e).unwrap();
            events += 1;
        }
    }
    out.flush().unwrap();
    println!("DRIVE family={} scenarios={} events={}", family, n, events);
}

fn dag_main(args: &[String]) {
    use serde_json::json;
    let seed: u64 = args[2].parse().expect("seed");
    let n: usize = args[3].parse().expect("n");
    let outdir = &args[4];
    let maxc: usize = args.get(5).and_then(|s| s.parse().ok()).unwrap_or(6);
    std::fs::create_dir_all(outdir).unwrap();
    world::silence_panics();
    let dup = args[1] == "dagdup";
    let mut rng = Rng::new(seed ^ 0xDA6);
    let mut made = 0;
    let mut tries = 0;
    while made < n && tries < n * 20 {
        tries += 1;
        let mut srng = rng.fork();
        let o = scen::GraphOpts {
            weights: if dup { scen::W_DUP } else { scen::W_DEFAULT },
            twin_start: dup,
                    base_calls: vec![],
                    readat: 0,
                    reload_before_readat: false,
            rollback_pct: 0,
            diffs: 0,
            log_patches: false,
            steps: 8 + srng.below(10),
            max_reps: 3,
            max_changes: maxc,
            dup_actors: dup,
            obs: ObsLevel::Graph,
            prof: Profile::graph(),
            enc: automerge::TextEncoding::UnicodeCodePoint,
        };
        let w = scen::graph_scenario(made, &mut srng, &o, "dag");
        if w.dead || w.known.len() < 3 || w.known.len() > maxc {
            continue;
        }
        let changes: Vec<serde_json::Value> = w
            .known
            .values()
            .map(|c| {
                let mut m = amverif::chg::meta(c);
                m["raw"] = json!(hex::encode(c.raw_bytes()));
                m
            })
            .collect();
        let j = json!({"enc":"cp","changes":changes});
        std::fs::write(format!("{}/dag-{}.json", outdir, made), j.to_string()).unwrap();
        made += 1;
    }
    println!("DRIVE family={} dags={}", args[1], made);
}
