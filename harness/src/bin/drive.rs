//! drive <family> <seed> <nscenarios> <out.ndjson>
use amverif::calls::Profile;
use amverif::rng::Rng;
use amverif::scen;
use amverif::world::{self, ObsLevel};
use std::io::Write;

fn main() {
    let args: Vec<String> = std::env::args().collect();
    if args.len() < 5 {
        eprintln!("usage: drive <family> <seed> <n> <out>");
        std::process::exit(2);
    }
    let family = args[1].as_str();
    let seed: u64 = args[2].parse().expect("seed");
    let n: usize = args[3].parse().expect("n");
    world::silence_panics();
    let mut out = std::io::BufWriter::new(std::fs::File::create(&args[4]).expect("create out"));
    let mut rng = Rng::new(seed);
    let mut events = 0usize;
    for i in 0..n {
        let mut srng = rng.fork();
        let w = match family {
            "graph" => {
                let o = scen::GraphOpts {
                    steps: 10 + srng.below(14),
                    max_reps: 4,
                    max_changes: 14,
                    dup_actors: i % 2 == 1,
                    obs: ObsLevel::Graph,
                    prof: Profile::graph(),
                    enc: automerge::TextEncoding::UnicodeCodePoint,
                };
                scen::graph_scenario(i, &mut srng, &o, family)
            }
            _ => {
                eprintln!("unknown family {}", family);
                std::process::exit(2);
            }
        };
        for e in &w.log {
            writeln!(out, "{}", e).unwrap();
            events += 1;
        }
    }
    out.flush().unwrap();
    println!("DRIVE family={} scenarios={} events={}", family, n, events);
}
