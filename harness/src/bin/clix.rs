//! clix <values.json> <path to the automerge CLI binary> <out.ndjson>
//! C33: every JSON value enumerated by JsonGen.tla is piped through the real CLI:
//!   automerge import  (stdin JSON -> document bytes)  |  [load + save through the library]  |  automerge export
//! and the exported JSON is compared with the input, including the kind of every number.
use serde_json::{json, Value as J};
use std::io::Write;
use std::process::{Command, Stdio};

fn str_tok(t: &str) -> String {
    match t {
        "empty" => String::new(),
        "unicode" => "\u{e9}\u{1f600}".into(),
        "dotted" => "a.b".into(),
        "quote" => "q\"\\".into(),
        "newline" => "l1\nl2\t".into(),
        "nullword" => "null".into(),
        x => x.to_string(),
    }
}

/// JSON text of a number token (written literally so that the lexical form is what we mean)
fn num_text(t: &str) -> &'static str {
    match t {
        "0" => "0",
        "-1" => "-1",
        "15" => "15",
        "i64min" => "-9223372036854775808",
        "i64max" => "9223372036854775807",
        "i64max+1" => "9223372036854775808",
        "u64max" => "18446744073709551615",
        "2p53p1" => "9007199254740993",
        "1.5" => "1.5",
        "1e300" => "1e300",
        "-0.0" => "-0.0",
        "15.0" => "15.0",
        "1e-7" => "1e-7",
        _ => "0",
    }
}

fn render(v: &J, out: &mut String) {
    match v["t"].as_str().unwrap_or("") {
        "null" => out.push_str("null"),
        "bool" => out.push_str(v["s"].as_str().unwrap_or("false")),
        "num" => out.push_str(num_text(v["s"].as_str().unwrap_or("0"))),
        "str" => out.push_str(&serde_json::to_string(&str_tok(v["s"].as_str().unwrap_or(""))).unwrap()),
        "seq" => {
            out.push('[');
            for (i, x) in v["items"].as_array().cloned().unwrap_or_default().iter().enumerate() {
                if i > 0 {
                    out.push(',');
                }
                render(x, out);
            }
            out.push(']');
        }
        _ => {
            out.push('{');
            for (i, e) in v["ents"].as_array().cloned().unwrap_or_default().iter().enumerate() {
                if i > 0 {
                    out.push(',');
                }
                out.push_str(&serde_json::to_string(&str_tok(e["k"].as_str().unwrap_or(""))).unwrap());
                out.push(':');
                render(&e["v"], out);
            }
            out.push('}');
        }
    }
}

/// equality of JSON values that also compares the kind of every number (i64 / u64 / f64) and the bits of floats
fn same(a: &J, b: &J) -> bool {
    match (a, b) {
        (J::Number(x), J::Number(y)) => {
            if x.is_i64() || y.is_i64() {
                x.is_i64() && y.is_i64() && x.as_i64() == y.as_i64()
            } else if x.is_u64() || y.is_u64() {
                x.is_u64() && y.is_u64() && x.as_u64() == y.as_u64()
            } else {
                x.as_f64().map(|f| f.to_bits()) == y.as_f64().map(|f| f.to_bits())
            }
        }
        (J::Array(x), J::Array(y)) => x.len() == y.len() && x.iter().zip(y).all(|(p, q)| same(p, q)),
        (J::Object(x), J::Object(y)) => x.len() == y.len() && x.iter().all(|(k, v)| y.get(k).map(|w| same(v, w)).unwrap_or(false)),
        _ => a == b,
    }
}

fn run(bin: &str, args: &[&str], input: &[u8]) -> Result<Vec<u8>, String> {
    let mut c = Command::new(bin).args(args).stdin(Stdio::piped()).stdout(Stdio::piped()).stderr(Stdio::piped()).spawn().map_err(|e| e.to_string())?;
    c.stdin.take().unwrap().write_all(input).map_err(|e| e.to_string())?;
    let o = c.wait_with_output().map_err(|e| e.to_string())?;
    if !o.status.success() {
        return Err(format!("exit {:?}: {}", o.status.code(), String::from_utf8_lossy(&o.stderr).chars().take(160).collect::<String>()));
    }
    Ok(o.stdout)
}

fn main() {
    let args: Vec<String> = std::env::args().collect();
    let vals: J = serde_json::from_str(&std::fs::read_to_string(&args[1]).unwrap()).unwrap();
    let bin = &args[2];
    let mut out = std::io::BufWriter::new(std::fs::File::create(&args[3]).unwrap());
    writeln!(out, "{}", json!({"ev":"reset","scn":0,"family":"cli","enc":"cp"})).unwrap();
    let mut n = 0;
    for v in vals.as_array().cloned().unwrap_or_default() {
        n += 1;
        let mut text = String::new();
        render(&v, &mut text);
        let want: J = match serde_json::from_str(&text) {
            Ok(j) => j,
            Err(e) => {
                writeln!(out, "{}", json!({"ev":"cli","val":v,"res":format!("harness: generated text does not parse: {}", e),"same":false})).unwrap();
                continue;
            }
        };
        let r = (|| -> Result<(bool, String), String> {
            let doc = run(bin, &["import"], text.as_bytes())?;
            // "saving it": through the library, and once more after a load
            let loaded = automerge::Automerge::load(&doc).map_err(|e| format!("import output does not load: {:?}", e))?;
            let saved = loaded.save();
            let exported = run(bin, &["export"], &saved)?;
            let got: J = serde_json::from_slice(&exported).map_err(|e| format!("export output is not JSON: {}", e))?;
            Ok((same(&want, &got), serde_json::to_string(&got).unwrap().chars().take(200).collect()))
        })();
        match r {
            Ok((eq, got)) => writeln!(out, "{}", json!({"ev":"cli","val":v,"text":text.chars().take(200).collect::<String>(),"res":"ok","same":eq,"got":got})).unwrap(),
            Err(e) => writeln!(out, "{}", json!({"ev":"cli","val":v,"text":text.chars().take(200).collect::<String>(),"res":format!("err:{}", e),"same":false,"got":""})).unwrap(),
        }
    }
    out.flush().unwrap();
    println!("CLIX values={}", n);
}
