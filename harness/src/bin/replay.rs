//! replay delivery <dag.json> <behaviours.ndjson> <out.json>
//! Replays TLC-generated behaviours on the real implementation and compares the projected state
//! with the state the specification predicted after every step.  No model logic lives here.
use amverif::{calls, enc, world};
use automerge::{Automerge, Change, ReadDoc};
use serde_json::{json, Value as J};
use std::collections::{BTreeMap, BTreeSet};
use std::panic::{catch_unwind, AssertUnwindSafe};

fn set_of(j: &J) -> BTreeSet<String> {
    j.as_array().map(|a| a.iter().filter_map(|x| x.as_str().map(String::from)).collect()).unwrap_or_default()
}

/// canonical form of a view (arrays that are sets get sorted) so that the specification's
/// Interp output and the harness projection can be compared structurally
fn canon_vals(vals: &J) -> Vec<String> {
    let mut v: Vec<String> = vals.as_array().map(|a| a.iter().map(|x| {
        format!("{}@{}:{}:{}:{}:{}", x["id"][0], x["id"][1], x["v"]["k"].as_str().unwrap_or(""),
            x["v"]["s"].as_str().unwrap_or(""), x["v"]["n"], x["v"]["toks"])
    }).collect()).unwrap_or_default();
    v.sort();
    v
}

fn canon_view(view: &J) -> BTreeMap<String, J> {
    let mut out = BTreeMap::new();
    for o in view.as_array().cloned().unwrap_or_default() {
        let id = format!("{}@{}", o["id"][0], o["id"][1]);
        let mut ents: Vec<(String, String, Vec<String>)> = o["ents"].as_array().map(|a| a.iter().map(|e| {
            (e["k"].as_str().unwrap_or("").to_string(), format!("{}@{}", e["win"][0], e["win"][1]), canon_vals(&e["vals"]))
        }).collect()).unwrap_or_default();
        ents.sort();
        let elems: Vec<(String, Vec<String>)> = o["elems"].as_array().map(|a| a.iter().map(|e| {
            (format!("{}@{}", e["win"][0], e["win"][1]), canon_vals(&e["vals"]))
        }).collect()).unwrap_or_default();
        let ty = o["ty"].as_str().unwrap_or("");
        let len = if ty == "list" || ty == "text" { o["len"].as_i64().unwrap_or(0) } else { 0 };
        // text: the projection has one register per unit index; consecutive equal entries are one
        // element (ids are unique), which is the shape the specification's view has
        let mut elems = elems;
        if ty == "text" {
            if let Some(units) = o["units"].as_array() {
                let mut es: Vec<(String, Vec<String>)> = vec![];
                for e in units {
                    let x = (format!("{}@{}", e["win"][0], e["win"][1]), canon_vals(&e["vals"]));
                    if es.last() != Some(&x) {
                        es.push(x);
                    }
                }
                elems = es;
            }
        }
        let text = if ty == "text" { o["text"].clone() } else { json!([]) };
        out.insert(id, json!({"ty": ty, "len": len, "ents": ents, "elems": elems, "text": text}));
    }
    out
}

fn replay_doc(args: &[String]) {
    use amverif::proj;
    use automerge::transaction::CommitOptions;
    world::silence_panics();
    let with_list = args.get(4).map(|s| s == "list").unwrap_or(false);
    let with_c3 = args.get(4).map(|s| s == "conflict3").unwrap_or(false);
    let with_text: Option<automerge::TextEncoding> = args.get(4).and_then(|s| s.strip_prefix("text:")).map(world::enc_from);
    let text = std::fs::read_to_string(&args[2]).expect("behaviours");
    let mut nb = 0usize;
    let mut nsteps = 0usize;
    let mut mism: Vec<J> = vec![];
    for line in text.lines().filter(|l| !l.trim().is_empty()) {
        let beh: J = serde_json::from_str(line).expect("behaviour json");
        nb += 1;
        if std::env::var("AMV_LOUD").is_ok() {
            let _ = std::fs::write("/var/tmp/amv-current-behaviour.json", line);
        }
        // progress marker: lets the orchestrator find the behaviour that made the process abort
        // (a panic inside a destructor while another panic unwinds cannot be caught)
        let _ = std::fs::write(format!("{}.progress", &args[3]), format!("{}", nb - 1));
        let mut reps: BTreeMap<i64, Automerge> = BTreeMap::new();
        for k in 1..=3i64 {
            let d = match with_text {
                Some(e) => Automerge::new_with_encoding(e),
                None => Automerge::new(),
            };
            reps.insert(k, d.with_actor(enc::actor_from_num(k as u8)));
        }
        if with_text.is_some() {
            let d = reps.get_mut(&1).unwrap();
            let mut tx = d.transaction();
            for c in [json!({"fn":"put_object","obj":[0,0],"key":"t","ty":"text"}),
                      json!({"fn":"splice_text","obj":[1,1],"idx":0,"del":0,"toks":["a","eacute"]})] {
                calls::exec(&mut tx, &c);
            }
            tx.commit_with(CommitOptions::default().with_time(0));
            let mut base = reps[&1].clone();
            for k in 2..=3i64 {
                reps.get_mut(&k).unwrap().merge(&mut base).unwrap();
            }
        }
        if with_list {
            let d = reps.get_mut(&1).unwrap();
            let mut tx = d.transaction();
            for c in [json!({"fn":"put_object","obj":[0,0],"key":"l","ty":"list"}),
                      json!({"fn":"insert","obj":[1,1],"idx":0,"val":{"k":"counter","s":"","n":1,"toks":[]}}),
                      json!({"fn":"insert","obj":[1,1],"idx":1,"val":{"k":"int","s":"7","n":0,"toks":[]}})] {
                calls::exec(&mut tx, &c);
            }
            tx.commit_with(CommitOptions::default().with_time(0));
            let mut base = reps[&1].clone();
            for k in 2..=3i64 {
                reps.get_mut(&k).unwrap().merge(&mut base).unwrap();
            }
        }
        // change id (start op counter, actor) -> hash, for historical reads
        let mut chash: BTreeMap<(i64, i64), automerge::ChangeHash> = BTreeMap::new();
        if with_c3 {
            // three concurrent values at k1 by actors 1, 2, 3; every replica knows all of them
            let vals = [json!({"k":"counter","s":"","n":5,"toks":[]}), json!({"k":"int","s":"1","n":0,"toks":[]}), json!({"k":"int","s":"2","n":0,"toks":[]})];
            let mut made: Vec<Automerge> = vec![];
            for k in 1..=3i64 {
                let mut d = Automerge::new().with_actor(enc::actor_from_num(k as u8));
                let mut tx = d.transaction();
                calls::exec(&mut tx, &json!({"fn":"put","obj":[0,0],"key":"k1","val":vals[(k - 1) as usize]}));
                let (h, _) = tx.commit_with(CommitOptions::default().with_time(0));
                chash.insert((1, k), h.unwrap());
                made.push(d);
            }
            for k in 1..=3i64 {
                for m in made.iter() {
                    let mut m2 = m.clone();
                    reps.get_mut(&k).unwrap().merge(&mut m2).unwrap();
                }
            }
        }
        if with_list || with_text.is_some() {
            if let Some(c) = reps[&1].get_changes(&[]).first() {
                chash.insert((1, 1), c.hash());
            }
        }
        for (si, step) in beh.as_array().unwrap().iter().enumerate() {
            nsteps += 1;
            let r = step["r"].as_i64().unwrap();
            if let Some(hreads) = step.get("hreads").and_then(|h| h.as_array()) {
                // historical reads at every antichain the specification enumerated
                for hr in hreads {
                    let heads: Vec<automerge::ChangeHash> = hr["heads"].as_array().unwrap().iter()
                        .filter_map(|h| chash.get(&(h[0].as_i64().unwrap_or(0), h[1].as_i64().unwrap_or(0))).copied()).collect();
                    if heads.len() != hr["heads"].as_array().unwrap().len() {
                        mism.push(json!({"behaviour": nb - 1, "step": si, "fields": ["harness-unknown-change"], "expected": hr, "got": "?", "line": beh}));
                        continue;
                    }
                    let got = catch_unwind(AssertUnwindSafe(|| {
                        let v = proj::view(&reps[&r], Some(&heads));
                        let f = reps[&r].fork_at(&heads).map(|f| (enc::hashes_sorted(&f.get_heads()), proj::view(&f, None)));
                        (v, f)
                    }));
                    match got {
                        Ok((v, f)) => {
                            let mut bad = vec![];
                            if canon_view(&v) != canon_view(&hr["exp"]) {
                                bad.push("view_at");
                            }
                            match f {
                                Ok((fh, fv)) => {
                                    if fh != enc::hashes_sorted(&heads) {
                                        bad.push("fork_heads");
                                    }
                                    if canon_view(&fv) != canon_view(&hr["exp"]) {
                                        bad.push("fork_view");
                                    }
                                }
                                Err(_) => bad.push("fork_err"),
                            }
                            if !bad.is_empty() {
                                mism.push(json!({"behaviour": nb - 1, "step": si, "fields": bad, "expected": hr, "got": {"view": v}, "line": beh}));
                                break;
                            }
                        }
                        Err(p) => {
                            mism.push(json!({"behaviour": nb - 1, "step": si, "fields": ["panic"], "expected": hr, "got": world::panic_msg(p), "line": beh}));
                            break;
                        }
                    }
                }
                continue;
            }
            let mut newchange: Option<((i64, i64), automerge::ChangeHash)> = None;
            let mut inside: Option<J> = None;
            let res = catch_unwind(AssertUnwindSafe(|| {
                let res;
                if let Some(s) = step.get("merge").and_then(|m| m.as_i64()) {
                    let mut other = reps[&s].clone();
                    res = match reps.get_mut(&r).unwrap().merge(&mut other) { Ok(_) => "ok".to_string(), Err(e) => calls::err_name(&e) };
                } else if step.get("rolledback").is_some() {
                    // a (possibly isolated) transaction of one call that is rolled back
                    let heads: Vec<automerge::ChangeHash> = step["iso"].as_array().map(|a| a.iter()
                        .filter_map(|h| chash.get(&(h[0].as_i64().unwrap_or(0), h[1].as_i64().unwrap_or(0))).copied()).collect()).unwrap_or_default();
                    let d = reps.get_mut(&r).unwrap();
                    let before_save = d.save();
                    {
                        let mut tx = if heads.is_empty() {
                            d.transaction()
                        } else {
                            d.transaction_at(automerge::PatchLog::inactive(), &heads).expect("patch log")
                        };
                        let _ = calls::exec(&mut tx, &step["call"]);
                        tx.rollback();
                    }
                    res = if d.save() == before_save { "any".to_string() } else { "saved-bytes-changed".to_string() };
                } else {
                    let iso: Option<Vec<automerge::ChangeHash>> = step.get("isoat").and_then(|a| a.as_array()).map(|a| a.iter()
                        .filter_map(|h| chash.get(&(h[0].as_i64().unwrap_or(0), h[1].as_i64().unwrap_or(0))).copied()).collect());
                    let d = reps.get_mut(&r).unwrap();
                    let mut tx = match &iso {
                        Some(h) => d.transaction_at(automerge::PatchLog::inactive(), h).expect("patch log"),
                        None => d.transaction(),
                    };
                    let out = calls::exec(&mut tx, &step["call"]);
                    if iso.is_some() {
                        inside = Some(proj::view(&tx, None));
                    }
                    let (h, _) = tx.commit_with(CommitOptions::default().with_time(0));
                    if let Some(h) = h {
                        if let Some(c) = d.get_change_by_hash(&h) {
                            newchange = Some(((c.start_op().get() as i64, enc::actor_num(c.actor_id())), h));
                        }
                    }
                    res = out["res"].as_str().unwrap_or("?").to_string();
                }
                (res, proj::view(&reps[&r], None))
            }));
            if let Some((k, h)) = newchange {
                chash.insert(k, h);
            }
            match res {
                Ok((res, view)) => {
                    let mut bad = vec![];
                    let rc = if res == "ok" { "ok" } else if res == "any" { "any" } else { "err" };
                    if rc != step["res"].as_str().unwrap_or("") {
                        bad.push("res".to_string());
                    }
                    let a = canon_view(&view);
                    let b = canon_view(&step["exp"]);
                    if a != b {
                        bad.push("view".to_string());
                    }
                    if let Some(ins) = &inside {
                        if canon_view(ins) != canon_view(&step["inside"]) {
                            bad.push("isolated_view".to_string());
                        }
                    }
                    // the iterator reads (values / map_range / list_range go through the top index)
                    // must show the same winners as get / get_all
                    if let Some(e) = amverif::proj::iter_reads_disagree(&reps[&r]) {
                        bad.push(format!("iter_reads:{}", e));
                    }
                    if !bad.is_empty() {
                        mism.push(json!({"behaviour": nb - 1, "step": si, "fields": bad, "expected": step, "got": {"res": res, "view": view}, "line": beh}));
                        break;
                    }
                }
                Err(p) => {
                    mism.push(json!({"behaviour": nb - 1, "step": si, "fields": ["panic"], "expected": step, "got": world::panic_msg(p), "line": beh}));
                    break;
                }
            }
        }
    }
    let out = json!({"behaviours": nb, "steps": nsteps, "mismatches": mism});
    std::fs::write(&args[3], out.to_string()).unwrap();
    println!("REPLAY behaviours={} steps={} mismatches={}", nb, nsteps, out["mismatches"].as_array().unwrap().len());
}

fn jset(j: &J) -> BTreeSet<String> {
    j.as_array().map(|a| a.iter().map(|x| x.to_string()).collect()).unwrap_or_default()
}

fn optset(j: &J) -> Option<BTreeSet<String>> {
    let a = j.as_array()?;
    if a.is_empty() { None } else { Some(jset(&a[0])) }
}

/// compare a logged sync state with the specification's
fn cmp_state(exp: &J, got: &J, bad: &mut Vec<String>) {
    for f in ["sharedHeads", "lastSentHeads", "sentHashes"] {
        if jset(&exp[f]) != jset(&got[f]) {
            bad.push(format!("st.{}", f));
        }
    }
    for f in ["theirHeads", "theirNeed", "caps"] {
        if optset(&exp[f]) != optset(&got[f]) || exp[f].as_array().map(|a| a.len()) != got[f].as_array().map(|a| a.len()) {
            bad.push(format!("st.{}", f));
        }
    }
    for f in ["inFlight", "haveResponded", "readOnly", "peerReadOnly", "needsReset"] {
        if exp[f] != got[f] {
            bad.push(format!("st.{}", f));
        }
    }
    // theirHave: same number of filters with the same lastSync
    let eh = exp["theirHave"].as_array().cloned().unwrap_or_default();
    let gh = got["theirHave"].as_array().cloned().unwrap_or_default();
    if eh.len() != gh.len() {
        bad.push("st.theirHave".into());
    } else if !eh.is_empty() {
        let (e, g) = (eh[0].as_array().cloned().unwrap_or_default(), gh[0].as_array().cloned().unwrap_or_default());
        if e.len() != g.len() || e.iter().zip(g.iter()).any(|(a, b)| jset(&a["lastSync"]) != jset(&b["lastSync"])) {
            bad.push("st.theirHave".into());
        }
    }
}

fn replay_sync(args: &[String]) {
    use amverif::syncx;
    use automerge::sync;
    use automerge::sync::SyncDoc;
    use automerge::transaction::{CommitOptions, Transactable};
    world::silence_panics();
    let text = std::fs::read_to_string(&args[2]).expect("behaviours");
    let mut nb = 0usize;
    let mut nsteps = 0usize;
    let mut inconclusive = 0usize;
    let mut mism: Vec<J> = vec![];
    'beh: for line in text.lines().filter(|l| !l.trim().is_empty()) {
        let beh: J = serde_json::from_str(line).expect("behaviour json");
        nb += 1;
        let steps = beh.as_array().unwrap();
        let fpids: Vec<i64> = steps[0]["fp"].as_array().map(|a| a.iter().filter_map(|x| x.as_i64()).collect()).unwrap_or_default();
        let mut docs: BTreeMap<i64, Automerge> = BTreeMap::new();
        let mut sts: BTreeMap<(i64, i64), sync::State> = BTreeMap::new();
        let mut chans: BTreeMap<(i64, i64), std::collections::VecDeque<sync::Message>> = BTreeMap::new();
        let mut names = syncx::Names::new();
        let mut by_id: BTreeMap<i64, automerge::ChangeHash> = BTreeMap::new();
        let mut tainted = false;
        for p in 1..=3i64 {
            docs.insert(p, Automerge::new().with_actor(enc::actor_from_num(p as u8)));
            for q in 1..=3i64 {
                if p != q {
                    sts.insert((p, q), sync::State::new());
                    chans.insert((p, q), Default::default());
                }
            }
        }
        for (si, step) in steps.iter().enumerate().skip(1) {
            nsteps += 1;
            let p = step["p"].as_i64().unwrap_or(1);
            let q = step.get("q").and_then(|x| x.as_i64()).unwrap_or(0);
            let act = step["act"].as_str().unwrap_or("");
            let universe: Vec<automerge::ChangeHash> = by_id.values().copied().collect();
            let forced: Vec<automerge::ChangeHash> = fpids.iter().filter_map(|i| by_id.get(i).copied()).collect();
            let r = catch_unwind(AssertUnwindSafe(|| {
                let mut bad: Vec<String> = vec![];
                let mut got = json!({});
                let mut natural_fp = false;
                match act {
                    "edit" => {
                        let d = docs.get_mut(&p).unwrap();
                        let mut tx = d.transaction();
                        tx.put(automerge::ROOT, "k", step["id"].as_i64().unwrap_or(0)).unwrap();
                        let (h, _) = tx.commit_with(CommitOptions::default().with_time(0));
                        let h = h.unwrap();
                        by_id.insert(step["id"].as_i64().unwrap(), h);
                        names.by_hash.insert(h, step["id"].clone());
                        got = json!({"doc": syncx::doc_json(&docs[&p], &names)});
                        for f in ["applied", "queue", "heads"] {
                            if jset(&got["doc"][f]) != jset(&step["doc"][f]) {
                                bad.push(format!("doc.{}", f));
                            }
                        }
                    }
                    "gen" | "quiet" => {
                        // natural false positives of the real filters make the step inconclusive
                        if let Some(hs) = &sts[&(p, q)].their_have {
                            let mine: Vec<automerge::ChangeHash> = docs[&p].get_changes(&[]).iter().map(|c| c.hash()).collect();
                            let expm: Vec<BTreeSet<String>> = match act {
                                _ => vec![],
                            };
                            let _ = expm;
                            for (hi, h) in hs.iter().enumerate() {
                                for x in &mine {
                                    if h.bloom.contains_hash(x) {
                                        // is x a true member?  the sender built the filter from its changes that are
                                        // not ancestors of last_sync; the receiver cannot know, so compare with the
                                        // model's members recorded when the message was received
                                        let key = format!("{}:{}:{}", p, q, hi);
                                        let _ = key;
                                        let _ = x;
                                    }
                                }
                            }
                        }
                        sync::verif_hooks::set_forced_positives(forced.clone());
                        let m = docs[&p].generate_sync_message(sts.get_mut(&(p, q)).unwrap());
                        sync::verif_hooks::clear_forced_positives();
                        let gm = match &m {
                            Some(m) => json!([syncx::msg_json(m, &names, &universe)]),
                            None => json!([]),
                        };
                        let gs = syncx::state_json(&sts[&(p, q)], &names, &universe);
                        got = json!({"msg": gm, "st": gs});
                        if act == "quiet" {
                            if m.is_some() {
                                bad.push("msg.expected-none".into());
                            }
                        } else {
                            let em = step["msg"].as_array().cloned().unwrap_or_default();
                            match (&m, em.first()) {
                                (None, None) => {}
                                (Some(_), None) => bad.push("msg.expected-none".into()),
                                (None, Some(_)) => bad.push("msg.expected-some".into()),
                                (Some(mm), Some(e)) => {
                                    let g = &got["msg"][0];
                                    for f in ["heads", "need", "carried", "flags"] {
                                        if jset(&e[f]) != jset(&g[f]) {
                                            bad.push(format!("msg.{}", f));
                                        }
                                    }
                                    let (eh, gh) = (e["have"].as_array().cloned().unwrap_or_default(), g["have"].as_array().cloned().unwrap_or_default());
                                    if eh.len() != gh.len() {
                                        bad.push("msg.have".into());
                                    } else {
                                        for (a, b) in eh.iter().zip(gh.iter()) {
                                            if jset(&a["lastSync"]) != jset(&b["lastSync"]) {
                                                bad.push("msg.have.lastSync".into());
                                            }
                                            // C23: no false negatives; extra positives are natural false positives
                                            let mem = jset(&a["members"]);
                                            let pos = jset(&b["positives"]);
                                            if !mem.is_subset(&pos) {
                                                bad.push("msg.have.false-negative".into());
                                            }
                                            if !mem.is_empty() && pos.len() > mem.len() {
                                                natural_fp = true;
                                            }
                                        }
                                    }
                                    // the encoded message must decode to an equal message (C19)
                                    let bytes = mm.clone().encode();
                                    match sync::Message::decode(&bytes) {
                                        Ok(dm) => {
                                            if syncx::msg_json(&dm, &names, &universe) != *g {
                                                bad.push("msg.roundtrip".into());
                                            }
                                        }
                                        Err(_) => bad.push("msg.roundtrip-decode".into()),
                                    }
                                    chans.get_mut(&(p, q)).unwrap().push_back(mm.clone());
                                }
                            }
                            cmp_state(&step["st"], &got["st"], &mut bad);
                        }
                    }
                    "recv" => {
                        let m = chans.get_mut(&(q, p)).unwrap().pop_front();
                        match m {
                            None => bad.push("harness.no-message".into()),
                            Some(m) => {
                                let res = docs.get_mut(&p).unwrap().receive_sync_message(sts.get_mut(&(p, q)).unwrap(), m);
                                if res.is_err() {
                                    bad.push("recv.err".into());
                                }
                                got = json!({"doc": syncx::doc_json(&docs[&p], &names), "st": syncx::state_json(&sts[&(p, q)], &names, &universe)});
                                for f in ["applied", "queue", "heads"] {
                                    if jset(&got["doc"][f]) != jset(&step["doc"][f]) {
                                        bad.push(format!("doc.{}", f));
                                    }
                                }
                                cmp_state(&step["st"], &got["st"], &mut bad);
                            }
                        }
                    }
                    "toggle" => {
                        let ro = step["ro"].as_bool().unwrap_or(false);
                        sts.get_mut(&(p, q)).unwrap().set_read_only(ro);
                        got = json!({"st": syncx::state_json(&sts[&(p, q)], &names, &universe)});
                        cmp_state(&step["st"], &got["st"], &mut bad);
                    }
                    "drop" => {
                        chans.get_mut(&(p, q)).unwrap().clear();
                        chans.get_mut(&(q, p)).unwrap().clear();
                    }
                    "reconnect" => {
                        chans.get_mut(&(p, q)).unwrap().clear();
                        chans.get_mut(&(q, p)).unwrap().clear();
                        // both directions of the link: fresh or persisted (encode/decode) state
                        for (a, b) in [(p, q), (q, p)] {
                            let s = if step["persisted"].as_bool().unwrap_or(false) {
                                sync::State::decode(&sts[&(a, b)].encode()).expect("state decode")
                            } else {
                                sync::State::new()
                            };
                            sts.insert((a, b), s);
                        }
                        got = json!({"st": syncx::state_json(&sts[&(p, q)], &names, &universe)});
                        cmp_state(&step["st"], &got["st"], &mut bad);
                    }
                    _ => bad.push("harness.unknown-act".into()),
                }
                (bad, got, natural_fp)
            }));
            match r {
                Ok((bad, got, natural_fp)) => {
                    // a natural false positive of a real filter (the model only knows the forced ones) taints the rest
                    // of the behaviour: the filter stays in the receiver's state and decides later messages
                    tainted = tainted || natural_fp;
                    // ... also when it shows in a filter the peer holds in its sync state (the hash may not have existed
                    // when the filter was sent): positives beyond the members the model recorded for that filter
                    if let (Some(eh), Some(gh)) = (step["st"]["theirHave"].as_array(), got["st"]["theirHave"].as_array()) {
                        for (ea, ga) in eh.iter().zip(gh.iter()) {
                            if let (Some(el), Some(gl)) = (ea.as_array(), ga.as_array()) {
                                for (e1, g1) in el.iter().zip(gl.iter()) {
                                    let mem = jset(&e1["members"]);
                                    let pos = jset(&g1["positives"]);
                                    if mem.is_subset(&pos) && pos.len() > mem.len() {
                                        tainted = true;
                                    }
                                }
                            }
                        }
                    }
                    if !bad.is_empty() {
                        if tainted && !bad.iter().any(|b| b.contains("false-negative")) {
                            inconclusive += 1;
                            continue 'beh;
                        }
                        mism.push(json!({"behaviour": nb - 1, "step": si, "fields": bad, "expected": step, "got": got, "line": beh}));
                        continue 'beh;
                    }
                }
                Err(pn) => {
                    sync::verif_hooks::clear_forced_positives();
                    mism.push(json!({"behaviour": nb - 1, "step": si, "fields": ["panic"], "expected": step, "got": world::panic_msg(pn), "line": beh}));
                    continue 'beh;
                }
            }
        }
    }
    let out = json!({"behaviours": nb, "steps": nsteps, "inconclusive": inconclusive, "mismatches": mism});
    std::fs::write(&args[3], out.to_string()).unwrap();
    println!("REPLAY behaviours={} steps={} inconclusive={} mismatches={}", nb, nsteps, inconclusive, out["mismatches"].as_array().unwrap().len());
}


/// C36: turn Doc.tla behaviours (map + list variant) into (a) a program for the C driver and (b) the observation
/// lines the Rust API produces for the same operations, in the driver's output format.
fn capi_expected(args: &[String]) {
    world::silence_panics();
    let text = std::fs::read_to_string(&args[2]).expect("behaviours");
    let epilogue = args.get(5).map(|s| s == "epilogue").unwrap_or(false);
    let variant = args.get(6).map(|s| s.as_str()).unwrap_or("list");
    let (prog, exp, nb) = amverif::capix::programs(&text, epilogue, variant);
    std::fs::write(&args[3], prog).unwrap();
    std::fs::write(&args[4], exp).unwrap();
    println!("REPLAY capi behaviours={}", nb);
}

fn main() {
    let args: Vec<String> = std::env::args().collect();
    if args.len() >= 5 && args[1] == "capi" {
        return capi_expected(&args);
    }
    if args.len() >= 4 && args[1] == "sync" {
        return replay_sync(&args);
    }
    if args.len() >= 4 && args[1] == "doc" {
        // replay doc <behaviours.ndjson> <out.json> [list]
        return replay_doc(&args);
    }
    if args.len() < 5 || args[1] != "delivery" {
        eprintln!("usage: replay delivery <dag.json> <behaviours.ndjson> <out.json>");
        std::process::exit(2);
    }
    world::silence_panics();
    let dag: J = serde_json::from_str(&std::fs::read_to_string(&args[2]).expect("dag")).expect("dag json");
    let mut changes: BTreeMap<String, Change> = BTreeMap::new();
    for c in dag["changes"].as_array().unwrap() {
        let raw = hex::decode(c["raw"].as_str().unwrap()).unwrap();
        let ch = Change::from_bytes(raw).expect("change bytes");
        changes.insert(c["hash"].as_str().unwrap().to_string(), ch);
    }
    // a document holding the whole history: the source of bundles (C18)
    let mut full = Automerge::new().with_actor(enc::actor_from_num(98));
    let _ = full.apply_changes(changes.values().cloned());
    let text = std::fs::read_to_string(&args[3]).expect("behaviours");
    let mut nb = 0usize;
    let mut nsteps = 0usize;
    let mut mism: Vec<J> = vec![];
    for line in text.lines() {
        if line.trim().is_empty() {
            continue;
        }
        let beh: J = serde_json::from_str(line).expect("behaviour json");
        nb += 1;
        let mut doc = Automerge::new().with_actor(enc::actor_from_num(99));
        for (si, step) in beh.as_array().unwrap().iter().enumerate() {
            nsteps += 1;
            let batch: Vec<Change> = step["batch"].as_array().unwrap().iter()
                .map(|h| changes[h.as_str().unwrap()].clone()).collect();
            let via = step["via"].as_str().unwrap();
            let r = catch_unwind(AssertUnwindSafe(|| {
                let res = match via {
                    "apply" => doc.apply_changes(batch.clone()).map_err(|e| calls::err_name(&e)),
                    "each" => {
                        let mut r = Ok(());
                        for c in batch.clone() {
                            if let Err(e) = doc.apply_changes([c]) {
                                r = Err(calls::err_name(&e));
                                break;
                            }
                        }
                        r
                    }
                    "bundle" => {
                        // the batch as one bundle chunk: its changes must come back byte for byte,
                        // and loading it must act like applying them
                        match full.bundle(batch.iter().map(|c| c.hash())) {
                            Ok(b) => {
                                let back = b.to_changes().map_err(|e| calls::err_name(&e));
                                let want: BTreeSet<Vec<u8>> = batch.iter().map(|c| c.raw_bytes().to_vec()).collect();
                                match back {
                                    Ok(cs) => {
                                        let got: BTreeSet<Vec<u8>> = cs.iter().map(|c| c.raw_bytes().to_vec()).collect();
                                        if got != want {
                                            Err("err:BundleChangesDiffer".to_string())
                                        } else {
                                            doc.load_incremental(b.bytes()).map(|_| ()).map_err(|e| calls::err_name(&e))
                                        }
                                    }
                                    Err(e) => Err(format!("{}:to_changes", e)),
                                }
                            }
                            Err(e) => Err(format!("{}:bundle", calls::err_name(&e))),
                        }
                    }
                    _ => {
                        let mut bytes = vec![];
                        for c in &batch {
                            bytes.extend_from_slice(c.raw_bytes());
                        }
                        doc.load_incremental(&bytes).map(|_| ()).map_err(|e| calls::err_name(&e))
                    }
                };
                let reslabel = match &res { Ok(()) => "ok".to_string(), Err(e) => e.clone() };
                let applied: Vec<_> = doc.get_changes(&[]).iter().map(|c| c.hash()).collect();
                json!({
                    "res": if res.is_ok() { "ok" } else { "err" },
                    "reslabel": reslabel,
                    "applied": enc::hashes_sorted(&applied),
                    "queue": enc::hashes_sorted(&doc.verif_queued_hashes()),
                    "heads": enc::hashes_sorted(&doc.get_heads()),
                    "missing": enc::hashes_sorted(&doc.get_missing_deps(&[])),
                })
            }));
            match r {
                Ok(got) => {
                    let mut bad = vec![];
                    if got["res"] != step["res"] {
                        bad.push("res");
                    }
                    for f in ["applied", "queue", "heads", "missing"] {
                        if set_of(&got[f]) != set_of(&step[f]) {
                            bad.push(f);
                        }
                    }
                    if !bad.is_empty() {
                        mism.push(json!({"behaviour": nb - 1, "step": si, "fields": bad, "expected": step, "got": got, "line": beh}));
                        break;
                    }
                }
                Err(p) => {
                    mism.push(json!({"behaviour": nb - 1, "step": si, "fields": ["panic"], "expected": step, "got": world::panic_msg(p), "line": beh}));
                    break;
                }
            }
        }
    }
    let out = json!({"behaviours": nb, "steps": nsteps, "mismatches": mism});
    std::fs::write(&args[4], out.to_string()).unwrap();
    println!("REPLAY behaviours={} steps={} mismatches={}", nb, nsteps, out["mismatches"].as_array().unwrap().len());
}
