//! replay delivery <dag.json> <behaviours.ndjson> <out.json>
//! Replays TLC-generated behaviours on the real implementation and compares the projected state
//! with the state the specification predicted after every step.  No model logic lives here.
use amverif::{calls, enc, world};
use automerge::{Automerge, Change, ReadDoc};
use serde_json::{json, Value as J};
use std::collections::{BTreeMap, BTreeSet};
use std::panic::{catch_unwind, AssertUnwindSafe};

fn set_of(j: &J) -> BTreeSet<String> {
    j.as_array().map(|a| a.iter().filter_map(|x| x.as_str().map(String::from)).collect()).unwrap_or_default()
}

fn main() {
    let args: Vec<String> = std::env::args().collect();
    if args.len() < 5 || args[1] != "delivery" {
        eprintln!("usage: replay delivery <dag.json> <behaviours.ndjson> <out.json>");
        std::process::exit(2);
    }
    world::silence_panics();
    let dag: J = serde_json::from_str(&std::fs::read_to_string(&args[2]).expect("dag")).expect("dag json");
    let mut changes: BTreeMap<String, Change> = BTreeMap::new();
    for c in dag["changes"].as_array().unwrap() {
        let raw = hex::decode(c["raw"].as_str().unwrap()).unwrap();
        let ch = Change::from_bytes(raw).expect("change bytes");
        changes.insert(c["hash"].as_str().unwrap().to_string(), ch);
    }
    let text = std::fs::read_to_string(&args[3]).expect("behaviours");
    let mut nb = 0usize;
    let mut nsteps = 0usize;
    let mut mism: Vec<J> = vec![];
    for line in text.lines() {
        if line.trim().is_empty() {
            continue;
        }
        let beh: J = serde_json::from_str(line).expect("behaviour json");
        nb += 1;
        let mut doc = Automerge::new().with_actor(enc::actor_from_num(99));
        for (si, step) in beh.as_array().unwrap().iter().enumerate() {
            nsteps += 1;
            let batch: Vec<Change> = step["batch"].as_array().unwrap().iter()
                .map(|h| changes[h.as_str().unwrap()].clone()).collect();
            let via = step["via"].as_str().unwrap();
            let r = catch_unwind(AssertUnwindSafe(|| {
                let res = match via {
                    "apply" => doc.apply_changes(batch.clone()).map_err(|e| calls::err_name(&e)),
                    "each" => {
                        let mut r = Ok(());
                        for c in batch.clone() {
                            if let Err(e) = doc.apply_changes([c]) {
                                r = Err(calls::err_name(&e));
                                break;
                            }
                        }
                        r
                    }
                    _ => {
                        let mut bytes = vec![];
                        for c in &batch {
                            bytes.extend_from_slice(c.raw_bytes());
                        }
                        doc.load_incremental(&bytes).map(|_| ()).map_err(|e| calls::err_name(&e))
                    }
                };
                let applied: Vec<_> = doc.get_changes(&[]).iter().map(|c| c.hash()).collect();
                json!({
                    "res": if res.is_ok() { "ok" } else { "err" },
                    "applied": enc::hashes_sorted(&applied),
                    "queue": enc::hashes_sorted(&doc.verif_queued_hashes()),
                    "heads": enc::hashes_sorted(&doc.get_heads()),
                    "missing": enc::hashes_sorted(&doc.get_missing_deps(&[])),
                })
            }));
            match r {
                Ok(got) => {
                    let mut bad = vec![];
                    if got["res"] != step["res"] {
                        bad.push("res");
                    }
                    for f in ["applied", "queue", "heads", "missing"] {
                        if set_of(&got[f]) != set_of(&step[f]) {
                            bad.push(f);
                        }
                    }
                    if !bad.is_empty() {
                        mism.push(json!({"behaviour": nb - 1, "step": si, "fields": bad, "expected": step, "got": got, "line": beh}));
                        break;
                    }
                }
                Err(p) => {
                    mism.push(json!({"behaviour": nb - 1, "step": si, "fields": ["panic"], "expected": step, "got": world::panic_msg(p), "line": beh}));
                    break;
                }
            }
        }
    }
    let out = json!({"behaviours": nb, "steps": nsteps, "mismatches": mism});
    std::fs::write(&args[4], out.to_string()).unwrap();
    println!("REPLAY behaviours={} steps={} mismatches={}", nb, nsteps, out["mismatches"].as_array().unwrap().len());
}
