//! Textual/JSON encoding of automerge values for the TLA+ side.
//!
//! Rules (see DESIGN.md §3.1): no JSON null is ever emitted (TLC's Json module rejects it);
//! every scalar is a record {"k": kind, "s": text, "n": small-int, "toks": [token names]};
//! op ids are [counter, actor_number] pairs, ROOT/HEAD are [0,0]; change hashes are short
//! hex strings prefixed with "h".
use automerge::{ActorId, ChangeHash, ObjId, ObjType, ScalarValue};
use serde_json::{json, Value as J};

/// Order preserving map from actor bytes to a small integer.
/// Single byte actors k -> k (k <= 18 so that isolation actors sort after them);
/// isolation actors 13 b2 23 09 || leb(level) || base  ->  256*level + base (level < 128).
pub fn actor_num(a: &ActorId) -> i64 {
    let b = a.to_bytes();
    if b.len() == 1 {
        // two regimes: bytes below 0x20 (isolation actors 13 b2 23 09.. sort AFTER them) map to
        // themselves; bytes from 0x20 on (isolation actors sort BEFORE them) map to 100000 + byte
        return if b[0] >= 0x20 { 100_000 + b[0] as i64 } else { b[0] as i64 };
    }
    if b.len() == 6 && b[0..4] == [0x13, 0xb2, 0x23, 0x09] && b[4] < 128 {
        return 256 * (b[4] as i64) + b[5] as i64;
    }
    // unknown actor naming: give a stable but large number (order not guaranteed)
    let mut n: i64 = 100_000;
    for x in b.iter().take(3) {
        n = n * 256 + *x as i64;
    }
    n
}

pub fn actor_from_num(k: u8) -> ActorId {
    ActorId::from(vec![k])
}

pub fn hash_str(h: &ChangeHash) -> String {
    let s = h.to_string();
    format!("h{}", &s[0..12])
}

pub fn hashes_sorted(hs: &[ChangeHash]) -> Vec<String> {
    let mut v: Vec<String> = hs.iter().map(hash_str).collect();
    v.sort();
    v.dedup();
    v
}

pub fn opid(ctr: u64, actor: &ActorId) -> J {
    json!([ctr as i64, actor_num(actor)])
}

pub fn exid(id: &ObjId) -> J {
    match id {
        ObjId::Root => json!([0, 0]),
        ObjId::Id(c, a, _) => opid(*c, a),
    }
}

pub fn exid_key(id: &ObjId) -> (u64, i64) {
    match id {
        ObjId::Root => (0, 0),
        ObjId::Id(c, a, _) => (*c, actor_num(a)),
    }
}

/// Names for the characters of the text alphabet the specification knows the widths of.
pub fn char_token(c: char) -> String {
    match c {
        'a'..='z' | 'A'..='Z' | '0'..='9' => c.to_string(),
        ' ' => "sp".into(),
        '\n' => "nl".into(),
        '\u{e9}' => "eacute".into(),   // 2 bytes utf8, 1 utf16
        '\u{20ac}' => "euro".into(),   // 3 bytes utf8, 1 utf16
        '\u{1f600}' => "grin".into(),  // 4 bytes utf8, 2 utf16
        '\u{1f469}' => "woman".into(), // 4 / 2, Extended_Pictographic
        '\u{1f4bb}' => "laptop".into(), // 4 / 2, Extended_Pictographic
        '\u{301}' => "cacute".into(),  // combining acute, Extend, 2 bytes utf8
        '\u{200d}' => "zwj".into(),    // ZWJ, 3 bytes utf8
        '\u{fe0f}' => "vs16".into(),   // variation selector, Extend, 3 bytes
        '\u{fffc}' => "objrepl".into(), // object replacement char, 3 bytes
        _ => format!("U{:X}", c as u32),
    }
}

pub fn token_char(t: &str) -> Option<char> {
    Some(match t {
        "sp" => ' ',
        "nl" => '\n',
        "eacute" => '\u{e9}',
        "euro" => '\u{20ac}',
        "grin" => '\u{1f600}',
        "woman" => '\u{1f469}',
        "laptop" => '\u{1f4bb}',
        "cacute" => '\u{301}',
        "zwj" => '\u{200d}',
        "vs16" => '\u{fe0f}',
        "objrepl" => '\u{fffc}',
        _ => {
            if let Some(hex) = t.strip_prefix('U') {
                if t.len() > 1 {
                    if let Ok(n) = u32::from_str_radix(hex, 16) {
                        return char::from_u32(n);
                    }
                }
            }
            let mut it = t.chars();
            let c = it.next()?;
            if it.next().is_some() {
                return None;
            }
            c
        }
    })
}

pub fn str_tokens(s: &str) -> Vec<String> {
    s.chars().map(char_token).collect()
}

pub fn tokens_str(toks: &[String]) -> String {
    toks.iter().filter_map(|t| token_char(t)).collect()
}

/// ASCII-safe rendering of an arbitrary string (TLC string literals/JSON are fine with unicode,
/// but keeping the "s" field ASCII makes traces greppable).
pub fn safe_str(s: &str) -> String {
    let mut out = String::new();
    for c in s.chars() {
        if c.is_ascii_alphanumeric() || " _-.,:;/@#".contains(c) {
            out.push(c);
        } else {
            out.push_str(&format!("\\u{{{:x}}}", c as u32));
        }
    }
    out
}

fn small(n: i64) -> i64 {
    if n.abs() < 1_000_000_000 {
        n
    } else {
        0
    }
}

pub fn scalar(v: &ScalarValue) -> J {
    match v {
        ScalarValue::Bytes(b) => json!({"k":"bytes","s":hex::encode(b),"n":0,"toks":[]}),
        ScalarValue::Str(s) => json!({"k":"str","s":safe_str(s),"n":0,"toks":str_tokens(s)}),
        ScalarValue::Int(i) => json!({"k":"int","s":i.to_string(),"n":0,"toks":[]}),
        ScalarValue::Uint(i) => json!({"k":"uint","s":i.to_string(),"n":0,"toks":[]}),
        ScalarValue::F64(f) => {
            json!({"k":"f64","s":format!("{:016x}", f.to_bits()),"n":0,"toks":[]})
        }
        ScalarValue::Counter(c) => {
            let n: i64 = i64::from(c);
            json!({"k":"counter","s":if small(n)==n {String::new()} else {n.to_string()},"n":small(n),"toks":[]})
        }
        ScalarValue::Timestamp(t) => json!({"k":"ts","s":t.to_string(),"n":0,"toks":[]}),
        ScalarValue::Boolean(b) => json!({"k":"bool","s":b.to_string(),"n":0,"toks":[]}),
        ScalarValue::Unknown { type_code, bytes } => {
            json!({"k":"unknown","s":format!("{}:{}", type_code, hex::encode(bytes)),"n":0,"toks":[]})
        }
        ScalarValue::Null => json!({"k":"null","s":"","n":0,"toks":[]}),
    }
}

pub fn objtype_str(t: ObjType) -> &'static str {
    match t {
        ObjType::Map => "map",
        ObjType::Table => "table",
        ObjType::List => "list",
        ObjType::Text => "text",
    }
}

pub fn objval(t: ObjType) -> J {
    json!({"k":"obj","s":objtype_str(t),"n":0,"toks":[]})
}

pub fn value(v: &automerge::Value<'_>) -> J {
    match v {
        automerge::Value::Object(t) => objval(*t),
        automerge::Value::Scalar(s) => scalar(s.as_ref()),
    }
}

pub fn nothing() -> J {
    json!({"k":"none","s":"","n":0,"toks":[]})
}
