//! C32: serialising a document through AutoSerde.  Two observers:
//!  * `tagged(serde_json::to_value(..))`: the JSON image in a TLC-friendly tagged form (no JSON null);
//!  * `Strict`: a serde Serializer that produces nothing but enforces serde's length contract - the number of
//!    entries / elements fed to a map / sequence must equal the length announced in `serialize_map(Some(n))` /
//!    `serialize_seq(Some(n))`, as length-prefixed formats require.
use crate::enc;
use serde::ser::{self, Serialize};
use serde_json::{json, Value as J};
use std::fmt;

pub fn tagged(v: &J) -> J {
    match v {
        J::Null => json!({"t":"null"}),
        J::Bool(b) => json!({"t":"bool","s":b.to_string()}),
        J::Number(n) => json!({"t":"num","s":n.to_string()}),
        J::String(s) => json!({"t":"str","toks":enc::str_tokens(s)}),
        J::Array(a) => json!({"t":"seq","items": a.iter().map(tagged).collect::<Vec<_>>()}),
        J::Object(o) => json!({"t":"map","ents": o.iter().map(|(k, v)| json!({"k": enc::safe_str(k), "v": tagged(v)})).collect::<Vec<_>>()}),
    }
}

#[derive(Debug)]
pub struct StrictError(pub String);
impl fmt::Display for StrictError {
    fn fmt(&self, f: &mut fmt::Formatter<'_>) -> fmt::Result {
        write!(f, "{}", self.0)
    }
}
impl std::error::Error for StrictError {}
impl ser::Error for StrictError {
    fn custom<T: fmt::Display>(msg: T) -> Self {
        StrictError(msg.to_string())
    }
}

pub struct Strict;
pub struct Counted {
    announced: Option<usize>,
    seen: usize,
    what: &'static str,
}
impl Counted {
    fn finish(self) -> Result<(), StrictError> {
        match self.announced {
            Some(n) if n != self.seen => Err(StrictError(format!("{} announced {} entries but produced {}", self.what, n, self.seen))),
            _ => Ok(()),
        }
    }
}

macro_rules! scalar {
    ($($f:ident : $t:ty),*) => { $(fn $f(self, _v: $t) -> Result<(), StrictError> { Ok(()) })* };
}

impl ser::Serializer for Strict {
    type Ok = ();
    type Error = StrictError;
    type SerializeSeq = Counted;
    type SerializeTuple = Counted;
    type SerializeTupleStruct = Counted;
    type SerializeTupleVariant = Counted;
    type SerializeMap = Counted;
    type SerializeStruct = Counted;
    type SerializeStructVariant = Counted;
    scalar!(serialize_bool: bool, serialize_i8: i8, serialize_i16: i16, serialize_i32: i32, serialize_i64: i64,
            serialize_u8: u8, serialize_u16: u16, serialize_u32: u32, serialize_u64: u64, serialize_f32: f32, serialize_f64: f64,
            serialize_char: char, serialize_str: &str, serialize_bytes: &[u8]);
    fn serialize_none(self) -> Result<(), StrictError> { Ok(()) }
    fn serialize_some<T: ?Sized + Serialize>(self, v: &T) -> Result<(), StrictError> { v.serialize(Strict) }
    fn serialize_unit(self) -> Result<(), StrictError> { Ok(()) }
    fn serialize_unit_struct(self, _: &'static str) -> Result<(), StrictError> { Ok(()) }
    fn serialize_unit_variant(self, _: &'static str, _: u32, _: &'static str) -> Result<(), StrictError> { Ok(()) }
    fn serialize_newtype_struct<T: ?Sized + Serialize>(self, _: &'static str, v: &T) -> Result<(), StrictError> { v.serialize(Strict) }
    fn serialize_newtype_variant<T: ?Sized + Serialize>(self, _: &'static str, _: u32, _: &'static str, v: &T) -> Result<(), StrictError> { v.serialize(Strict) }
    fn serialize_seq(self, len: Option<usize>) -> Result<Counted, StrictError> { Ok(Counted { announced: len, seen: 0, what: "sequence" }) }
    fn serialize_tuple(self, len: usize) -> Result<Counted, StrictError> { Ok(Counted { announced: Some(len), seen: 0, what: "tuple" }) }
    fn serialize_tuple_struct(self, _: &'static str, len: usize) -> Result<Counted, StrictError> { Ok(Counted { announced: Some(len), seen: 0, what: "tuple struct" }) }
    fn serialize_tuple_variant(self, _: &'static str, _: u32, _: &'static str, len: usize) -> Result<Counted, StrictError> { Ok(Counted { announced: Some(len), seen: 0, what: "tuple variant" }) }
    fn serialize_map(self, len: Option<usize>) -> Result<Counted, StrictError> { Ok(Counted { announced: len, seen: 0, what: "map" }) }
    fn serialize_struct(self, _: &'static str, len: usize) -> Result<Counted, StrictError> { Ok(Counted { announced: Some(len), seen: 0, what: "struct" }) }
    fn serialize_struct_variant(self, _: &'static str, _: u32, _: &'static str, len: usize) -> Result<Counted, StrictError> { Ok(Counted { announced: Some(len), seen: 0, what: "struct variant" }) }
}

impl ser::SerializeSeq for Counted {
    type Ok = ();
    type Error = StrictError;
    fn serialize_element<T: ?Sized + Serialize>(&mut self, v: &T) -> Result<(), StrictError> { self.seen += 1; v.serialize(Strict) }
    fn end(self) -> Result<(), StrictError> { self.finish() }
}
impl ser::SerializeTuple for Counted {
    type Ok = ();
    type Error = StrictError;
    fn serialize_element<T: ?Sized + Serialize>(&mut self, v: &T) -> Result<(), StrictError> { self.seen += 1; v.serialize(Strict) }
    fn end(self) -> Result<(), StrictError> { self.finish() }
}
impl ser::SerializeTupleStruct for Counted {
    type Ok = ();
    type Error = StrictError;
    fn serialize_field<T: ?Sized + Serialize>(&mut self, v: &T) -> Result<(), StrictError> { self.seen += 1; v.serialize(Strict) }
    fn end(self) -> Result<(), StrictError> { self.finish() }
}
impl ser::SerializeTupleVariant for Counted {
    type Ok = ();
    type Error = StrictError;
    fn serialize_field<T: ?Sized + Serialize>(&mut self, v: &T) -> Result<(), StrictError> { self.seen += 1; v.serialize(Strict) }
    fn end(self) -> Result<(), StrictError> { self.finish() }
}
impl ser::SerializeMap for Counted {
    type Ok = ();
    type Error = StrictError;
    fn serialize_key<T: ?Sized + Serialize>(&mut self, k: &T) -> Result<(), StrictError> { self.seen += 1; k.serialize(Strict) }
    fn serialize_value<T: ?Sized + Serialize>(&mut self, v: &T) -> Result<(), StrictError> { v.serialize(Strict) }
    fn end(self) -> Result<(), StrictError> { self.finish() }
}
impl ser::SerializeStruct for Counted {
    type Ok = ();
    type Error = StrictError;
    fn serialize_field<T: ?Sized + Serialize>(&mut self, _: &'static str, v: &T) -> Result<(), StrictError> { self.seen += 1; v.serialize(Strict) }
    fn end(self) -> Result<(), StrictError> { self.finish() }
}
impl ser::SerializeStructVariant for Counted {
    type Ok = ();
    type Error = StrictError;
    fn serialize_field<T: ?Sized + Serialize>(&mut self, _: &'static str, v: &T) -> Result<(), StrictError> { self.seen += 1; v.serialize(Strict) }
    fn end(self) -> Result<(), StrictError> { self.finish() }
}
