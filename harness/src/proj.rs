//! Projection of a document to the abstract state the specification talks about, using only the
//! public read API (ReadDoc).  One function, used by every driver and replayer.
use crate::enc;
use automerge::{ChangeHash, ObjId, ObjType, ReadDoc, Value};
use serde_json::{json, Value as J};
use std::collections::BTreeMap;

fn vals_at<R: ReadDoc>(
    doc: &R,
    obj: &ObjId,
    prop: automerge::Prop,
    heads: Option<&[ChangeHash]>,
    todo: &mut Vec<(ObjId, ObjType)>,
) -> (J, J) {
    let all = match heads {
        Some(h) => doc.get_all_at(obj, prop.clone(), h),
        None => doc.get_all(obj, prop.clone()),
    };
    let one = match heads {
        Some(h) => doc.get_at(obj, prop, h),
        None => doc.get(obj, prop),
    };
    let mut vs: Vec<((u64, i64), J)> = vec![];
    match all {
        Ok(all) => {
            for (v, id) in all {
                if let Value::Object(t) = &v {
                    todo.push((id.clone(), *t));
                }
                vs.push((enc::exid_key(&id), json!({"id": enc::exid(&id), "v": enc::value(&v)})));
            }
        }
        Err(e) => {
            vs.push(((u64::MAX, 0), json!({"id":[-1,-1], "v": {"k":"error","s":format!("{:?}", e),"n":0,"toks":[]}})));
        }
    }
    vs.sort_by(|a, b| a.0.cmp(&b.0));
    let win = match one {
        Ok(Some((_, id))) => enc::exid(&id),
        Ok(None) => json!([-1, -1]),
        Err(_) => json!([-2, -2]),
    };
    (win, J::Array(vs.into_iter().map(|x| x.1).collect()))
}

/// The view: list of objects reachable from the root, sorted by object id.
pub fn view<R: ReadDoc>(doc: &R, heads: Option<&[ChangeHash]>) -> J {
    let mut out: BTreeMap<(u64, i64), J> = BTreeMap::new();
    let mut todo: Vec<(ObjId, ObjType)> = vec![(ObjId::Root, ObjType::Map)];
    while let Some((obj, ty)) = todo.pop() {
        let k = enc::exid_key(&obj);
        if out.contains_key(&k) {
            continue;
        }
        let rec = match ty {
            ObjType::Map | ObjType::Table => {
                let keys: Vec<String> = match heads {
                    Some(h) => doc.keys_at(&obj, h).collect(),
                    None => doc.keys(&obj).collect(),
                };
                let mut ents = vec![];
                for key in keys {
                    let (win, vals) = vals_at(doc, &obj, key.as_str().into(), heads, &mut todo);
                    ents.push(json!({"k": enc::safe_str(&key), "win": win, "vals": vals}));
                }
                json!({"id": enc::exid(&obj), "ty": enc::objtype_str(ty), "ents": ents})
            }
            ObjType::List => {
                let len = match heads {
                    Some(h) => doc.length_at(&obj, h),
                    None => doc.length(&obj),
                };
                let mut elems = vec![];
                for i in 0..len {
                    let (win, vals) = vals_at(doc, &obj, i.into(), heads, &mut todo);
                    elems.push(json!({"win": win, "vals": vals}));
                }
                json!({"id": enc::exid(&obj), "ty": "list", "len": len, "elems": elems})
            }
            ObjType::Text => {
                let len = match heads {
                    Some(h) => doc.length_at(&obj, h),
                    None => doc.length(&obj),
                };
                let text = match heads {
                    Some(h) => doc.text_at(&obj, h),
                    None => doc.text(&obj),
                };
                let (toks, terr) = match text {
                    Ok(s) => (enc::str_tokens(&s), String::new()),
                    Err(e) => (vec![], format!("{:?}", e)),
                };
                // one entry per unit index
                let mut units = vec![];
                for i in 0..len {
                    let (win, vals) = vals_at(doc, &obj, i.into(), heads, &mut todo);
                    units.push(json!({"win": win, "vals": vals}));
                }
                json!({"id": enc::exid(&obj), "ty": "text", "len": len, "text": toks, "terr": terr, "units": units})
            }
        };
        out.insert(k, rec);
    }
    J::Array(out.into_values().collect())
}
