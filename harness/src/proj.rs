//! Projection of a document to the abstract state the specification talks about, using only the
//! public read API (ReadDoc).  One function, used by every driver and replayer.
use crate::enc;
use automerge::iter::Span;
use automerge::marks::MarkSet;
use automerge::{ActorId, ChangeHash, Cursor, CursorPosition, MoveCursor, ObjId, ObjType, ReadDoc, Value};
use serde_json::{json, Value as J};
use std::collections::BTreeMap;
use std::sync::atomic::{AtomicBool, Ordering};

/// When set, sequence objects are projected with marks (marks / get_marks / spans) and cursors
/// (C24, C25, C26).  Off for the families that do not need it (keeps their traces small).
pub static RICH: AtomicBool = AtomicBool::new(false);

pub fn set_rich(on: bool) {
    RICH.store(on, Ordering::SeqCst);
}

fn markset_json(m: &MarkSet) -> J {
    let mut v: Vec<(String, J)> = m.iter().map(|(n, val)| (n.to_string(), json!({"name": enc::safe_str(n), "v": enc::scalar(val)}))).collect();
    v.sort_by(|a, b| a.0.cmp(&b.0));
    J::Array(v.into_iter().map(|x| x.1).collect())
}

/// The op id a cursor names, from its textual form ("[-]ctr@actorhex").
pub fn cursor_id(c: &Cursor) -> J {
    let s = c.to_string();
    let t = s.strip_prefix('-').unwrap_or(&s);
    if let Some((ctr, actor)) = t.split_once('@') {
        if let (Ok(ctr), Ok(a)) = (ctr.parse::<u64>(), ActorId::try_from(actor)) {
            return enc::opid(ctr, &a);
        }
    }
    match s.as_str() {
        "s" => json!([-3, -3]),
        "e" => json!([-4, -4]),
        _ => json!([-1, -1]),
    }
}

fn pos_json(r: Result<usize, automerge::AutomergeError>) -> J {
    match r {
        Ok(p) => json!(p as i64),
        Err(_) => json!(-1),
    }
}

fn rich_seq<R: ReadDoc>(doc: &R, obj: &ObjId, ty: ObjType, len: usize, heads: Option<&[ChangeHash]>, rec: &mut J) {
    // cursors at every index, both move modes, resolved immediately; start / end cursors
    let mut curs = vec![];
    for i in 0..len {
        let mut e = json!({});
        for (k, kp, mode) in [("a", "ap", MoveCursor::After), ("b", "bp", MoveCursor::Before)] {
            match doc.get_cursor_moving(obj, i, heads, mode) {
                Ok(c) => {
                    e[k] = cursor_id(&c);
                    e[kp] = pos_json(doc.get_cursor_position(obj, &c, heads));
                    // the byte and string forms must name the same cursor
                    let viab = Cursor::try_from(c.to_bytes().as_slice()).ok();
                    let vias = Cursor::try_from(c.to_string().as_str()).ok();
                    e[&format!("{}rt", k)] = json!(viab.as_ref() == Some(&c) && vias.as_ref() == Some(&c));
                }
                Err(_) => {
                    e[k] = json!([-1, -1]);
                    e[kp] = json!(-1);
                    e[&format!("{}rt", k)] = json!(false);
                }
            }
        }
        curs.push(e);
    }
    rec["curs"] = J::Array(curs);
    rec["cs"] = match doc.get_cursor(obj, CursorPosition::Start, heads) {
        Ok(c) => pos_json(doc.get_cursor_position(obj, &c, heads)),
        Err(_) => json!(-1),
    };
    rec["ce"] = match doc.get_cursor(obj, CursorPosition::End, heads) {
        Ok(c) => pos_json(doc.get_cursor_position(obj, &c, heads)),
        Err(_) => json!(-1),
    };
    // the iterator reads: list_range(..) and values()
    let lr: Vec<J> = match heads {
        Some(h) => doc.list_range_at(obj, .., h),
        None => doc.list_range(obj, ..),
    }
    .map(|it| json!({"i": it.index as i64, "id": enc::exid(&it.id()), "v": enc::value(&automerge::Value::from(it.value.clone())), "c": it.conflict}))
    .collect();
    rec["lr"] = J::Array(lr);
    let vs: Vec<J> = match heads {
        Some(h) => doc.values_at(obj, h),
        None => doc.values(obj),
    }
    .map(|(v, id)| json!({"id": enc::exid(&id), "v": enc::value(&v)}))
    .collect();
    rec["vs"] = J::Array(vs);
    // marks, three ways
    let marks = match heads {
        Some(h) => doc.marks_at(obj, h),
        None => doc.marks(obj),
    };
    match marks {
        Ok(ms) => {
            let mut v: Vec<J> = ms
                .iter()
                .map(|m| json!({"name": enc::safe_str(m.name()), "v": enc::scalar(m.value()), "s": m.start as i64, "e": m.end as i64}))
                .collect();
            v.sort_by_key(|x| x.to_string());
            rec["marks"] = J::Array(v);
        }
        Err(e) => {
            rec["marks"] = json!([{"name": format!("error {:?}", e), "v": enc::nothing(), "s": -1, "e": -1}]);
        }
    }
    let mut mat = vec![];
    for i in 0..len {
        mat.push(match doc.get_marks(obj, i, heads) {
            Ok(m) => markset_json(&m),
            Err(e) => json!([{"name": format!("error {:?}", e), "v": enc::nothing()}]),
        });
    }
    rec["mat"] = J::Array(mat);
    if ty == ObjType::Text {
        let spans = match heads {
            Some(h) => doc.spans_at(obj, h),
            None => doc.spans(obj),
        };
        match spans {
            Ok(sp) => {
                let v: Vec<J> = sp
                    .map(|s| match s {
                        Span::Text { text, marks } => json!({"t":"text","toks": enc::str_tokens(&text),
                            "marks": marks.map(|m| markset_json(&m)).unwrap_or(json!([]))}),
                        Span::Block(_) => json!({"t":"block","toks":["objrepl"],"marks":[]}),
                    })
                    .collect();
                rec["spans"] = J::Array(v);
            }
            Err(e) => {
                rec["spans"] = json!([{"t": format!("error {:?}", e), "toks": [], "marks": []}]);
            }
        }
    }
}

fn vals_at<R: ReadDoc>(
    doc: &R,
    obj: &ObjId,
    prop: automerge::Prop,
    heads: Option<&[ChangeHash]>,
    todo: &mut Vec<(ObjId, ObjType)>,
) -> (J, J) {
    let all = match heads {
        Some(h) => doc.get_all_at(obj, prop.clone(), h),
        None => doc.get_all(obj, prop.clone()),
    };
    let one = match heads {
        Some(h) => doc.get_at(obj, prop, h),
        None => doc.get(obj, prop),
    };
    let mut vs: Vec<((u64, i64), J)> = vec![];
    match all {
        Ok(all) => {
            for (v, id) in all {
                if let Value::Object(t) = &v {
                    todo.push((id.clone(), *t));
                }
                vs.push((enc::exid_key(&id), json!({"id": enc::exid(&id), "v": enc::value(&v)})));
            }
        }
        Err(e) => {
            vs.push(((u64::MAX, 0), json!({"id":[-1,-1], "v": {"k":"error","s":format!("{:?}", e),"n":0,"toks":[]}})));
        }
    }
    vs.sort_by(|a, b| a.0.cmp(&b.0));
    let win = match one {
        Ok(Some((_, id))) => enc::exid(&id),
        Ok(None) => json!([-1, -1]),
        Err(_) => json!([-2, -2]),
    };
    (win, J::Array(vs.into_iter().map(|x| x.1).collect()))
}

/// The view: list of objects reachable from the root, sorted by object id.
pub fn view<R: ReadDoc>(doc: &R, heads: Option<&[ChangeHash]>) -> J {
    let mut out: BTreeMap<(u64, i64), J> = BTreeMap::new();
    let mut todo: Vec<(ObjId, ObjType)> = vec![(ObjId::Root, ObjType::Map)];
    while let Some((obj, ty)) = todo.pop() {
        let k = enc::exid_key(&obj);
        if out.contains_key(&k) {
            continue;
        }
        let rec = match ty {
            ObjType::Map | ObjType::Table => {
                let keys: Vec<String> = match heads {
                    Some(h) => doc.keys_at(&obj, h).collect(),
                    None => doc.keys(&obj).collect(),
                };
                let mut ents = vec![];
                for key in keys {
                    let (win, vals) = vals_at(doc, &obj, key.as_str().into(), heads, &mut todo);
                    ents.push(json!({"k": enc::safe_str(&key), "win": win, "vals": vals}));
                }
                let mut rec = json!({"id": enc::exid(&obj), "ty": enc::objtype_str(ty), "ents": ents});
                if RICH.load(Ordering::SeqCst) {
                    let mr: Vec<J> = match heads {
                        Some(h) => doc.map_range_at(&obj, .., h),
                        None => doc.map_range(&obj, ..),
                    }
                    .map(|it| json!({"k": enc::safe_str(it.key.as_ref()), "id": enc::exid(&it.id()), "v": enc::value(&automerge::Value::from(it.value.clone())), "c": it.conflict}))
                    .collect();
                    rec["mr"] = J::Array(mr);
                    let vs: Vec<J> = match heads {
                        Some(h) => doc.values_at(&obj, h),
                        None => doc.values(&obj),
                    }
                    .map(|(v, id)| json!({"id": enc::exid(&id), "v": enc::value(&v)}))
                    .collect();
                    rec["vs"] = J::Array(vs);
                }
                rec
            }
            ObjType::List => {
                let len = match heads {
                    Some(h) => doc.length_at(&obj, h),
                    None => doc.length(&obj),
                };
                let mut elems = vec![];
                for i in 0..len {
                    let (win, vals) = vals_at(doc, &obj, i.into(), heads, &mut todo);
                    elems.push(json!({"win": win, "vals": vals}));
                }
                let mut rec = json!({"id": enc::exid(&obj), "ty": "list", "len": len, "elems": elems});
                if RICH.load(Ordering::SeqCst) {
                    rich_seq(doc, &obj, ty, len, heads, &mut rec);
                }
                rec
            }
            ObjType::Text => {
                let len = match heads {
                    Some(h) => doc.length_at(&obj, h),
                    None => doc.length(&obj),
                };
                let text = match heads {
                    Some(h) => doc.text_at(&obj, h),
                    None => doc.text(&obj),
                };
                let (toks, terr) = match text {
                    Ok(s) => (enc::str_tokens(&s), String::new()),
                    Err(e) => (vec![], format!("{:?}", e)),
                };
                // one entry per unit index
                let mut units = vec![];
                for i in 0..len {
                    let (win, vals) = vals_at(doc, &obj, i.into(), heads, &mut todo);
                    units.push(json!({"win": win, "vals": vals}));
                }
                let mut rec = json!({"id": enc::exid(&obj), "ty": "text", "len": len, "text": toks, "terr": terr, "units": units});
                if RICH.load(Ordering::SeqCst) {
                    rich_seq(doc, &obj, ty, len, heads, &mut rec);
                }
                rec
            }
        };
        out.insert(k, rec);
    }
    J::Array(out.into_values().collect())
}

/// C07 / C29 / C02: `hydrate` and `parents` against the other reads.  The image of the document built from keys / get /
/// length / text (at `heads`, or through the reader's own scope) must equal hydrate(ROOT, heads), and the parents()
/// path of every reachable object must lead back to the root through the registers it was reached by.
/// Returns "" or a description of the first disagreement.
pub fn hydrate_parents_disagree<R: ReadDoc>(doc: &R, heads: Option<&[ChangeHash]>) -> String {
    fn img<R: ReadDoc>(doc: &R, obj: &ObjId, ty: ObjType, heads: Option<&[ChangeHash]>, objs: &mut Vec<(ObjId, ObjId, automerge::Prop)>, depth: usize) -> J {
        if depth > 12 {
            return json!({"t":"deep"});
        }
        let val = |doc: &R, v: Value<'_>, id: ObjId, parent: &ObjId, prop: automerge::Prop, objs: &mut Vec<(ObjId, ObjId, automerge::Prop)>| -> J {
            match v {
                Value::Object(t) => {
                    objs.push((id.clone(), parent.clone(), prop));
                    img(doc, &id, t, heads, objs, depth + 1)
                }
                Value::Scalar(s) => json!({"t":"scalar","v": enc::scalar(s.as_ref())}),
            }
        };
        match ty {
            ObjType::Map | ObjType::Table => {
                let keys: Vec<String> = match heads {
                    Some(h) => doc.keys_at(obj, h).collect(),
                    None => doc.keys(obj).collect(),
                };
                let mut ents = vec![];
                for k in keys {
                    let g = match heads {
                        Some(h) => doc.get_at(obj, k.as_str(), h),
                        None => doc.get(obj, k.as_str()),
                    };
                    if let Ok(Some((v, id))) = g {
                        ents.push(json!({"k": k, "v": val(doc, v, id, obj, automerge::Prop::Map(k.clone()), objs)}));
                    }
                }
                json!({"t":"map","ents":ents})
            }
            ObjType::List => {
                let n = match heads {
                    Some(h) => doc.length_at(obj, h),
                    None => doc.length(obj),
                };
                let mut items = vec![];
                for i in 0..n {
                    let g = match heads {
                        Some(h) => doc.get_at(obj, i, h),
                        None => doc.get(obj, i),
                    };
                    if let Ok(Some((v, id))) = g {
                        items.push(val(doc, v, id, obj, automerge::Prop::Seq(i), objs));
                    }
                }
                json!({"t":"seq","items":items})
            }
            ObjType::Text => {
                let t = match heads {
                    Some(h) => doc.text_at(obj, h),
                    None => doc.text(obj),
                };
                json!({"t":"text","toks": enc::str_tokens(&t.unwrap_or_default())})
            }
        }
    }
    fn has_block(j: &J) -> bool {
        match j["t"].as_str() {
            Some("text") => j["toks"].as_array().map(|a| a.iter().any(|t| t == "objrepl")).unwrap_or(false),
            Some("map") => j["ents"].as_array().map(|a| a.iter().any(|e| has_block(&e["v"]))).unwrap_or(false),
            Some("seq") => j["items"].as_array().map(|a| a.iter().any(has_block)).unwrap_or(false),
            _ => false,
        }
    }
    let mut objs: Vec<(ObjId, ObjId, automerge::Prop)> = vec![];
    let want = img(doc, &ObjId::Root, ObjType::Map, heads, &mut objs, 0);
    match doc.hydrate(ObjId::Root, heads) {
        Ok(h) => {
            let got = crate::calls::tagged_from_hydrate(&h);
            // (texts holding block markers hydrate to a richer form: not compared)
            if got != want && !has_block(&want) {
                return format!("hydrate(ROOT) {} / image of get-keys-length-text reads {}", got.to_string().chars().take(300).collect::<String>(), want.to_string().chars().take(300).collect::<String>());
            }
        }
        Err(e) => return format!("hydrate(ROOT) failed: {:?}", e),
    }
    // parents: the first step of the path of every reached object is the register it was reached by
    for (id, parent, prop) in objs.iter().take(40) {
        let ps = match heads {
            Some(h) => doc.parents_at(id, h),
            None => doc.parents(id),
        };
        match ps {
            Ok(mut it) => match it.next() {
                Some(p) => {
                    // (in a text the index is counted in the text encoding's units; only the parent object is compared there)
                    let same_prop = p.prop == *prop || matches!(prop, automerge::Prop::Seq(_));
                    if p.obj != *parent || !same_prop || !p.visible {
                        return format!("parents({}) starts with ({}, {:?}, visible {}) but the object was reached through ({}, {:?})", id, p.obj, p.prop, p.visible, parent, prop);
                    }
                }
                None => return format!("parents({}) is empty but the object was reached through ({}, {:?})", id, parent, prop),
            },
            Err(e) => return format!("parents({}) failed: {:?}", id, e),
        }
    }
    String::new()
}

/// C29 / C02: compare the iterator reads of every reachable object (map_range, list_range, values,
/// keys, length) with get / get_all.  Returns a description of the first disagreement.
pub fn iter_reads_disagree<R: ReadDoc>(doc: &R) -> Option<String> {
    let mut todo: Vec<(ObjId, ObjType)> = vec![(ObjId::Root, ObjType::Map)];
    let mut seen: Vec<ObjId> = vec![];
    while let Some((obj, ty)) = todo.pop() {
        if seen.contains(&obj) {
            continue;
        }
        seen.push(obj.clone());
        match ty {
            ObjType::Map | ObjType::Table => {
                let keys: Vec<String> = doc.keys(&obj).collect();
                let mr: Vec<(String, String, ObjId, bool)> = doc
                    .map_range(&obj, ..)
                    .map(|it| (it.key.to_string(), format!("{:?}", automerge::Value::from(it.value.clone())), it.id(), it.conflict))
                    .collect();
                let vs: Vec<(String, ObjId)> = doc.values(&obj).map(|(v, id)| (format!("{:?}", v), id)).collect();
                if mr.len() != keys.len() || vs.len() != keys.len() {
                    return Some(format!("{}: keys {} map_range {} values {}", obj, keys.len(), mr.len(), vs.len()));
                }
                for (i, k) in keys.iter().enumerate() {
                    let one = doc.get(&obj, k.as_str()).ok().flatten();
                    let all = doc.get_all(&obj, k.as_str()).unwrap_or_default();
                    for (v, id) in &all {
                        if let Value::Object(t) = v {
                            todo.push((id.clone(), *t));
                        }
                    }
                    let Some((v, id)) = one else { return Some(format!("{}[{}]: key listed but get is None", obj, k)) };
                    let want = (k.clone(), format!("{:?}", v), id.clone(), all.len() > 1);
                    if mr[i] != want {
                        return Some(format!("{}[{}]: map_range {:?} get {:?}", obj, k, mr[i], want));
                    }
                    if vs[i] != (format!("{:?}", v), id) {
                        return Some(format!("{}[{}]: values {:?} get {:?}", obj, k, vs[i], want));
                    }
                }
            }
            ObjType::List => {
                let len = doc.length(&obj);
                let lr: Vec<(usize, String, ObjId, bool)> = doc
                    .list_range(&obj, ..)
                    .map(|it| (it.index, format!("{:?}", automerge::Value::from(it.value.clone())), it.id(), it.conflict))
                    .collect();
                let vs: Vec<(String, ObjId)> = doc.values(&obj).map(|(v, id)| (format!("{:?}", v), id)).collect();
                if lr.len() != len || vs.len() != len {
                    return Some(format!("{}: length {} list_range {} values {}", obj, len, lr.len(), vs.len()));
                }
                for i in 0..len {
                    let one = doc.get(&obj, i).ok().flatten();
                    let all = doc.get_all(&obj, i).unwrap_or_default();
                    for (v, id) in &all {
                        if let Value::Object(t) = v {
                            todo.push((id.clone(), *t));
                        }
                    }
                    let Some((v, id)) = one else { return Some(format!("{}[{}]: index below length but get is None", obj, i)) };
                    let want = (i, format!("{:?}", v), id.clone(), all.len() > 1);
                    if lr[i] != want {
                        return Some(format!("{}[{}]: list_range {:?} get {:?}", obj, i, lr[i], want));
                    }
                    if vs[i] != (format!("{:?}", v), id) {
                        return Some(format!("{}[{}]: values {:?} get {:?}", obj, i, vs[i], want));
                    }
                }
            }
            ObjType::Text => {}
        }
    }
    None
}
