//! Editing calls as data: a JSON description that can be generated at random, produced by TLC,
//! executed against any Transactable, and logged.
use crate::enc;
use crate::rng::Rng;
use automerge::marks::{ExpandMark, Mark};
use automerge::transaction::Transactable;
use automerge::{ActorId, AutomergeError, ObjId, ObjType, ReadDoc, ScalarValue};
use serde_json::{json, Value as J};

pub fn actor_from_num(n: i64) -> ActorId {
    if n >= 100_000 {
        ActorId::from(vec![(n - 100_000) as u8])
    } else if n < 256 {
        ActorId::from(vec![n as u8])
    } else {
        let level = (n / 256) as u8;
        let base = (n % 256) as u8;
        ActorId::from(vec![0x13, 0xb2, 0x23, 0x09, level, base])
    }
}

pub fn objid_from(j: &J) -> ObjId {
    let c = j[0].as_i64().unwrap_or(0);
    let a = j[1].as_i64().unwrap_or(0);
    if c == 0 {
        ObjId::Root
    } else {
        ObjId::Id(c as u64, actor_from_num(a), 0)
    }
}

pub fn scalar_from(v: &J) -> ScalarValue {
    let k = v["k"].as_str().unwrap_or("null");
    let s = v["s"].as_str().unwrap_or("");
    match k {
        "str" => {
            let toks: Vec<String> = v["toks"]
                .as_array()
                .map(|a| a.iter().filter_map(|t| t.as_str().map(String::from)).collect())
                .unwrap_or_default();
            ScalarValue::Str(enc::tokens_str(&toks).into())
        }
        "int" => ScalarValue::Int(s.parse().unwrap_or(0)),
        "uint" => ScalarValue::Uint(s.parse().unwrap_or(0)),
        "f64" => ScalarValue::F64(f64::from_bits(u64::from_str_radix(s, 16).unwrap_or(0))),
        "counter" => {
            if s.is_empty() {
                ScalarValue::counter(v["n"].as_i64().unwrap_or(0))
            } else {
                ScalarValue::counter(s.parse().unwrap_or(0))
            }
        }
        "ts" => ScalarValue::Timestamp(s.parse().unwrap_or(0)),
        "bool" => ScalarValue::Boolean(s == "true"),
        "bytes" => ScalarValue::Bytes(hex::decode(s).unwrap_or_default()),
        _ => ScalarValue::Null,
    }
}

pub fn objtype_from(s: &str) -> ObjType {
    match s {
        "map" => ObjType::Map,
        "table" => ObjType::Table,
        "list" => ObjType::List,
        _ => ObjType::Text,
    }
}

pub fn expand_from(s: &str) -> ExpandMark {
    match s {
        "both" => ExpandMark::Both,
        "before" => ExpandMark::Before,
        "after" => ExpandMark::After,
        _ => ExpandMark::None,
    }
}

pub fn err_name(e: &AutomergeError) -> String {
    let d = format!("{:?}", e);
    let end = d.find(|c: char| !(c.is_ascii_alphanumeric() || c == '_')).unwrap_or(d.len());
    format!("err:{}", &d[..end])
}

fn prop_of(call: &J) -> automerge::Prop {
    if let Some(k) = call.get("key").and_then(|k| k.as_str()) {
        automerge::Prop::Map(k.to_string())
    } else {
        automerge::Prop::Seq(call["idx"].as_u64().unwrap_or(0) as usize)
    }
}

fn done(r: Result<(), AutomergeError>) -> J {
    match r {
        Ok(()) => json!({"res":"ok","ret":[-1,-1]}),
        Err(e) => json!({"res": err_name(&e), "ret":[-1,-1]}),
    }
}

fn done_obj(r: Result<ObjId, AutomergeError>) -> J {
    match r {
        Ok(id) => json!({"res":"ok","ret": enc::exid(&id)}),
        Err(e) => json!({"res": err_name(&e), "ret":[-1,-1]}),
    }
}

/// A nested value in the tagged image form {"t": "map"|"seq"|"text"|"scalar", ...} -> hydrate::Value (C27)
pub fn hydrate_from(j: &J, enc_: automerge::TextEncoding) -> automerge::hydrate::Value {
    use automerge::hydrate::Value as HV;
    match j["t"].as_str().unwrap_or("") {
        "map" => {
            let mut m: std::collections::HashMap<String, HV> = Default::default();
            for e in j["ents"].as_array().cloned().unwrap_or_default() {
                m.insert(e["k"].as_str().unwrap_or("").to_string(), hydrate_from(&e["v"], enc_));
            }
            HV::Map(automerge::hydrate::Map::from(m))
        }
        "seq" => HV::from(j["items"].as_array().cloned().unwrap_or_default().iter().map(|x| hydrate_from(x, enc_)).collect::<Vec<_>>()),
        "text" => {
            let toks: Vec<String> = j["toks"].as_array().map(|a| a.iter().filter_map(|t| t.as_str().map(String::from)).collect()).unwrap_or_default();
            HV::text(enc_, &enc::tokens_str(&toks))
        }
        _ => HV::Scalar(scalar_from(&j["v"])),
    }
}

/// hydrate::Value -> the tagged image form (inverse of hydrate_from; map entries sorted by key)
pub fn tagged_from_hydrate(v: &automerge::hydrate::Value) -> J {
    use automerge::hydrate::Value as HV;
    match v {
        HV::Scalar(s) => json!({"t":"scalar","v": enc::scalar(s)}),
        HV::Map(m) => {
            let mut es: Vec<(String, J)> = m.iter().map(|(k, mv)| (k.clone(), tagged_from_hydrate(&mv.value))).collect();
            es.sort_by(|a, b| a.0.cmp(&b.0));
            json!({"t":"map","ents": es.into_iter().map(|(k, v)| json!({"k": k, "v": v})).collect::<Vec<_>>()})
        }
        HV::List(l) => json!({"t":"seq","items": l.iter().map(|lv| tagged_from_hydrate(&lv.value)).collect::<Vec<_>>()}),
        HV::Text(t) => json!({"t":"text","toks": enc::str_tokens(&t.to_string())}),
    }
}

/// spans in the harness form [{"t":"text","toks":[..],"marks":[{"name","v"}..]} | {"t":"block","value":<tagged map>}]
pub fn spans_from(j: &J, enc_: automerge::TextEncoding) -> Vec<automerge::iter::Span> {
    use automerge::iter::Span;
    j.as_array()
        .cloned()
        .unwrap_or_default()
        .iter()
        .map(|s| {
            if s["t"] == "block" {
                match hydrate_from(&s["value"], enc_) {
                    automerge::hydrate::Value::Map(m) => Span::Block(m),
                    _ => Span::Block(automerge::hydrate::Map::default()),
                }
            } else {
                let toks: Vec<String> = s["toks"].as_array().map(|a| a.iter().filter_map(|t| t.as_str().map(String::from)).collect()).unwrap_or_default();
                let ms: Vec<(String, ScalarValue)> = s["marks"].as_array().cloned().unwrap_or_default().iter()
                    .map(|m| (m["name"].as_str().unwrap_or("m").to_string(), scalar_from(&m["v"]))).collect();
                let marks = if ms.is_empty() { None } else { Some(std::sync::Arc::new(ms.into_iter().collect::<automerge::marks::MarkSet>())) };
                Span::Text { text: enc::tokens_str(&toks), marks }
            }
        })
        .collect()
}

pub fn spans_json<I: Iterator<Item = automerge::iter::Span>>(it: I) -> J {
    use automerge::iter::Span;
    J::Array(
        it.map(|s| match s {
            Span::Text { text, marks } => {
                let mut v: Vec<(String, J)> = marks.map(|m| m.iter().map(|(n, val)| (n.to_string(), json!({"name": enc::safe_str(n), "v": enc::scalar(val)}))).collect()).unwrap_or_default();
                v.sort_by(|a, b| a.0.cmp(&b.0));
                json!({"t":"text","toks": enc::str_tokens(&text), "marks": v.into_iter().map(|x| x.1).collect::<Vec<_>>()})
            }
            Span::Block(m) => json!({"t":"block","value": tagged_from_hydrate(&automerge::hydrate::Value::Map(m))}),
        })
        .collect(),
    )
}

pub fn rand_spans(rng: &mut Rng, prof: &Profile) -> J {
    let n = rng.below(5);
    let mut v = vec![];
    for _ in 0..n {
        if rng.chance(1, 3) {
            let ents: Vec<J> = (0..1 + rng.below(2)).map(|k| { let key = ["type", "level"][k]; json!({"k": key, "v": {"t":"scalar","v": rand_scalar(rng, prof)}}) }).collect();
            v.push(json!({"t":"block","value":{"t":"map","ents":ents}}));
        } else {
            let marks = if prof.marks && rng.chance(1, 3) { json!([{"name":"bold","v": enc::scalar(&ScalarValue::Boolean(true))}]) } else { json!([]) };
            v.push(json!({"t":"text","toks": rand_toks(rng, prof, 3), "marks": marks}));
        }
    }
    J::Array(v)
}

pub fn rand_container(rng: &mut Rng, prof: &Profile) -> J {
    loop {
        let v = rand_value(rng, prof, 0);
        if v["t"] != "scalar" {
            return v;
        }
    }
}

/// random nested value (depth <= 2, width <= 2) in the tagged image form
pub fn rand_value(rng: &mut Rng, prof: &Profile, depth: usize) -> J {
    let c = if depth >= 2 { 3 + rng.below(2) } else { rng.below(5) };
    match c {
        0 => {
            let n = rng.below(3);
            let ents: Vec<J> = (0..n).map(|k| json!({"k": KEYS[k], "v": rand_value(rng, prof, depth + 1)})).collect();
            json!({"t":"map","ents":ents})
        }
        1 => {
            let n = rng.below(3);
            json!({"t":"seq","items": (0..n).map(|_| rand_value(rng, prof, depth + 1)).collect::<Vec<_>>()})
        }
        2 => json!({"t":"text","toks": if rng.chance(1, 4) { vec![] } else { rand_toks(rng, prof, 3) }}),
        _ => json!({"t":"scalar","v": rand_scalar(rng, prof)}),
    }
}

/// Execute one call description.  Returns {"res","ret"}.
pub fn exec<T: Transactable + ReadDoc>(t: &mut T, call: &J) -> J {
    let f = call["fn"].as_str().unwrap_or("");
    let obj = objid_from(&call["obj"]);
    match f {
        "put" => done(t.put(&obj, prop_of(call), scalar_from(&call["val"]))),
        "put_object" => done_obj(t.put_object(
            &obj,
            prop_of(call),
            objtype_from(call["ty"].as_str().unwrap_or("map")),
        )),
        "insert" => done(t.insert(
            &obj,
            call["idx"].as_u64().unwrap_or(0) as usize,
            scalar_from(&call["val"]),
        )),
        "insert_object" => done_obj(t.insert_object(
            &obj,
            call["idx"].as_u64().unwrap_or(0) as usize,
            objtype_from(call["ty"].as_str().unwrap_or("map")),
        )),
        "delete" => done(t.delete(&obj, prop_of(call))),
        "increment" => done(t.increment(&obj, prop_of(call), call["by"].as_i64().unwrap_or(1))),
        "splice_text" => {
            let toks: Vec<String> = call["toks"]
                .as_array()
                .map(|a| a.iter().filter_map(|t| t.as_str().map(String::from)).collect())
                .unwrap_or_default();
            let s = enc::tokens_str(&toks);
            done(t.splice_text(
                &obj,
                call["idx"].as_u64().unwrap_or(0) as usize,
                call["del"].as_i64().unwrap_or(0) as isize,
                &s,
            ))
        }
        "splice" => {
            let vals: Vec<ScalarValue> = call["vals"]
                .as_array()
                .map(|a| a.iter().map(scalar_from).collect())
                .unwrap_or_default();
            done(t.splice(
                &obj,
                call["idx"].as_u64().unwrap_or(0) as usize,
                call["del"].as_i64().unwrap_or(0) as isize,
                vals.into_iter().map(automerge::hydrate::Value::from),
            ))
        }
        "mark" => {
            let m = Mark::new(
                call["name"].as_str().unwrap_or("m").to_string(),
                scalar_from(&call["val"]),
                call["start"].as_u64().unwrap_or(0) as usize,
                call["end"].as_u64().unwrap_or(0) as usize,
            );
            done(t.mark(&obj, m, expand_from(call["expand"].as_str().unwrap_or("none"))))
        }
        "unmark" => done(t.unmark(
            &obj,
            call["name"].as_str().unwrap_or("m"),
            call["start"].as_u64().unwrap_or(0) as usize,
            call["end"].as_u64().unwrap_or(0) as usize,
            expand_from(call["expand"].as_str().unwrap_or("none")),
        )),
        "update_text" => {
            let toks: Vec<String> = call["toks"].as_array().map(|a| a.iter().filter_map(|t| t.as_str().map(String::from)).collect()).unwrap_or_default();
            done(t.update_text(&obj, enc::tokens_str(&toks)))
        }
        "split_block" => done_obj(t.split_block(&obj, call["idx"].as_u64().unwrap_or(0) as usize)),
        "join_block" => done(t.join_block(&obj, call["idx"].as_u64().unwrap_or(0) as usize)),
        "replace_block" => done_obj(t.replace_block(&obj, call["idx"].as_u64().unwrap_or(0) as usize)),
        "update_spans" => {
            let spans = spans_from(&call["spans"], t.text_encoding());
            let r = t.update_spans(&obj, automerge::marks::UpdateSpansConfig::default(), spans);
            let mut out = done(r);
            out["got"] = match t.spans(&obj) {
                Ok(sp) => spans_json(sp),
                Err(e) => json!([{"t": format!("error {:?}", e), "toks": [], "marks": []}]),
            };
            out
        }
        "update_object" => {
            let v = hydrate_from(&call["value"], t.text_encoding());
            match t.update_object(&obj, &v) {
                Ok(()) => json!({"res":"ok","ret":[-1,-1]}),
                Err(e) => {
                    let d = format!("{:?}", e);
                    let end = d.find(|c: char| !(c.is_ascii_alphanumeric() || c == '_')).unwrap_or(d.len());
                    json!({"res": format!("err:{}", &d[..end]), "ret":[-1,-1]})
                }
            }
        }
        "batch_create" => {
            let v = hydrate_from(&call["value"], t.text_encoding());
            done_obj(t.batch_create_object(&obj, prop_of(call), &v, call["insert"].as_bool().unwrap_or(false)))
        }
        "init_root" => {
            match hydrate_from(&call["value"], t.text_encoding()) {
                automerge::hydrate::Value::Map(m) => done(t.init_root_from_hydrate(&m)),
                _ => json!({"res":"harness:not_a_map","ret":[-1,-1]}),
            }
        }
        "splice_values" => {
            let vals: Vec<automerge::hydrate::Value> = call["values"].as_array().map(|a| a.iter().map(|x| hydrate_from(x, t.text_encoding())).collect()).unwrap_or_default();
            done(t.splice(&obj, call["idx"].as_u64().unwrap_or(0) as usize, call["del"].as_i64().unwrap_or(0) as isize, vals))
        }
        _ => json!({"res":"harness:unknown_fn","ret":[-1,-1]}),
    }
}

/// What kinds of calls a random program may contain.
#[derive(Clone, Debug)]
pub struct Profile {
    pub maps: bool,
    pub lists: bool,
    pub texts: bool,
    pub counters: bool,
    pub marks: bool,
    pub nested: bool,
    /// probability (out of 100) of generating a deliberately invalid call
    pub invalid_pct: u64,
    pub unicode: bool,
    pub max_objs: usize,
    pub max_len: usize,
    /// number of distinct map keys used (1..=3)
    pub nkeys: usize,
    /// concentrate on register conflicts: counters, increments, overwrites, deletes
    pub counter_heavy: bool,
    /// text alphabet includes combining marks / ZWJ / variation selectors (grapheme clusters of
    /// several code points)
    pub combining: bool,
    /// half of the scalar values are strings (C40)
    pub stringy: bool,
    /// programs also use the reconciliation / bulk construction calls (C27)
    pub bulk: bool,
    /// ... including update_spans with block markers
    pub spans: bool,
    /// text programs also overwrite single characters with put(text, i, "c") (conflicting values on
    /// one text element) and embed objects (C24)
    pub text_puts: bool,
}

impl Profile {
    pub fn all() -> Self {
        Profile {
            maps: true,
            lists: true,
            texts: true,
            counters: true,
            marks: false,
            nested: true,
            invalid_pct: 0,
            unicode: false,
            max_objs: 5,
            max_len: 8,
            nkeys: 3,
            counter_heavy: false,
            combining: false,
            stringy: false,
            bulk: false,
            spans: false,
            text_puts: false,
        }
    }
    pub fn graph() -> Self {
        Profile { texts: false, nested: false, ..Profile::all() }
    }
}

const KEYS: [&str; 3] = ["k1", "k2", "k3"];

pub fn rand_scalar(rng: &mut Rng, prof: &Profile) -> J {
    if prof.stringy && rng.chance(1, 2) {
        return enc::scalar(&ScalarValue::Str(["x", "y", "zz", "", "\u{e9}\u{1f600}"][rng.below(5)].into()));
    }
    let n = rng.below(if prof.counters { 7 } else { 6 });
    match n {
        0 | 1 => enc::scalar(&ScalarValue::Int(rng.below(4) as i64)),
        2 => enc::scalar(&ScalarValue::Str(["x", "y", "zz"][rng.below(3)].into())),
        3 => enc::scalar(&ScalarValue::Boolean(rng.chance(1, 2))),
        4 => enc::scalar(&ScalarValue::Null),
        5 => enc::scalar(&ScalarValue::Uint(rng.below(3) as u64)),
        _ => enc::scalar(&ScalarValue::counter(rng.below(5) as i64)),
    }
}

const ASCII_TOKS: [&str; 3] = ["a", "b", "c"];
const UNI_TOKS: [&str; 8] = ["a", "b", "eacute", "euro", "grin", "woman", "a", "b"];
const COMB_TOKS: [&str; 8] = ["a", "e", "cacute", "woman", "zwj", "laptop", "vs16", "grin"];

pub fn rand_toks(rng: &mut Rng, prof: &Profile, maxn: usize) -> Vec<String> {
    let n = 1 + rng.below(maxn.max(1));
    (0..n)
        .map(|_| {
            if prof.combining {
                COMB_TOKS[rng.below(COMB_TOKS.len())].to_string()
            } else if prof.unicode {
                UNI_TOKS[rng.below(UNI_TOKS.len())].to_string()
            } else {
                ASCII_TOKS[rng.below(ASCII_TOKS.len())].to_string()
            }
        })
        .collect()
}

fn rand_objtype(rng: &mut Rng, prof: &Profile) -> &'static str {
    let mut c = vec![];
    if prof.maps {
        c.push("map");
    }
    if prof.lists {
        c.push("list");
    }
    if prof.texts {
        c.push("text");
    }
    if c.is_empty() {
        "map"
    } else {
        c[rng.below(c.len())]
    }
}

/// Generate a random call against the objects of `view` (the projection of the current state
/// as seen by the transaction).
pub fn gen(rng: &mut Rng, view: &J, prof: &Profile) -> J {
    let objs = view.as_array().cloned().unwrap_or_default();
    let nobjs = objs.len();
    // prefer non-root objects a bit so lists/texts get exercised
    let o = if nobjs > 1 && rng.chance(2, 3) { &objs[1 + rng.below(nobjs - 1)] } else { &objs[0] };
    let ty = o["ty"].as_str().unwrap_or("map");
    let id = o["id"].clone();
    if prof.invalid_pct > 0 && rng.chance(prof.invalid_pct, 100) {
        // deliberately invalid (or boundary) arguments
        let len = o["len"].as_u64().unwrap_or(0) as usize;
        let bad_idx = *rng.pick(&[len, len + 1, len + 7, 1_000_000usize]);
        let v = rand_scalar(rng, prof);
        return match (ty, rng.below(9)) {
            (_, 0) => json!({"fn":"put","obj":[99, 1],"key":"k1","val":v}),
            ("map", 1) | ("table", 1) => json!({"fn":"put","obj":id,"idx":0,"val":v}),
            ("map", 2) | ("table", 2) => json!({"fn":"insert","obj":id,"idx":0,"val":v}),
            ("map", 3) | ("table", 3) => json!({"fn":"increment","obj":id,"key":KEYS[rng.below(3)],"by":1}),
            ("map", 4) | ("table", 4) => json!({"fn":"splice","obj":id,"idx":0,"del":0,"vals":[v]}),
            ("map", _) | ("table", _) => json!({"fn":"delete","obj":id,"key":"nokey"}),
            ("list", 1) => json!({"fn":"put","obj":id,"key":"k1","val":v}),
            ("list", 2) => json!({"fn":"insert","obj":id,"idx":bad_idx.max(len + 1),"val":v}),
            ("list", 3) => json!({"fn":"put","obj":id,"idx":bad_idx,"val":v}),
            ("list", 4) => json!({"fn":"delete","obj":id,"idx":bad_idx}),
            ("list", 5) => json!({"fn":"increment","obj":id,"idx":rng.below(len + 1),"by":1}),
            ("list", 6) => json!({"fn":"splice","obj":id,"idx":rng.below(len + 1),"del":-(1 + rng.below(len + 2) as i64),"vals":[v]}),
            ("list", 7) => json!({"fn":"splice","obj":id,"idx":rng.below(len + 3),"del":(rng.below(len + 3)) as i64,"vals":[]}),
            ("list", _) => json!({"fn":"splice","obj":id,"idx":len + 1 + rng.below(3),"del":0,"vals":[v]}),
            (_, 1) => json!({"fn":"splice_text","obj":id,"idx":len + 1 + rng.below(3),"del":0,"toks":["a"]}),
            (_, 2) => json!({"fn":"splice_text","obj":id,"idx":rng.below(len + 1),"del":-(1 + rng.below(len + 2) as i64),"toks":["b"]}),
            (_, 3) => json!({"fn":"splice_text","obj":id,"idx":rng.below(len + 3),"del":(rng.below(len + 3)) as i64,"toks":[]}),
            (_, 4) => json!({"fn":"put","obj":id,"key":"k1","val":v}),
            (_, 5) => json!({"fn":"delete","obj":id,"idx":bad_idx}),
            (_, 6) if prof.marks => json!({"fn":"mark","obj":id,"start":rng.below(len + 1),"end":len + 1 + rng.below(3),"name":"bold","val":v,"expand":"both"}),
            (_, 7) if prof.marks && len > 1 => json!({"fn":"mark","obj":id,"start":1 + rng.below(len),"end":0,"name":"bold","val":v,"expand":"none"}),
            (_, _) => json!({"fn":"increment","obj":id,"idx":rng.below(len + 1),"by":1}),
        };
    }
    let can_make = prof.nested && nobjs < prof.max_objs;
    if prof.bulk && rng.chance(1, 2) {
        let len = o["len"].as_u64().unwrap_or(0) as usize;
        return match ty {
            // block markers directly (C03: split / join block), at valid and invalid positions
            "text" if prof.spans && rng.chance(if o["text"].as_array().map(|a| a.iter().any(|t| t.as_str() == Some("objrepl"))).unwrap_or(false) { 3 } else { 2 }, 5) => {
                let blocks: Vec<usize> = o["text"].as_array().map(|a| a.iter().enumerate().filter(|(_, t)| t.as_str() == Some("objrepl")).map(|(i, _)| i).collect()).unwrap_or_default();
                let at_block = !blocks.is_empty() && rng.chance(2, 3);
                let idx = if at_block { blocks[rng.below(blocks.len())] } else { rng.below(len + 2) };
                match rng.below(4) {
                    0 | 1 => json!({"fn":"split_block","obj":id,"idx":rng.below(len + 2)}),
                    2 => json!({"fn":"join_block","obj":id,"idx":idx}),
                    _ => json!({"fn":"replace_block","obj":id,"idx":idx}),
                }
            }
            "text" if prof.spans && rng.chance(1, 2) => json!({"fn":"update_spans","obj":id,"spans": rand_spans(rng, prof)}),
            "text" => json!({"fn":"update_text","obj":id,"toks": if rng.chance(1, 6) { vec![] } else { rand_toks(rng, prof, 5) }}),
            "list" => match rng.below(4) {
                0 => json!({"fn":"update_object","obj":id,"value":{"t":"seq","items": (0..rng.below(4)).map(|_| rand_value(rng, prof, 1)).collect::<Vec<_>>()}}),
                1 if len < prof.max_len => json!({"fn":"batch_create","obj":id,"idx":rng.below(len + 1),"insert":true,"value":rand_container(rng, prof)}),
                2 if len > 0 => json!({"fn":"batch_create","obj":id,"idx":rng.below(len),"insert":false,"value":rand_container(rng, prof)}),
                _ => json!({"fn":"splice_values","obj":id,"idx":rng.below(len + 1),"del":0,"values":(0..1 + rng.below(2)).map(|_| rand_value(rng, prof, 1)).collect::<Vec<_>>()}),
            },
            _ => match rng.below(4) {
                3 if id[0].as_i64() == Some(0) => json!({"fn":"init_root","obj":id,"value":{"t":"map","ents": (0..1 + rng.below(2)).map(|k| json!({"k": KEYS[k], "v": rand_value(rng, prof, 1)})).collect::<Vec<_>>()}}),
                0 => json!({"fn":"update_object","obj":id,"value":{"t":"map","ents": (0..rng.below(3)).map(|k| json!({"k": KEYS[k], "v": rand_value(rng, prof, 1)})).collect::<Vec<_>>()}}),
                _ => json!({"fn":"batch_create","obj":id,"key":KEYS[rng.below(prof.nkeys.clamp(1, 3))],"insert":false,"value":rand_container(rng, prof)}),
            },
        };
    }
    match ty {
        "map" | "table" => {
            let key = KEYS[rng.below(prof.nkeys.clamp(1, 3))];
            if prof.counter_heavy {
                return match rng.below(20) {
                    0..=4 => json!({"fn":"put","obj":id,"key":key,"val":rand_scalar(rng, prof)}),
                    5..=9 => json!({"fn":"put","obj":id,"key":key,"val":enc::scalar(&ScalarValue::counter(rng.below(4) as i64))}),
                    10..=15 => json!({"fn":"increment","obj":id,"key":key,"by":1 + rng.below(3) as i64}),
                    _ => json!({"fn":"delete","obj":id,"key":key}),
                };
            }
            let isroot = id[0].as_i64() == Some(0);
            let mk = (isroot && nobjs < prof.max_objs && (prof.lists || prof.texts || prof.nested))
                || can_make;
            match rng.below(10) {
                0..=3 => json!({"fn":"put","obj":id,"key":key,"val":rand_scalar(rng, prof)}),
                4 | 5 if mk => json!({"fn":"put_object","obj":id,"key":key,"ty":rand_objtype(rng, prof)}),
                4 | 5 => json!({"fn":"put","obj":id,"key":key,"val":rand_scalar(rng, prof)}),
                6 | 7 => json!({"fn":"delete","obj":id,"key":key}),
                _ if prof.counters => json!({"fn":"increment","obj":id,"key":key,"by":1 + rng.below(3) as i64}),
                _ => json!({"fn":"put","obj":id,"key":key,"val":rand_scalar(rng, prof)}),
            }
        }
        "list" => {
            let len = o["len"].as_u64().unwrap_or(0) as usize;
            let full = len >= prof.max_len;
            if prof.counter_heavy && len > 0 {
                let idx = rng.below(len);
                return match rng.below(20) {
                    0..=3 => json!({"fn":"put","obj":id,"idx":idx,"val":rand_scalar(rng, prof)}),
                    4..=8 => json!({"fn":"put","obj":id,"idx":idx,"val":enc::scalar(&ScalarValue::counter(rng.below(4) as i64))}),
                    9..=14 => json!({"fn":"increment","obj":id,"idx":idx,"by":1 + rng.below(3) as i64}),
                    15..=16 if len > 1 => json!({"fn":"delete","obj":id,"idx":idx}),
                    _ if !full => json!({"fn":"insert","obj":id,"idx":rng.below(len + 1),"val":enc::scalar(&ScalarValue::counter(rng.below(3) as i64))}),
                    _ => json!({"fn":"put","obj":id,"idx":idx,"val":rand_scalar(rng, prof)}),
                };
            }
            let c = rng.below(10);
            if len == 0 || (c <= 3 && !full) {
                let idx = rng.below(len + 1);
                if can_make && rng.chance(1, 6) {
                    json!({"fn":"insert_object","obj":id,"idx":idx,"ty":rand_objtype(rng, prof)})
                } else {
                    json!({"fn":"insert","obj":id,"idx":idx,"val":rand_scalar(rng, prof)})
                }
            } else if c <= 5 {
                json!({"fn":"put","obj":id,"idx":rng.below(len),"val":rand_scalar(rng, prof)})
            } else if c <= 7 {
                json!({"fn":"delete","obj":id,"idx":rng.below(len)})
            } else if c == 8 && prof.counters {
                json!({"fn":"increment","obj":id,"idx":rng.below(len),"by":1 + rng.below(3) as i64})
            } else {
                let idx = rng.below(len + 1);
                let del = rng.below((len - idx).min(2) + 1) as i64;
                let n = if full { 0 } else { rng.below(3) };
                let vals: Vec<J> = (0..n).map(|_| rand_scalar(rng, prof)).collect();
                json!({"fn":"splice","obj":id,"idx":idx,"del":del,"vals":vals})
            }
        }
        _ => {
            // text: indexes are generated at element boundaries from the logged units
            let len = o["len"].as_u64().unwrap_or(0) as usize;
            let full = len >= prof.max_len;
            let c = rng.below(10);
            // element boundaries (unit indexes at which an element starts), when the rich
            // projection tells us; otherwise every unit index
            let mut starts: Vec<usize> = vec![];
            if let Some(cs) = o.get("curs").and_then(|c| c.as_array()) {
                for i in 0..cs.len() {
                    if i == 0 || cs[i]["a"] != cs[i - 1]["a"] {
                        starts.push(i);
                    }
                }
            } else {
                starts = (0..len).collect();
            }
            starts.push(len);
            let aligned = |rng: &mut Rng, lo: usize| -> usize {
                let c: Vec<usize> = starts.iter().cloned().filter(|x| *x >= lo).collect();
                if c.is_empty() || rng.chance(1, 8) { lo + rng.below(len + 1 - lo.min(len)) } else { c[rng.below(c.len())] }
            };
            if prof.text_puts && len > 0 && rng.chance(if prof.max_len <= 5 { 3 } else { 1 }, 5) {
                let i = aligned(rng, 0).min(len - 1);
                return match rng.below(6) {
                    0 if !full => json!({"fn":"insert_object","obj":id,"idx":i,"ty":"map"}),
                    1 => json!({"fn":"delete","obj":id,"idx":i}),
                    _ => {
                        let t = rand_toks(rng, prof, 1);
                        json!({"fn":"put","obj":id,"idx":i,"val":enc::scalar(&ScalarValue::Str(enc::tokens_str(&t).into()))})
                    }
                };
            }
            if prof.marks && len > 0 && c >= 7 {
                let s = aligned(rng, 0).min(len - 1);
                let e = aligned(rng, s + 1).max(s + 1).min(len);
                let name = ["bold", "link"][rng.below(2)];
                let expand = ["both", "none", "before", "after"][rng.below(4)];
                if rng.chance(1, 4) {
                    json!({"fn":"unmark","obj":id,"start":s,"end":e,"name":name,"expand":expand})
                } else {
                    let val = if rng.chance(1, 5) { enc::scalar(&ScalarValue::Null) } else { enc::scalar(&ScalarValue::Int(rng.below(3) as i64)) };
                    json!({"fn":"mark","obj":id,"start":s,"end":e,"name":name,"val":val,"expand":expand})
                }
            } else {
                let idx = aligned(rng, 0).min(len);
                let del = if len > idx && rng.chance(1, 3) { (aligned(rng, idx + 1).min(len) - idx).min(3) as i64 } else { 0 };
                let toks = if full || (del > 0 && rng.chance(1, 2)) { vec![] } else { rand_toks(rng, prof, 3) };
                json!({"fn":"splice_text","obj":id,"idx":idx,"del":del,"toks":toks})
            }
        }
    }
}
