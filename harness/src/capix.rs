//! C36: turns Doc.tla behaviours (list variant) into programs for capi/driver.c and the observation lines the
//! Rust API gives for the same operations.  The C side works on `AutoCommit` documents, so does this mirror.
//! Position conventions of the C layer that have no Rust counterpart (SIZE_MAX = last / one past last, positions
//! beyond the end are errors) are taken from the documentation in automerge-c's header, not from its code.
use crate::{calls, enc};
use automerge::marks::{ExpandMark, Mark};
use automerge::sync::{self, SyncDoc};
use automerge::transaction::{CommitOptions, Transactable};
use automerge::{ActorId, AutoCommit, Change, ChangeHash, ObjId, ObjType, ReadDoc, ScalarValue, Value, ROOT};
use serde_json::{json, Value as J};
use std::collections::BTreeMap;
use std::fmt::Write as _;

fn hexs(b: &[u8]) -> String {
    hex::encode(b)
}

fn sitem(s: &ScalarValue) -> String {
    match s {
        ScalarValue::Int(i) => format!("i:{}", i),
        ScalarValue::Uint(i) => format!("u:{}", i),
        ScalarValue::Counter(c) => format!("c:{}", i64::from(c)),
        ScalarValue::Boolean(b) => format!("b:{}", *b as i32),
        ScalarValue::Null => "n".into(),
        ScalarValue::Str(s) => format!("s:{}", s),
        ScalarValue::Bytes(b) => format!("y:{}", hexs(b)),
        ScalarValue::Timestamp(t) => format!("t:{}", t),
        _ => "?".into(),
    }
}

fn item(v: &Value<'_>) -> String {
    match v {
        Value::Object(_) => "o".into(),
        Value::Scalar(s) => sitem(s.as_ref()),
    }
}

fn commit(d: &mut AutoCommit) -> Option<ChangeHash> {
    d.commit_with(CommitOptions::default().with_time(0))
}

fn heads(d: &mut AutoCommit) -> String {
    d.get_heads().iter().map(|h| hexs(h.as_ref())).collect::<Vec<_>>().join(",")
}

fn okerr<T, E>(r: &Result<T, E>) -> &'static str {
    if r.is_ok() {
        "ok"
    } else {
        "err"
    }
}

fn text_of(d: &AutoCommit) -> Option<ObjId> {
    match d.get(ROOT, "t") {
        Ok(Some((Value::Object(ObjType::Text), t))) => Some(t),
        _ => None,
    }
}

fn list_of(d: &AutoCommit) -> Option<ObjId> {
    match d.get(ROOT, "l") {
        Ok(Some((Value::Object(_), l))) => Some(l),
        _ => None,
    }
}

/// `pos` convention of the C list calls: SIZE_MAX means the last item (or one past it when inserting); any other
/// position beyond that is an error; an empty list can only be inserted into.
fn adjust(pos: usize, insert: bool, len: usize) -> Option<(usize, bool)> {
    let insert = insert || len == 0;
    let end = if insert { len } else { len - 1 };
    if pos > end && pos != usize::MAX {
        None
    } else {
        Some((pos.min(end), insert))
    }
}

fn lput<V: Into<ScalarValue>>(d: &mut AutoCommit, l: &ObjId, pos: usize, insert: bool, v: V) -> &'static str {
    match adjust(pos, insert, d.length(l)) {
        None => "err",
        Some((p, true)) => okerr(&d.insert(l, p, v)),
        Some((p, false)) => okerr(&d.put(l, p, v)),
    }
}

pub struct Mirror {
    pub reps: BTreeMap<i64, AutoCommit>,
    pub base_heads: Vec<ChangeHash>,
}

impl Mirror {
    pub fn obs(&mut self, r: i64) -> String {
        let bh = self.base_heads.clone();
        let d = self.reps.get_mut(&r).unwrap();
        let mut o = String::new();
        write!(o, "O {} heads={} save={}", r, heads(d), hexs(&d.save())).unwrap();
        for k in d.keys(ROOT) {
            let all = d.get_all(ROOT, k.as_str()).unwrap_or_default();
            write!(o, " {}=[{}]#{}", k, all.iter().map(|(v, _)| item(v)).collect::<Vec<_>>().join("|"), all.len()).unwrap();
        }
        if let Some(l) = list_of(d) {
            let n = d.length(&l);
            let vals: Vec<String> = d.list_range(&l, ..).map(|it| item(&Value::from(it.value.clone()))).collect();
            write!(o, " l{}=[{}]", n, vals.join(",")).unwrap();
            for i in 0..n {
                write!(o, "/{}", d.get_all(&l, i).map(|a| a.len()).unwrap_or(0)).unwrap();
            }
            // historical reads at the heads of the base change: the list had two elements then
            if !bh.is_empty() {
                let nh = d.length_at(&l, &bh);
                write!(o, " H{}=[", nh).unwrap();
                for i in 0..nh {
                    match d.get_at(&l, i, &bh) {
                        Ok(Some((v, _))) => write!(o, "{};", item(&v)).unwrap(),
                        Ok(None) => write!(o, "v;").unwrap(),
                        Err(_) => write!(o, "err;").unwrap(),
                    }
                }
                let hv: Vec<String> = d.list_range_at(&l, .., &bh).map(|it| item(&Value::from(it.value.clone()))).collect();
                write!(o, "]{}", hv.join(",")).unwrap();
                let ga = d.get_all_at(&l, 0, &bh).map(|a| a.len()).unwrap_or(0);
                let k1 = d.get_all_at(ROOT, "k1", &bh).map(|a| a.len()).unwrap_or(0);
                write!(o, "/{}/{}/{}", ga, k1, d.keys_at(ROOT, &bh).count()).unwrap();
            }
        }
        if let Some(t) = text_of(d) {
            let n = d.length(&t);
            write!(o, " t{}={}", n, d.text(&t).map(|s| hexs(s.as_bytes())).unwrap_or("err".into())).unwrap();
            for i in 0..n {
                write!(o, "/{}", d.get_all(&t, i).map(|a| a.len()).unwrap_or(0)).unwrap();
            }
            if !bh.is_empty() {
                write!(o, " tH{}={}", d.length_at(&t, &bh), d.text_at(&t, &bh).map(|s| hexs(s.as_bytes())).unwrap_or("err".into())).unwrap();
            }
        }
        o
    }

    pub fn scal(&mut self, r: i64) -> String {
        let d = self.reps.get_mut(&r).unwrap();
        let rs = [
            okerr(&d.put(ROOT, "sb", true)),
            okerr(&d.put(ROOT, "sy", ScalarValue::Bytes(vec![0, 1, 255]))),
            okerr(&d.put(ROOT, "sn", ScalarValue::Null)),
            okerr(&d.put(ROOT, "ss", "h\u{e9}llo")),
            okerr(&d.put(ROOT, "st", ScalarValue::Timestamp(-5))),
            okerr(&d.put(ROOT, "su", ScalarValue::Uint(9223372036854775809))),
        ];
        commit(d);
        let own = match d.get(ROOT, "ss") {
            Ok(Some((v, _))) => item(&v),
            _ => "v".into(),
        };
        format!("K {} own={} eq=1 eq2=1 cat=2", rs.join(" "), own)
    }

    fn marks_str(d: &AutoCommit, t: &ObjId, at: Option<&[ChangeHash]>) -> String {
        let ms = match at {
            None => d.marks(t),
            Some(h) => d.marks_at(t, h),
        };
        match ms {
            Err(_) => "err".into(),
            Ok(ms) => ms.iter().map(|m| format!("{}:{}:{}:{}", m.name(), m.start, m.end, sitem(m.value()))).collect::<Vec<_>>().join(","),
        }
    }

    pub fn text(&mut self, r: i64, q: &[usize; 10]) -> String {
        let d = self.reps.get_mut(&r).unwrap();
        let hb = d.get_heads();
        let t = d.put_object(ROOT, "t", ObjType::Text).unwrap();
        let mut o = String::from("T");
        write!(o, " {}", okerr(&d.splice_text(&t, 0, 0, "hello w\u{f6}rld"))).unwrap();
        // (a position beyond the end is an error by the C convention, and by the Rust API as well)
        write!(o, " {}", if q[0] > d.length(&t) { "err" } else { okerr(&d.splice_text(&t, q[0], q[1] as isize, "XY")) }).unwrap();
        commit(d);
        let hm = d.get_heads();
        // SIZE_MAX: the end of the text; beyond the end: an error
        let len = d.length(&t);
        write!(o, " {}", okerr(&d.splice_text(&t, len, 0, "!"))).unwrap();
        write!(o, " err").unwrap();
        let ex = [ExpandMark::None, ExpandMark::Before, ExpandMark::After, ExpandMark::Both][q[8] % 4];
        write!(o, " {}", okerr(&d.mark(&t, Mark::new("bold".into(), true, q[2], q[3]), ExpandMark::Both))).unwrap();
        write!(o, " {}", okerr(&d.mark(&t, Mark::new("size".into(), 7i64, q[4], q[5]), ex))).unwrap();
        write!(o, " {}", okerr(&d.unmark(&t, "bold", q[6], q[7], ExpandMark::Both))).unwrap();
        write!(o, " {}", okerr(&d.mark(&t, Mark::new("rev".into(), 7i64, 4, 2), ExpandMark::None))).unwrap();
        commit(d);
        match d.text(&t) {
            Ok(s) => write!(o, " text={}", s).unwrap(),
            Err(_) => write!(o, " text=err").unwrap(),
        }
        write!(o, " len={} type=3 marks={}", d.length(&t), Self::marks_str(d, &t, None)).unwrap();
        match d.text_at(&t, &hm) {
            Ok(s) => write!(o, " then={}", s).unwrap(),
            Err(_) => write!(o, " then=err").unwrap(),
        }
        write!(o, " lenthen={} lenbefore={} marksthen={}", d.length_at(&t, &hm), d.length_at(&t, &hb), Self::marks_str(d, &t, Some(&hm))).unwrap();
        match d.get_cursor(&t, q[9], None) {
            Ok(c) => {
                write!(o, " cur={}", c).unwrap();
                match d.get_cursor_position(&t, &c, None) {
                    Ok(p) => write!(o, " pos=u:{}", p).unwrap(),
                    Err(_) => write!(o, " pos=err").unwrap(),
                }
                match automerge::Cursor::try_from(c.to_string()) {
                    Ok(c2) => write!(o, " cureq={}", (c2 == c) as i32).unwrap(),
                    Err(_) => write!(o, " cureq=err").unwrap(),
                }
                write!(o, " curbytes={}", okerr(&automerge::Cursor::try_from(c.to_bytes()))).unwrap();
                write!(o, " {}", okerr(&d.splice_text(&t, 0, 0, "ab"))).unwrap();
                commit(d);
                match d.get_cursor_position(&t, &c, None) {
                    Ok(p) => write!(o, " pos2=u:{}", p).unwrap(),
                    Err(_) => write!(o, " pos2=err").unwrap(),
                }
            }
            Err(_) => write!(o, " cur=err").unwrap(),
        }
        write!(o, " curfar={}", okerr(&d.get_cursor(&t, 700, None))).unwrap();
        o
    }

    pub fn chg(&mut self, r: i64) -> String {
        let d = self.reps.get_mut(&r).unwrap();
        let cs: Vec<Change> = d.get_changes(&[]).into_iter().collect();
        let mut o = format!("C n={}", cs.len());
        for c in &cs {
            let back = Change::from_bytes(c.raw_bytes().to_vec());
            write!(
                o,
                " {}:{}:{}:{}:{}:{}:{}:{}:{}:{}:{}:{}:{}",
                hexs(c.hash().as_ref()),
                c.seq(),
                c.actor_id().to_hex_string(),
                c.start_op(),
                c.max_op(),
                c.timestamp(),
                c.len(),
                c.deps().len(),
                c.message().map(|m| m.len()).unwrap_or(0),
                c.raw_bytes().len(),
                c.extra_bytes().len(),
                c.is_empty() as i32,
                match back {
                    Ok(b) => ((b.hash() == c.hash()) as i32).to_string(),
                    Err(_) => "err".into(),
                }
            )
            .unwrap();
        }
        match d.get_last_local_change() {
            Some(c) => write!(o, " last={}", hexs(c.hash().as_ref())).unwrap(),
            None => write!(o, " last=none").unwrap(),
        }
        if let Some(f) = cs.first() {
            match d.get_change_by_hash(&f.hash()) {
                Some(c) => write!(o, " byhash={}", c.seq()).unwrap(),
                None => write!(o, " byhash=none").unwrap(),
            }
        }
        let fake = ChangeHash([0xab; 32]);
        write!(o, " missing=").unwrap();
        for h in d.get_missing_deps(&[fake]) {
            write!(o, "h:{};", hexs(h.as_ref())).unwrap();
        }
        write!(o, " nohash={}", if d.get_change_by_hash(&fake).is_none() { "v" } else { "some" }).unwrap();
        o
    }

    pub fn apply(&mut self, r: i64) -> String {
        let d = self.reps.get_mut(&r).unwrap();
        let mut n = AutoCommit::new().with_actor(ActorId::from(vec![77u8]));
        let cs: Vec<Change> = d.get_changes(&[]).into_iter().collect();
        let mut o = format!("A {}", okerr(&n.apply_changes(cs)));
        write!(o, " eq={} heads={}", (n.get_heads() == d.get_heads() && same_state(&mut n, d)) as i32, heads(&mut n)).unwrap();
        let sb = d.save();
        match AutoCommit::load(&sb) {
            Ok(mut l) => write!(o, " loadeq={}", same_state(&mut l, d) as i32).unwrap(),
            Err(_) => write!(o, " load=err").unwrap(),
        }
        let mut e = AutoCommit::new().with_actor(ActorId::from(vec![77u8]));
        match e.load_incremental(&sb) {
            Ok(k) => write!(o, " inc=u:{}", k).unwrap(),
            Err(_) => write!(o, " inc=err").unwrap(),
        }
        write!(o, " inceq={}", same_state(&mut e, d) as i32).unwrap();
        write!(o, " saveinc={}", d.save_incremental().len()).unwrap();
        write!(o, " added={}", n.get_changes_added(d).len()).unwrap();
        let cut = if sb.len() > 9 { sb.len() - 9 } else { 0 };
        write!(o, " trunc={}", okerr(&AutoCommit::load(&sb[..cut]))).unwrap();
        o
    }

    pub fn fork(&mut self, r: i64) -> String {
        let d = self.reps.get_mut(&r).unwrap();
        let hb = d.get_heads();
        let _ = d.put(ROOT, "fa", 1i64);
        commit(d);
        let mut f = d.fork();
        f.set_actor(ActorId::from(vec![0x63u8]));
        let mut o = format!("F ok actor={} cmp=0", f.get_actor().to_hex_string());
        write!(o, " {}", okerr(&f.put(ROOT, "fk", 5i64))).unwrap();
        match f.commit_with(CommitOptions::default().with_time(0).with_message("forked".to_string())) {
            Some(h) => write!(o, " commit=h:{}", hexs(h.as_ref())).unwrap(),
            None => write!(o, " commit=v").unwrap(),
        }
        match d.fork_at(&hb) {
            Ok(mut f2) => {
                f2.set_actor(ActorId::from(vec![0x64u8]));
                let g = match f2.get(ROOT, "fa") {
                    Ok(Some((v, _))) => item(&v),
                    Ok(None) => "v".into(),
                    Err(_) => "err".into(),
                };
                write!(o, " forkat={}/{}", heads(&mut f2), g).unwrap();
            }
            Err(_) => write!(o, " forkat=err").unwrap(),
        }
        write!(o, " {}", okerr(&d.merge(&mut f))).unwrap();
        write!(o, " heads={}", heads(d)).unwrap();
        let mut c = d.clone();
        write!(o, " cloneeq={} forkeq={}", same_state(&mut c, d) as i32, same_state(&mut f, d) as i32).unwrap();
        let e = c.empty_change(CommitOptions::default().with_time(3).with_message("empty".to_string()));
        write!(o, " empty=h:{}", hexs(e.as_ref())).unwrap();
        write!(o, " cloneeq2={}", same_state(&mut c, d) as i32).unwrap();
        o
    }

    pub fn edge(&mut self, r: i64) -> String {
        let d = self.reps.get_mut(&r).unwrap();
        let mut o = String::from("G");
        if let Some(l) = list_of(d) {
            let n = d.length(&l);
            write!(o, " n={} {}", n, lput(d, &l, usize::MAX, true, 99i64)).unwrap();
            write!(o, " {}", lput(d, &l, usize::MAX, false, 98i64)).unwrap();
            let inc = |d: &mut AutoCommit, pos: usize, by: i64| match adjust(pos, false, d.length(&l)) {
                None => "err",
                Some((p, _)) => okerr(&d.increment(&l, p, by)),
            };
            write!(o, " {}", inc(d, usize::MAX, -3)).unwrap();
            write!(o, " {}", lput(d, &l, 0, true, ScalarValue::counter(10))).unwrap();
            write!(o, " {}", inc(d, 0, -3)).unwrap();
            write!(o, " {}", lput(d, &l, n + 7, false, 1i64)).unwrap();
            write!(o, " {}", lput(d, &l, n + 7, true, 1i64)).unwrap();
            let del = |d: &mut AutoCommit, pos: usize| match adjust(pos, false, d.length(&l)) {
                None => "err",
                Some((p, _)) => okerr(&d.delete(&l, p)),
            };
            write!(o, " {}", del(d, n + 7)).unwrap();
            write!(o, " {}", del(d, usize::MAX)).unwrap();
            write!(o, " {}", lput(d, &l, 1, true, "s\u{20ac}")).unwrap();
            write!(o, " {}", lput(d, &l, 1, true, false)).unwrap();
            write!(o, " {}", lput(d, &l, 1, false, ScalarValue::Null)).unwrap();
            write!(o, " {}", lput(d, &l, 1, true, ScalarValue::Uint(3))).unwrap();
            write!(o, " {}", lput(d, &l, 1, true, ScalarValue::Timestamp(1234567))).unwrap();
            write!(o, " {}", lput(d, &l, 1, true, ScalarValue::Bytes(vec![9, 8]))).unwrap();
            match adjust(0, true, d.length(&l)).map(|(p, _)| d.insert_object(&l, p, ObjType::Map)) {
                Some(Ok(m)) => {
                    let p = okerr(&d.put(&m, "x", 1i64));
                    write!(o, " nested={}/{}", p, d.length(&m)).unwrap();
                }
                _ => write!(o, " nested=err").unwrap(),
            }
            commit(d);
            let get = |d: &AutoCommit, pos: usize| -> Option<String> {
                match adjust(pos, false, d.length(&l)) {
                    None => None,
                    Some((p, _)) => match d.get(&l, p) {
                        Ok(Some((v, _))) => Some(item(&v)),
                        Ok(None) => Some("none".into()),
                        Err(_) => None,
                    },
                }
            };
            write!(o, " far={}", if get(d, n + 70).is_some() { "ok" } else { "err" }).unwrap();
            write!(o, " last={}", get(d, usize::MAX).unwrap_or("none".into())).unwrap();
            write!(o, " r11=ok/{}", d.list_range(&l, 1..1).count()).unwrap();
            write!(o, " r21=err").unwrap();
            let its: Vec<(usize, String)> = d.list_range(&l, 1..3).map(|it| (it.index, item(&Value::from(it.value.clone())))).collect();
            write!(o, " r13=").unwrap();
            for (p, v) in &its {
                write!(o, "{}={};", p, v).unwrap();
            }
            write!(o, " rev=").unwrap();
            for (_, v) in its.iter().rev() {
                write!(o, "{};", v).unwrap();
            }
            let second = its.get(1).map(|x| x.1.clone()).unwrap_or("none".into());
            write!(o, " adv={} prev={}", second, second).unwrap();
            write!(o, " size={} eq=1", its.len()).unwrap();
            write!(o, " items={}", d.values(&l).count()).unwrap();
        }
        let _ = d.put(ROOT, "zz", 1i64);
        write!(o, " pend={}", d.pending_ops()).unwrap();
        write!(o, " rb={}", d.rollback()).unwrap();
        write!(o, " pend={}", d.pending_ops()).unwrap();
        write!(o, " zz={}", match d.get(ROOT, "zz") { Ok(None) => "v".to_string(), Ok(Some((v, _))) => item(&v), Err(_) => "err".into() }).unwrap();
        write!(o, " range=").unwrap();
        for it in d.map_range(ROOT, "k".to_string().."l".to_string()) {
            write!(o, "{}={};", it.key, item(&Value::from(it.value.clone()))).unwrap();
        }
        write!(o, " all={}", d.map_range(ROOT, ..).count()).unwrap();
        write!(o, " revrange=err").unwrap();
        o
    }

    pub fn errs(&mut self, r: i64) -> String {
        let d = self.reps.get_mut(&r).unwrap();
        let junk: [u8; 12] = [0x85, 0x6f, 0x4a, 0x83, 1, 2, 3, 4, 1, 200, 200, 3];
        let l = list_of(d);
        let mut o = String::from("Q");
        write!(o, " {}", okerr(&AutoCommit::load(&junk))).unwrap();
        write!(o, " {}", okerr(&AutoCommit::load(&[]))).unwrap();
        write!(o, " {}", okerr(&Change::from_bytes(junk.to_vec()))).unwrap();
        write!(o, " {}", okerr(&sync::Message::decode(&junk))).unwrap();
        write!(o, " {}", okerr(&sync::State::decode(&junk))).unwrap();
        write!(o, " {}", okerr(&ActorId::try_from("zz"))).unwrap();
        write!(o, " {}", okerr(&ActorId::try_from("0a0b"))).unwrap();
        write!(o, " {}", okerr(&automerge::Cursor::try_from("junk"))).unwrap();
        write!(o, " {}", okerr(&automerge::Cursor::try_from(&junk[..3]))).unwrap();
        write!(o, " {}", okerr(&d.load_incremental(&junk))).unwrap();
        write!(o, " {}", lput(d, &ROOT, 0, true, 1i64)).unwrap();
        if let Some(l) = &l {
            write!(o, " {}", okerr(&d.put(l, "k", 1i64))).unwrap();
            // splice_text position convention: beyond the end is an error, otherwise the call is made
            let len = d.length(l);
            write!(o, " {}", if 0 > len { "err" } else { okerr(&d.splice_text(l, 0, 0, "x")) }).unwrap();
            write!(o, " {}", okerr(&d.increment(l, "k", 1))).unwrap();
            write!(o, " {}", okerr(&d.marks(l))).unwrap();
        }
        write!(o, " {}", okerr(&d.increment(ROOT, "nokey", 1))).unwrap();
        write!(o, " {}", okerr(&d.delete(ROOT, "nokey"))).unwrap();
        write!(o, " get={}", match d.get(ROOT, "nokey") { Ok(None) => "ok/v".to_string(), Ok(Some(_)) => "ok/some".into(), Err(_) => "err".into() }).unwrap();
        write!(o, " hash5={}", okerr(&ChangeHash::try_from(&junk[..5]))).unwrap();
        write!(o, " hash33={}", okerr(&ChangeHash::try_from(&[0u8; 33][..]))).unwrap();
        d.rollback();
        o
    }

    pub fn sync(&mut self, r: i64, s: i64) -> String {
        let mut a = self.reps.remove(&r).unwrap();
        let mut b = self.reps.remove(&s).unwrap();
        let mut s1 = sync::State::new();
        let mut s2 = sync::State::new();
        let mut o = String::from("Y");
        for _round in 0..12 {
            let mut quiet = true;
            for dir in 0..2 {
                let (from, to, fs, ts) = if dir == 0 { (&mut a, &mut b, &mut s1, &mut s2) } else { (&mut b, &mut a, &mut s2, &mut s1) };
                if let Some(m) = from.sync().generate_sync_message(fs) {
                    quiet = false;
                    let enc = m.clone().encode();
                    write!(o, " {}:{}/{}/{}/{}", if dir == 0 { '>' } else { '<' }, hexs(&enc), m.heads.len(), m.need.len(), m.have.len()).unwrap();
                    match sync::Message::decode(&enc) {
                        Ok(dm) => write!(o, "/{}", okerr(&to.sync().receive_sync_message(ts, dm))).unwrap(),
                        Err(_) => write!(o, "/decerr").unwrap(),
                    }
                }
            }
            if quiet {
                break;
            }
        }
        write!(o, " h1={} h2={}", heads(&mut a), heads(&mut b)).unwrap();
        let enc = s1.encode();
        write!(o, " st={}", hexs(&enc)).unwrap();
        match sync::State::decode(&enc) {
            Ok(ds) => write!(o, " shared={}", ds.shared_heads.len()).unwrap(),
            Err(_) => write!(o, " shared=err").unwrap(),
        }
        write!(o, " eq={}", same_state(&mut a, &mut b) as i32).unwrap();
        self.reps.insert(r, a);
        self.reps.insert(s, b);
        o
    }
}

/// AMequal: equal heads and equal saved state
fn same_state(a: &mut AutoCommit, b: &mut AutoCommit) -> bool {
    a.get_heads() == b.get_heads() && a.document().get_changes(&[]).len() == b.document().get_changes(&[]).len() && {
        let ja = serde_json::to_string(&automerge::AutoSerde::from(a.document())).unwrap_or_default();
        let jb = serde_json::to_string(&automerge::AutoSerde::from(b.document())).unwrap_or_default();
        ja == jb
    }
}

/// behaviours (ndjson) -> (driver program, expected observation lines)
pub fn programs(text: &str, epilogue: bool, variant: &str) -> (String, String, usize) {
    let mut prog = String::new();
    let mut exp = String::new();
    let mut nb = 0usize;
    for line in text.lines().filter(|l| !l.trim().is_empty()) {
        let beh: J = serde_json::from_str(line).expect("behaviour json");
        writeln!(prog, "mode {}", nb % 3).unwrap();
        nb += 1;
        let mut m = Mirror { reps: BTreeMap::new(), base_heads: vec![] };
        for k in 1..=3i64 {
            m.reps.insert(k, AutoCommit::new().with_actor(enc::actor_from_num(k as u8)));
            writeln!(prog, "new {} {}", k, k).unwrap();
        }
        if variant == "text" {
            let d = m.reps.get_mut(&1).unwrap();
            for c in [
                json!({"fn":"put_object","obj":[0,0],"key":"t","ty":"text"}),
                json!({"fn":"splice_text","obj":[1,1],"idx":0,"del":0,"toks":["a","eacute"]}),
            ] {
                calls::exec(d, &c);
            }
            commit(d);
            m.base_heads = d.get_heads();
            writeln!(prog, "tbase 1").unwrap();
            let mut base = m.reps[&1].clone();
            for k in 2..=3i64 {
                m.reps.get_mut(&k).unwrap().merge(&mut base).unwrap();
                writeln!(prog, "merge {} 1", k).unwrap();
            }
        } else {
            let d = m.reps.get_mut(&1).unwrap();
            for c in [
                json!({"fn":"put_object","obj":[0,0],"key":"l","ty":"list"}),
                json!({"fn":"insert","obj":[1,1],"idx":0,"val":{"k":"counter","s":"","n":1,"toks":[]}}),
                json!({"fn":"insert","obj":[1,1],"idx":1,"val":{"k":"int","s":"7","n":0,"toks":[]}}),
            ] {
                calls::exec(d, &c);
            }
            commit(d);
            m.base_heads = d.get_heads();
            writeln!(prog, "base 1").unwrap();
            let mut base = m.reps[&1].clone();
            for k in 2..=3i64 {
                m.reps.get_mut(&k).unwrap().merge(&mut base).unwrap();
                writeln!(prog, "merge {} 1", k).unwrap();
            }
        }
        let mut last_r = 1i64;
        for step in beh.as_array().unwrap() {
            let r = step["r"].as_i64().unwrap();
            if let Some(s) = step.get("merge").and_then(|x| x.as_i64()) {
                let mut other = m.reps[&s].clone();
                let _ = m.reps.get_mut(&r).unwrap().merge(&mut other);
                writeln!(prog, "merge {} {}", r, s).unwrap();
            } else if step.get("call").is_some() && step.get("rolledback").is_none() && step.get("isoat").is_none() {
                let c = &step["call"];
                let f = c["fn"].as_str().unwrap_or("");
                let islist = c["obj"][0].as_i64() != Some(0);
                let kind = |v: &J| if v["k"] == "counter" { ("c", v["n"].as_i64().unwrap_or(0)) } else { ("i", v["s"].as_str().unwrap_or("0").parse::<i64>().unwrap_or(0)) };
                let toks_hex = |v: &J| -> String {
                    let toks: Vec<String> = v.as_array().map(|a| a.iter().filter_map(|t| t.as_str().map(String::from)).collect()).unwrap_or_default();
                    hexs(enc::tokens_str(&toks).as_bytes())
                };
                let pl = match (f, islist) {
                    ("put", true) if variant == "text" => format!("tput {} {} {}", r, c["idx"], toks_hex(&c["val"]["toks"])),
                    ("delete", true) if variant == "text" => format!("tdel {} {}", r, c["idx"]),
                    ("splice_text", true) => format!("tspl {} {} {} {}", r, c["idx"], c["del"], toks_hex(&c["toks"])),
                    ("put", false) => { let (k, v) = kind(&c["val"]); format!("mput {} {} {} {}", r, c["key"].as_str().unwrap_or("k1"), k, v) }
                    ("delete", false) => format!("mdel {} {}", r, c["key"].as_str().unwrap_or("k1")),
                    ("increment", false) => format!("minc {} {} {}", r, c["key"].as_str().unwrap_or("k1"), c["by"]),
                    ("put", true) => { let (k, v) = kind(&c["val"]); format!("lput {} {} {} {}", r, c["idx"], k, v) }
                    ("insert", true) => { let (k, v) = kind(&c["val"]); format!("lins {} {} {} {}", r, c["idx"], k, v) }
                    ("delete", true) => format!("ldel {} {}", r, c["idx"]),
                    ("increment", true) => format!("linc {} {} {}", r, c["idx"], c["by"]),
                    _ => continue,
                };
                writeln!(prog, "{}", pl).unwrap();
                let d = m.reps.get_mut(&r).unwrap();
                let out = calls::exec(d, c);
                commit(d);
                writeln!(exp, "R {}", if out["res"] == "ok" { "ok" } else { "err" }).unwrap();
            } else {
                continue;
            }
            last_r = r;
            writeln!(prog, "obs {}", r).unwrap();
            writeln!(exp, "{}", m.obs(r)).unwrap();
        }
        if epilogue {
            // the rest of the C API on the state the behaviour reached: which parts run depends on the behaviour's number
            let r = last_r;
            let s = if r == 1 { 2 } else { 1 };
            let sel = nb % 4;
            let mut cmds: Vec<String> = vec![];
            if sel == 0 || sel == 2 { cmds.push(format!("scal {}", r)); }
            if sel == 1 || sel == 2 {
                // parameters of the text epilogue: drawn from the behaviour's number (a small LCG), so they vary
                let mut x = (nb as u64).wrapping_mul(6364136223846793005).wrapping_add(1442695040888963407);
                let mut nx = |m: u64| { x = x.wrapping_mul(6364136223846793005).wrapping_add(1442695040888963407); ((x >> 33) % m) as usize };
                let a = nx(13); let b = nx(5);
                let c = nx(9); let dd = c + nx(6);
                let e = nx(12); let f = e + nx(5);
                let g = nx(10); let h = g + nx(4);
                cmds.push(format!("text {} {} {} {} {} {} {} {} {} {} {}", r, a, b, c, dd, e, f, g, h, nx(4), nx(13)));
            }
            if sel != 1 { cmds.push(format!("edge {}", r)); }
            if sel == 3 || sel == 1 { cmds.push(format!("fork {}", r)); }
            cmds.push(format!("errs {}", r));
            cmds.push(format!("chg {}", r));
            cmds.push(format!("apply {}", r));
            cmds.push(format!("sync {} {}", r, s));
            for c in cmds {
                writeln!(prog, "{}", c).unwrap();
                let w: Vec<&str> = c.split(' ').collect();
                let line = match w[0] {
                    "scal" => m.scal(r),
                    "text" => {
                        let mut q = [0usize; 10];
                        for (i, x) in w[2..].iter().enumerate().take(10) {
                            q[i] = x.parse().unwrap_or(0);
                        }
                        m.text(r, &q)
                    }
                    "edge" => m.edge(r),
                    "fork" => m.fork(r),
                    "errs" => m.errs(r),
                    "chg" => m.chg(r),
                    "apply" => m.apply(r),
                    _ => m.sync(r, s),
                };
                writeln!(exp, "{}", line).unwrap();
            }
            for k in [r, s] {
                writeln!(prog, "obs {}", k).unwrap();
                writeln!(exp, "{}", m.obs(k)).unwrap();
            }
        }
        writeln!(prog, "reset").unwrap();
        writeln!(exp, "X").unwrap();
    }
    (prog, exp, nb)
}
