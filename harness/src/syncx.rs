//! Sync protocol helpers: JSON views of sync::State and sync::Message in the vocabulary of Sync.tla.
use crate::store::chunk_layout;
use automerge::sync::{self, Capability, MessageFlags, MessageVersion, SyncDoc};
use automerge::{Automerge, Change, ChangeHash, ReadDoc};
use serde_json::{json, Value as J};
use std::collections::BTreeMap;

/// translation between model change ids / names and real hashes
pub struct Names {
    pub by_hash: BTreeMap<ChangeHash, J>,
}

impl Names {
    pub fn new() -> Self {
        Names { by_hash: BTreeMap::new() }
    }
    pub fn name(&self, h: &ChangeHash) -> J {
        self.by_hash.get(h).cloned().unwrap_or_else(|| json!(format!("?{}", h)))
    }
    pub fn set(&self, hs: &[ChangeHash]) -> J {
        let mut v: Vec<J> = hs.iter().map(|h| self.name(h)).collect();
        v.sort_by_key(|x| x.to_string());
        v.dedup();
        J::Array(v)
    }
}

fn opt<T>(o: &Option<T>, f: impl Fn(&T) -> J) -> J {
    match o {
        None => json!([]),
        Some(x) => json!([f(x)]),
    }
}

/// hashes carried by the change bytes of a message (change chunks or a document chunk)
pub fn carried(msg: &sync::Message) -> Vec<ChangeHash> {
    let mut out = vec![];
    for chunk in msg.changes.iter() {
        for (off, len, ty) in chunk_layout(chunk).unwrap_or_default() {
            let b = &chunk[off..off + len];
            match ty {
                0 => {
                    if let Ok(d) = Automerge::load(b) {
                        out.extend(d.get_changes(&[]).iter().map(|c| c.hash()));
                    }
                }
                1 | 2 => {
                    if let Ok(c) = Change::from_bytes(b.to_vec()) {
                        out.push(c.hash());
                    }
                }
                _ => {}
            }
        }
    }
    out
}

pub fn flags_json(f: &Option<MessageFlags>) -> J {
    let mut v = vec![];
    if let Some(f) = f {
        if f.contains(MessageFlags::SUPPORTS_SYNC_RESET) {
            v.push("supports_reset");
        }
        if f.contains(MessageFlags::READ_ONLY) {
            v.push("read_only");
        }
        if f.contains(MessageFlags::SYNC_RESET) {
            v.push("sync_reset");
        }
    }
    json!(v)
}

pub fn have_json(h: &sync::Have, names: &Names, universe: &[ChangeHash]) -> J {
    let members: Vec<ChangeHash> = universe.iter().filter(|x| h.bloom.contains_hash(x)).copied().collect();
    json!({"lastSync": names.set(&h.last_sync), "positives": names.set(&members)})
}

pub fn msg_json(m: &sync::Message, names: &Names, universe: &[ChangeHash]) -> J {
    json!({
        "heads": names.set(&m.heads),
        "need": names.set(&m.need),
        "have": m.have.iter().map(|h| have_json(h, names, universe)).collect::<Vec<_>>(),
        "carried": names.set(&carried(m)),
        "flags": flags_json(&m.flags),
        "hasflags": m.flags.is_some(),
        "v": match m.version { MessageVersion::V1 => 1, MessageVersion::V2 => 2 },
    })
}

pub fn state_json(s: &sync::State, names: &Names, universe: &[ChangeHash]) -> J {
    let caps = opt(&s.their_capabilities, |c| {
        let mut v = vec![];
        if c.contains(&Capability::MessageV2) {
            v.push("v2");
        }
        if c.contains(&Capability::SyncReset) {
            v.push("reset");
        }
        json!(v)
    });
    let sent: Vec<ChangeHash> = s.sent_hashes.iter().copied().collect();
    json!({
        "sharedHeads": names.set(&s.shared_heads),
        "lastSentHeads": names.set(&s.last_sent_heads),
        "theirHeads": opt(&s.their_heads, |h| names.set(h)),
        "theirNeed": opt(&s.their_need, |h| names.set(h)),
        "theirHave": opt(&s.their_have, |hs| J::Array(hs.iter().map(|h| have_json(h, names, universe)).collect())),
        "sentHashes": names.set(&sent),
        "inFlight": s.in_flight,
        "haveResponded": s.have_responded,
        "caps": caps,
        "readOnly": s.read_only,
        "peerReadOnly": s.peer_read_only,
        "needsReset": s.needs_reset,
    })
}

pub fn doc_json(d: &Automerge, names: &Names) -> J {
    let applied: Vec<ChangeHash> = d.get_changes(&[]).iter().map(|c| c.hash()).collect();
    json!({
        "applied": names.set(&applied),
        "queue": names.set(&d.verif_queued_hashes()),
        "heads": names.set(&d.get_heads()),
    })
}

pub fn generate(d: &Automerge, s: &mut sync::State) -> Option<sync::Message> {
    d.generate_sync_message(s)
}

pub fn receive(d: &mut Automerge, s: &mut sync::State, m: sync::Message) -> Result<(), automerge::AutomergeError> {
    d.receive_sync_message(s, m)
}
