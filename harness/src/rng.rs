//! Small deterministic PRNG (splitmix64) so every random choice derives from VERIF_SEED.
#[derive(Clone, Debug)]
pub struct Rng(pub u64);

impl Rng {
    pub fn new(seed: u64) -> Self {
        Rng(seed.wrapping_mul(0x9E3779B97F4A7C15) ^ 0xD1B54A32D192ED03)
    }
    pub fn next(&mut self) -> u64 {
        self.0 = self.0.wrapping_add(0x9E3779B97F4A7C15);
        let mut z = self.0;
        z = (z ^ (z >> 30)).wrapping_mul(0xBF58476D1CE4E5B9);
        z = (z ^ (z >> 27)).wrapping_mul(0x94D049BB133111EB);
        z ^ (z >> 31)
    }
    /// uniform in 0..n (n > 0)
    pub fn below(&mut self, n: usize) -> usize {
        (self.next() % (n as u64)) as usize
    }
    pub fn range(&mut self, lo: usize, hi_excl: usize) -> usize {
        lo + self.below(hi_excl - lo)
    }
    pub fn chance(&mut self, num: u64, den: u64) -> bool {
        self.next() % den < num
    }
    pub fn pick<'a, T>(&mut self, xs: &'a [T]) -> &'a T {
        &xs[self.below(xs.len())]
    }
    pub fn shuffle<T>(&mut self, xs: &mut [T]) {
        for i in (1..xs.len()).rev() {
            let j = self.below(i + 1);
            xs.swap(i, j);
        }
    }
    pub fn fork(&mut self) -> Rng {
        Rng::new(self.next())
    }
}
