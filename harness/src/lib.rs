pub mod calls;
pub mod chg;
pub mod enc;
pub mod proj;
pub mod rng;
pub mod scen;
pub mod store;
pub mod world;
