//! A set of replicas driven through the public API with every call logged as an ndjson event.
use crate::calls::{self, Profile};
use crate::rng::Rng;
use crate::{chg, enc, proj};
use automerge::transaction::{CommitOptions, Transactable};
use automerge::{
    ActorId, Automerge, AutomergeError, Change, ChangeHash, LoadOptions, OnPartialLoad, PatchLog,
    ReadDoc, SaveOptions, TextEncoding,
};
use serde_json::{json, Value as J};
use std::collections::BTreeMap;
use std::panic::{catch_unwind, AssertUnwindSafe};

pub fn enc_name(e: TextEncoding) -> &'static str {
    match e {
        TextEncoding::UnicodeCodePoint => "cp",
        TextEncoding::Utf8CodeUnit => "u8",
        TextEncoding::Utf16CodeUnit => "u16",
        TextEncoding::GraphemeCluster => "gr",
    }
}

pub fn enc_from(s: &str) -> TextEncoding {
    match s {
        "u8" => TextEncoding::Utf8CodeUnit,
        "u16" => TextEncoding::Utf16CodeUnit,
        "gr" => TextEncoding::GraphemeCluster,
        _ => TextEncoding::UnicodeCodePoint,
    }
}

thread_local! {
    static LAST_PANIC_AT: std::cell::RefCell<String> = std::cell::RefCell::new(String::new());
}

pub fn panic_msg(p: Box<dyn std::any::Any + Send>) -> String {
    let s = if let Some(s) = p.downcast_ref::<&str>() {
        s.to_string()
    } else if let Some(s) = p.downcast_ref::<String>() {
        s.clone()
    } else {
        "?".to_string()
    };
    // the source location recorded by the hook: "<file under rust/>:<line>"
    let at = LAST_PANIC_AT.with(|l| l.borrow().clone());
    format!("panic:{} {}", at, enc::safe_str(&s.chars().take(100).collect::<String>()))
}

pub fn silence_panics() {
    let loud = std::env::var("AMV_LOUD").is_ok();
    let default = std::panic::take_hook();
    std::panic::set_hook(Box::new(move |info| {
        if let Some(l) = info.location() {
            let f = l.file();
            let f = f.rsplit_once("/rust/").map(|x| x.1).unwrap_or(f);
            LAST_PANIC_AT.with(|x| *x.borrow_mut() = format!("{}:{}", f, l.line()));
        }
        if loud {
            default(info);
        }
    }));
}

#[derive(Clone, Copy, PartialEq, Eq, Debug)]
pub enum ObsLevel {
    Graph,
    View,
}

pub struct World {
    pub enc: TextEncoding,
    pub reps: Vec<Automerge>,
    pub log: Vec<J>,
    /// every change any replica has created or seen, by short hash
    pub known: BTreeMap<String, Change>,
    pub obs_level: ObsLevel,
    pub dead: bool,
    pub scenario: usize,
    /// calls of the transaction in progress (kept outside the guarded closure so that a panic
    /// still leaves a record of what was being executed)
    pub inflight: Vec<J>,
    /// use the *_log_patches variants of every mutating call and attach the patches (C09)
    pub log_patches: bool,
    /// run every plain (non-isolated) transaction a second time through an AutoCommit copy of the replica that has
    /// the same actor, and compare call results, the view after every call and the committed change (C03)
    pub auto_shadow: bool,
    /// cursors taken at earlier points of the scenario: (object, cursor, mode) (C26)
    pub cursors: Vec<(automerge::ObjId, automerge::Cursor, &'static str)>,
    /// object ids captured as live values on some replica at an earlier point (C30)
    pub idreg: Vec<automerge::ObjId>,
    /// number actors downwards (k -> 18 - k) so that every new actor sorts BEFORE the existing ones
    /// in the documents' actor tables (C30)
    pub desc_actors: bool,
    /// use actor bytes 0x20 + k: isolation actors (13 b2 23 09 ..) then sort BEFORE the replicas' own
    /// actors, so minting / dropping one shifts every index of the actor table (C30)
    pub hi_actors: bool,
}

impl World {
    pub fn new(enc: TextEncoding, obs_level: ObsLevel, scenario: usize, family: &str) -> World {
        let mut w = World {
            enc,
            reps: vec![],
            log: vec![],
            known: BTreeMap::new(),
            obs_level,
            dead: false,
            scenario,
            inflight: vec![],
            log_patches: false,
            auto_shadow: false,
            cursors: vec![],
            idreg: vec![],
            desc_actors: false,
            hi_actors: false,
        };
        w.log.push(json!({"ev":"reset","enc":enc_name(enc),"scn":scenario,"family":family}));
        w
    }

    pub fn n(&self) -> usize {
        self.reps.len()
    }

    fn note_changes(&mut self, r: usize) -> Vec<J> {
        // record changes not yet known (with their ops) so the trace spec can define them
        let mut defs = vec![];
        for c in self.reps[r].get_changes(&[]) {
            let h = enc::hash_str(&c.hash());
            if !self.known.contains_key(&h) {
                defs.push(Self::chgdef(&c));
                self.known.insert(h, c);
            }
        }
        defs
    }

    pub fn chgdef(c: &Change) -> J {
        let mut m = chg::meta(c);
        m["ops"] = J::Array(chg::ops(c));
        m
    }

    pub fn obs(&self, r: usize) -> J {
        let d = &self.reps[r];
        let applied: Vec<ChangeHash> = d.get_changes(&[]).iter().map(|c| c.hash()).collect();
        let mut o = json!({
            "heads": enc::hashes_sorted(&d.get_heads()),
            "applied": enc::hashes_sorted(&applied),
            "queued": enc::hashes_sorted(&d.verif_queued_hashes()),
            "missing": enc::hashes_sorted(&d.get_missing_deps(&[])),
            "actor": enc::actor_num(d.get_actor()),
        });
        if self.obs_level == ObsLevel::View {
            let v = proj::view(d, None);
            o["vd"] = json!(chg::digest(v.to_string().as_bytes()));
            o["view"] = v;
            o["hyd"] = json!(proj::hydrate_parents_disagree(d, None));
        }
        o
    }

    fn guarded<F: FnOnce(&mut World) -> J>(&mut self, r: usize, mut ev: J, f: F) {
        if self.dead {
            return;
        }
        let res = catch_unwind(AssertUnwindSafe(|| f(self)));
        match res {
            Ok(extra) => {
                if let (Some(m), Some(x)) = (ev.as_object_mut(), extra.as_object()) {
                    for (k, v) in x {
                        m.insert(k.clone(), v.clone());
                    }
                }
                let o = catch_unwind(AssertUnwindSafe(|| self.obs(r)));
                match o {
                    Ok(o) => ev["obs"] = o,
                    Err(p) => {
                        ev["res"] = json!(format!("obs-{}", panic_msg(p)));
                        self.dead = true;
                    }
                }
            }
            Err(p) => {
                ev["res"] = json!(panic_msg(p));
                ev["inflight"] = J::Array(std::mem::take(&mut self.inflight));
                self.dead = true;
            }
        }
        self.inflight.clear();
        self.log.push(ev);
    }

    fn amap(&self, actor: u8) -> u8 {
        let a = if self.desc_actors && actor < 18 { 18 - actor } else { actor };
        if self.hi_actors { 0x20 + a } else { a }
    }

    pub fn add_rep(&mut self, actor: u8) -> usize {
        let actor = self.amap(actor);
        let d = Automerge::new_with_encoding(self.enc).with_actor(ActorId::from(vec![actor]));
        self.reps.push(d);
        let r = self.reps.len() - 1;
        let ev = json!({"ev":"newrep","r":r+1,"actor":enc::actor_num(&ActorId::from(vec![actor])),"res":"ok"});
        self.guarded(r, ev, |_| json!({}));
        r
    }

    /// One transaction of explicit calls (already generated), or random calls when `calls` is
    /// None.  `iso`: isolation heads for transaction_at.
    pub fn commit(
        &mut self,
        r: usize,
        rng: &mut Rng,
        prof: &Profile,
        ncalls: usize,
        explicit: Option<Vec<J>>,
        iso: Option<Vec<ChangeHash>>,
    ) {
        let isoj = match &iso {
            Some(h) => json!([enc::hashes_sorted(h)]),
            None => json!([]),
        };
        let ev = json!({"ev":"commit","r":r+1,"iso":isoj});
        let level = self.obs_level;
        self.guarded(r, ev, |w| {
            let w_inflight = &mut w.inflight;
            let mut shadow: Option<automerge::AutoCommit> = if w.auto_shadow && iso.is_none() {
                let d = &w.reps[r];
                let bytes = d.save_with_options(SaveOptions { deflate: false, retain_orphans: true });
                automerge::AutoCommit::load_with_options(&bytes, LoadOptions::new().text_encoding(w.enc)).ok().map(|a| a.with_actor(d.get_actor().clone()))
            } else {
                None
            };
            let mut auto_bad: Vec<String> = vec![];
            let doc = &mut w.reps[r];
            let lp = w.log_patches;
            let mut tx = match &iso {
                Some(h) => doc.transaction_at(if lp { PatchLog::active() } else { PatchLog::inactive() }, h).expect("patch log"),
                None => {
                    if lp {
                        doc.transaction_log_patches(PatchLog::active()).expect("patch log")
                    } else {
                        doc.transaction()
                    }
                }
            };
            let mut done = vec![];
            let n = explicit.as_ref().map(|e| e.len()).unwrap_or(ncalls);
            for i in 0..n {
                let call = match &explicit {
                    Some(e) => e[i].clone(),
                    None => {
                        let v = proj::view(&tx, None);
                        calls::gen(rng, &v, prof)
                    }
                };
                let before = if level == ObsLevel::View { proj::view(&tx, None) } else { J::Null };
                w_inflight.push(call.clone());
                let out = calls::exec(&mut tx, &call);
                let mut rec = call.clone();
                rec["res"] = out["res"].clone();
                rec["ret"] = out["ret"].clone();
                if let Some(g) = out.get("got") {
                    rec["got"] = g.clone();
                }
                if level == ObsLevel::View {
                    rec["before"] = before;
                    rec["after"] = proj::view(&tx, None);
                    rec["hyd"] = json!(proj::hydrate_parents_disagree(&tx, None));
                }
                if let Some(ac) = shadow.as_mut() {
                    let o2 = calls::exec(ac, &call);
                    if o2["res"] != out["res"] || o2["ret"] != out["ret"] {
                        auto_bad.push(format!("call {} {}: transaction {} {} / autocommit {} {}", i + 1, call["fn"], out["res"], out["ret"], o2["res"], o2["ret"]));
                    } else if proj::view(ac, None) != proj::view(&tx, None) {
                        auto_bad.push(format!("call {} {}: views differ after the call", i + 1, call["fn"]));
                    }
                }
                done.push(rec);
            }
            let pending = tx.pending_ops();
            let (hash, mut plog) = tx.commit_with(CommitOptions::default().with_time(0));
            let mut out = json!({"calls": done, "pending": pending, "res":"ok"});
            if let Some(ac) = shadow.as_mut() {
                let h2 = ac.commit_with(CommitOptions::default().with_time(0));
                if h2 != hash {
                    auto_bad.push(format!("committed change: transaction {:?} / autocommit {:?}", hash.map(|h| enc::hash_str(&h)), h2.map(|h| enc::hash_str(&h))));
                }
                out["auto"] = json!({"same": auto_bad.is_empty(), "diffs": auto_bad});
            }
            if lp {
                let ps = w.reps[r].make_patches(&mut plog);
                out["patches"] = crate::patchx::patches_json(&ps);
            }
            match hash {
                Some(h) => {
                    out["hash"] = json!(enc::hash_str(&h));
                    let c = w.reps[r].get_change_by_hash(&h).expect("own change");
                    out["def"] = World::chgdef(&c);
                    w.known.insert(enc::hash_str(&h), c);
                }
                None => {
                    out["hash"] = json!("");
                }
            }
            out
        });
    }

    pub fn empty_commit(&mut self, r: usize) {
        let ev = json!({"ev":"commit","r":r+1,"iso":[],"empty":true});
        self.guarded(r, ev, |w| {
            let h = w.reps[r].empty_commit(CommitOptions::default().with_time(0));
            let c = w.reps[r].get_change_by_hash(&h).expect("own change");
            let def = World::chgdef(&c);
            w.known.insert(enc::hash_str(&h), c);
            json!({"calls": [], "pending": 0, "res":"ok", "hash": enc::hash_str(&h), "def": def})
        });
    }

    fn res_of(r: Result<(), AutomergeError>) -> J {
        match r {
            Ok(()) => json!("ok"),
            Err(e) => json!(calls::err_name(&e)),
        }
    }

    /// Deliver a batch of known changes through one of the ingestion paths.
    pub fn deliver(&mut self, r: usize, via: &str, batch: &[String]) {
        let changes: Vec<Change> = batch.iter().filter_map(|h| self.known.get(h).cloned()).collect();
        let ev = json!({"ev":"deliver","r":r+1,"via":via,"batch":batch});
        let via = via.to_string();
        self.guarded(r, ev, |w| {
            if w.log_patches {
                let mut plog = PatchLog::active();
                let doc = &mut w.reps[r];
                let res = match via.as_str() {
                    "loadinc" => {
                        let mut bytes = vec![];
                        for c in &changes {
                            bytes.extend_from_slice(c.raw_bytes());
                        }
                        Self::res_of(doc.load_incremental_log_patches(&bytes, &mut plog).map(|_| ()))
                    }
                    "each" => {
                        let mut res = json!("ok");
                        for c in changes {
                            if let Err(e) = doc.apply_changes_log_patches([c], &mut plog) {
                                res = json!(calls::err_name(&e));
                                break;
                            }
                        }
                        res
                    }
                    "batch" => Self::res_of(doc.apply_changes_batch_log_patches(changes, &mut plog)),
                    _ => Self::res_of(doc.apply_changes_log_patches(changes, &mut plog)),
                };
                let ps = w.reps[r].make_patches(&mut plog);
                return json!({"res": res, "patches": crate::patchx::patches_json(&ps)});
            }
            let doc = &mut w.reps[r];
            let res = match via.as_str() {
                "apply" => Self::res_of(doc.apply_changes(changes)),
                "batch" => Self::res_of(doc.apply_changes_batch(changes)),
                "each" => {
                    // one call per change; stop at first error
                    let mut res = json!("ok");
                    for c in changes {
                        if let Err(e) = doc.apply_changes([c]) {
                            res = json!(calls::err_name(&e));
                            break;
                        }
                    }
                    res
                }
                "loadinc" => {
                    let mut bytes = vec![];
                    for c in &changes {
                        bytes.extend_from_slice(c.raw_bytes());
                    }
                    Self::res_of(doc.load_incremental(&bytes).map(|_| ()))
                }
                _ => json!("harness:unknown_via"),
            };
            json!({"res": res})
        });
    }

    pub fn merge(&mut self, r: usize, s: usize) {
        if r == s {
            return;
        }
        let ev = json!({"ev":"merge","r":r+1,"from":s+1});
        self.guarded(r, ev, |w| {
            let mut other = w.reps[s].clone();
            let added: Vec<String> =
                w.reps[r].get_changes_added(&other).iter().map(|c| enc::hash_str(&c.hash())).collect();
            if w.log_patches {
                let mut plog = PatchLog::active();
                let res = match w.reps[r].merge_and_log_patches(&mut other, &mut plog) {
                    Ok(_) => json!("ok"),
                    Err(e) => json!(calls::err_name(&e)),
                };
                let ps = w.reps[r].make_patches(&mut plog);
                return json!({"res": res, "added": added, "patches": crate::patchx::patches_json(&ps)});
            }
            let res = match w.reps[r].merge(&mut other) {
                Ok(_) => json!("ok"),
                Err(e) => json!(calls::err_name(&e)),
            };
            json!({"res": res, "added": added})
        });
    }

    pub fn fork(&mut self, from: usize, actor: u8) -> usize {
        let actor = self.amap(actor);
        let d = self.reps[from].fork().with_actor(ActorId::from(vec![actor]));
        self.reps.push(d);
        let r = self.reps.len() - 1;
        let ev = json!({"ev":"fork","r":r+1,"from":from+1,"actor":enc::actor_num(&ActorId::from(vec![actor])),"res":"ok"});
        self.guarded(r, ev, |_| json!({}));
        r
    }

    pub fn fork_at(&mut self, from: usize, heads: &[ChangeHash], actor: u8) -> Option<usize> {
        let actor = self.amap(actor);
        match self.reps[from].fork_at(heads) {
            Ok(d) => {
                self.reps.push(d.with_actor(ActorId::from(vec![actor])));
                let r = self.reps.len() - 1;
                let ev = json!({"ev":"forkat","r":r+1,"from":from+1,"heads":enc::hashes_sorted(heads),"actor":enc::actor_num(&ActorId::from(vec![actor])),"res":"ok"});
                self.guarded(r, ev, |_| json!({}));
                Some(r)
            }
            Err(e) => {
                let ev = json!({"ev":"forkat_err","r":from+1,"from":from+1,"heads":enc::hashes_sorted(heads),"res":calls::err_name(&e)});
                self.guarded(from, ev, |_| json!({}));
                None
            }
        }
    }

    pub fn set_actor(&mut self, r: usize, actor: u8) {
        let actor = self.amap(actor);
        let ev = json!({"ev":"setactor","r":r+1,"actor":enc::actor_num(&ActorId::from(vec![actor])),"res":"ok"});
        self.guarded(r, ev, |w| {
            w.reps[r].set_actor(ActorId::from(vec![actor]));
            json!({})
        });
    }

    /// Replace replica r by load(save(r)).
    pub fn save_load(&mut self, r: usize, deflate: bool, retain_orphans: bool) {
        let ev = json!({"ev":"saveload","r":r+1,"deflate":deflate,"retain":retain_orphans});
        let enc_ = self.enc;
        self.guarded(r, ev, |w| {
            let bytes = w.reps[r].save_with_options(SaveOptions { deflate, retain_orphans });
            let actor = w.reps[r].get_actor().clone();
            let loaded = Automerge::load_with_options(
                &bytes,
                LoadOptions::new().text_encoding(enc_).on_partial_load(OnPartialLoad::Error),
            );
            match loaded {
                Ok(d) => {
                    let resave = d.save_with_options(SaveOptions { deflate, retain_orphans });
                    w.reps[r] = d.with_actor(actor);
                    json!({"res":"ok","len":bytes.len(),"digest":chg::digest(&bytes),"redigest":chg::digest(&resave)})
                }
                Err(e) => json!({"res": calls::err_name(&e), "len": bytes.len()}),
            }
        });
    }

    pub fn probe_missing(&mut self, r: usize, hs: &[ChangeHash]) {
        let ev = json!({"ev":"missing","r":r+1,"hs":enc::hashes_sorted(hs)});
        self.guarded(r, ev, |w| {
            let m = w.reps[r].get_missing_deps(hs);
            json!({"res":"ok","result":enc::hashes_sorted(&m)})
        });
    }

    /// Make sure every change some replica holds is defined in the log (used after loads that
    /// may create changes).
    pub fn define_new_changes(&mut self, r: usize) {
        let defs = self.note_changes(r);
        for d in defs {
            self.log.push(json!({"ev":"chgdef","def":d}));
        }
    }
}

impl World {
    /// C09, the mutating paths that the replicas of the scenario do not take themselves: on a private AutoCommit copy
    /// of replica r (incremental patch index on) - local edits through AutoCommit, a rolled-back transaction, a sync
    /// session with a copy of replica s, isolate(H) / edits inside / integrate(), and a load with a patch log.
    /// Every step logs {"ev":"ptrans","kind",..,"v1","patches","v2"}: the patches must turn v1 into v2.
    pub fn probe_patch_paths(&mut self, r: usize, s: usize, iso_heads: &[ChangeHash], rng: &mut Rng, prof: &Profile) {
        use automerge::sync::SyncDoc;
        let enc_ = self.enc;
        let bytes = self.reps[r].save();
        let peer_bytes = self.reps[s].save();
        let seed = rng.next();
        let prof = prof.clone();
        let iso_heads = iso_heads.to_vec();
        let out = catch_unwind(AssertUnwindSafe(|| {
            let mut rng = Rng::new(seed);
            let mut evs: Vec<J> = vec![];
            let opts = || LoadOptions::new().text_encoding(enc_);
            let mut ac = match automerge::AutoCommit::load_with_options(&bytes, opts()) {
                Ok(a) => a.with_actor(enc::actor_from_num(60 + r as u8)),
                Err(_) => return evs,
            };
            ac.update_diff_cursor();
            let done_calls: std::cell::RefCell<Vec<J>> = std::cell::RefCell::new(vec![]);
            let mut step = |ac: &mut automerge::AutoCommit, kind: &str, rng: &mut Rng, f: &mut dyn FnMut(&mut automerge::AutoCommit, &mut Rng)| {
                let v1 = proj::view(ac, None);
                done_calls.borrow_mut().clear();
                f(ac, rng);
                let patches = ac.diff_incremental();
                let v2 = proj::view(ac, None);
                json!({"ev":"ptrans","kind":kind,"r":r+1,"res":"ok","v1":v1,"patches":crate::patchx::patches_json(&patches),"v2":v2,
                       "calls": J::Array(done_calls.borrow().clone())})
            };
            let mut edits = |ac: &mut automerge::AutoCommit, rng: &mut Rng| {
                for _ in 0..1 + rng.below(3) {
                    let v = proj::view(ac, None);
                    let call = calls::gen(rng, &v, &prof);
                    let out = calls::exec(ac, &call);
                    let mut rec = call.clone();
                    rec["res"] = out["res"].clone();
                    rec["before"] = v;
                    done_calls.borrow_mut().push(rec);
                }
            };
            evs.push(step(&mut ac, "autocommit-edits", &mut rng, &mut |ac, rng| { edits(ac, rng); ac.commit_with(CommitOptions::default().with_time(0)); }));
            evs.push(step(&mut ac, "rollback", &mut rng, &mut |ac, rng| { edits(ac, rng); ac.rollback(); }));
            evs.push(step(&mut ac, "sync-receive", &mut rng, &mut |ac, _| {
                if let Ok(mut peer) = automerge::AutoCommit::load_with_options(&peer_bytes, LoadOptions::new().text_encoding(enc_)) {
                    let (mut sa, mut sb) = (automerge::sync::State::new(), automerge::sync::State::new());
                    for _ in 0..10 {
                        let mut quiet = true;
                        if let Some(m) = ac.sync().generate_sync_message(&mut sa) { quiet = false; let _ = peer.sync().receive_sync_message(&mut sb, m); }
                        if let Some(m) = peer.sync().generate_sync_message(&mut sb) { quiet = false; let _ = ac.sync().receive_sync_message(&mut sa, m); }
                        if quiet { break; }
                    }
                }
            }));
            if !iso_heads.is_empty() {
                // C29 through AutoCommit: isolate(H) shows the state at H (= the historical read at H); after
                // integrate() the document is the un-isolated document plus the changes made inside
                let at_heads = proj::view(&ac, Some(&iso_heads));
                let before_changes: Vec<ChangeHash> = ac.get_changes(&[]).iter().map(|c| c.hash()).collect();
                let mut plain = ac.document().clone();
                let mut e1 = step(&mut ac, "isolate", &mut rng, &mut |ac, _| ac.isolate(&iso_heads));
                e1["want"] = at_heads;
                evs.push(e1);
                evs.push(step(&mut ac, "isolated-edits", &mut rng, &mut |ac, rng| { edits(ac, rng); ac.commit_with(CommitOptions::default().with_time(0)); }));
                let mut e3 = step(&mut ac, "integrate", &mut rng, &mut |ac, _| ac.integrate());
                let added: Vec<automerge::Change> = ac.get_changes(&[]).into_iter().filter(|c| !before_changes.contains(&c.hash())).collect();
                e3["deps_ok"] = json!(added.iter().all(|c| c.deps().iter().all(|d| iso_heads.contains(d) || added.iter().any(|x| x.hash() == *d))));
                let _ = plain.apply_changes(added);
                e3["want"] = proj::view(&plain, None);
                evs.push(e3);
            }
            // load with a patch log: the patches build the document from nothing
            let saved = ac.save();
            let mut plog = PatchLog::active();
            if let Ok(d) = Automerge::load_with_options(&saved, LoadOptions::new().text_encoding(enc_).patch_log(&mut plog)) {
                let patches = d.make_patches(&mut plog);
                evs.push(json!({"ev":"ptrans","kind":"load-with-patch-log","r":r+1,"res":"ok","v1":proj::view(&Automerge::new_with_encoding(enc_), None),
                                "patches":crate::patchx::patches_json(&patches),"v2":proj::view(&d, None)}));
            }
            evs
        }));
        match out {
            Ok(evs) => self.log.extend(evs),
            Err(p) => self.log.push(json!({"ev":"ptrans","kind":"panic","r":r+1,"res":panic_msg(p)})),
        }
    }

    /// get_changes(have) probe, with digest of the bytes of every returned change and the
    /// check that the hash is the SHA-256 of the chunk (bytes after magic+checksum).
    pub fn probe_getchanges(&mut self, r: usize, have: &[ChangeHash]) {
        let ev = json!({"ev":"getchanges","r":r+1,"have":enc::hashes_sorted(have)});
        self.guarded(r, ev, |w| {
            let got: Vec<J> = w.reps[r]
                .get_changes(have)
                .iter()
                .map(|c| {
                    let raw = c.raw_bytes();
                    let ok = raw.len() > 8
                        && chg::sha256_hex(&raw[8..]) == c.hash().to_string()
                        && raw[4..8] == c.hash().as_ref()[0..4];
                    let byhash = w.reps[r].get_change_by_hash(&c.hash());
                    let same = byhash.map(|b| b.raw_bytes() == raw).unwrap_or(false);
                    json!({"hash": enc::hash_str(&c.hash()), "digest": chg::digest(raw), "hashok": ok && same})
                })
                .collect();
            json!({"res":"ok","got":got})
        });
    }
}

impl World {
    /// Re-execute one logged event (used to replay recorded scenarios).
    pub fn replay_event(&mut self, e: &J, rng: &mut Rng) {
        let r = e["r"].as_u64().unwrap_or(1) as usize - 1;
        let hashes = |j: &J, w: &World| -> Vec<ChangeHash> {
            j.as_array()
                .map(|a| a.iter().filter_map(|h| w.known.get(h.as_str().unwrap_or("")).map(|c| c.hash())).collect())
                .unwrap_or_default()
        };
        match e["ev"].as_str().unwrap_or("") {
            "newrep" => {
                self.add_rep(e["actor"].as_u64().unwrap_or(1) as u8);
            }
            "commit" => {
                if e.get("empty").and_then(|x| x.as_bool()) == Some(true) {
                    self.empty_commit(r);
                } else {
                    let mut calls: Vec<J> = e.get("calls").and_then(|c| c.as_array()).cloned().unwrap_or_default();
                    if let Some(inf) = e.get("inflight").and_then(|c| c.as_array()) {
                        calls = inf.clone();
                    }
                    let calls: Vec<J> = calls
                        .into_iter()
                        .map(|mut c| {
                            if let Some(m) = c.as_object_mut() {
                                m.remove("before");
                                m.remove("after");
                                m.remove("res");
                                m.remove("ret");
                            }
                            c
                        })
                        .collect();
                    let iso = e["iso"].as_array().and_then(|a| a.first()).map(|h| hashes(h, self));
                    self.commit(r, rng, &Profile::all(), 0, Some(calls), iso);
                }
            }
            "deliver" => {
                let batch: Vec<String> = e["batch"].as_array().unwrap().iter().map(|h| h.as_str().unwrap().to_string()).collect();
                self.deliver(r, e["via"].as_str().unwrap_or("apply"), &batch);
            }
            "merge" => self.merge(r, e["from"].as_u64().unwrap_or(1) as usize - 1),
            "fork" => {
                self.fork(e["from"].as_u64().unwrap_or(1) as usize - 1, e["actor"].as_u64().unwrap_or(1) as u8);
            }
            "forkat" | "forkat_err" => {
                let h = hashes(&e["heads"], self);
                self.fork_at(e["from"].as_u64().unwrap_or(1) as usize - 1, &h, e.get("actor").and_then(|a| a.as_u64()).unwrap_or(17) as u8);
            }
            "setactor" => self.set_actor(r, e["actor"].as_u64().unwrap_or(1) as u8),
            "saveload" => self.save_load(r, e["deflate"].as_bool().unwrap_or(true), e["retain"].as_bool().unwrap_or(true)),
            "missing" => {
                let h = hashes(&e["hs"], self);
                self.probe_missing(r, &h);
            }
            "getchanges" => {
                let h = hashes(&e["have"], self);
                self.probe_getchanges(r, &h);
            }
            _ => {}
        }
    }
}

impl World {
    /// Historical read (C07): the full projection at `heads`, plus the same projection of
    /// fork_at(heads) (which must be a document holding exactly the ancestors of heads).
    pub fn probe_readat(&mut self, r: usize, heads: &[ChangeHash]) {
        // the ancestors of `heads`, from the dependency lists of the changes as they were created (not from the
        // document under test): lets Trace_Same compare the read with the live observation of exactly those changes
        let anc: Option<Vec<String>> = {
            let mut seen: std::collections::BTreeSet<String> = Default::default();
            let mut stack: Vec<String> = heads.iter().map(enc::hash_str).collect();
            let mut complete = true;
            while let Some(h) = stack.pop() {
                if seen.insert(h.clone()) {
                    match self.known.get(&h) {
                        Some(c) => stack.extend(c.deps().iter().map(enc::hash_str)),
                        None => complete = false,
                    }
                }
            }
            if complete { Some(seen.into_iter().collect()) } else { None }
        };
        let mut ev = json!({"ev":"readat","r":r+1,"heads":enc::hashes_sorted(heads)});
        if let Some(a) = anc {
            ev["anc"] = json!(a);
        }
        let heads = heads.to_vec();
        let saved = self.obs_level;
        self.guarded(r, ev, |w| {
            let v = proj::view(&w.reps[r], Some(&heads));
            let mut out = json!({"res":"ok","view":v,"hyd":proj::hydrate_parents_disagree(&w.reps[r], Some(&heads))});
            match w.reps[r].fork_at(&heads) {
                Ok(f) => {
                    let applied: Vec<ChangeHash> = f.get_changes(&[]).iter().map(|c| c.hash()).collect();
                    out["fork"] = json!({
                        "heads": enc::hashes_sorted(&f.get_heads()),
                        "applied": enc::hashes_sorted(&applied),
                        "view": proj::view(&f, None),
                    });
                }
                Err(e) => {
                    out["fork"] = json!({"err": calls::err_name(&e)});
                }
            }
            out
        });
        self.obs_level = saved;
    }
}

impl World {
    fn full_obs(&self, d: &Automerge) -> J {
        let applied: Vec<ChangeHash> = d.get_changes(&[]).iter().map(|c| c.hash()).collect();
        let v = proj::view(d, None);
        json!({
            "heads": enc::hashes_sorted(&d.get_heads()),
            "applied": enc::hashes_sorted(&applied),
            "queued": enc::hashes_sorted(&d.verif_queued_hashes()),
            "missing": enc::hashes_sorted(&d.get_missing_deps(&[])),
            "actor": enc::actor_num(d.get_actor()),
            "vd": chg::digest(v.to_string().as_bytes()),
            "sd": chg::digest(&d.save()),
        })
    }

    /// C28: a transaction of random calls that is rolled back (front: "tx" = Transaction::rollback,
    /// "transact" = transact() with a closure returning Err, "auto" = AutoCommit::rollback on a
    /// document loaded from this replica's save).  Logs the observation before and after and the
    /// hash of one and the same follow-up change made on the rolled-back document and on a clone
    /// taken before the transaction.
    pub fn rollback_tx(&mut self, r: usize, rng: &mut Rng, prof: &Profile, ncalls: usize, front: &str, iso: Option<Vec<ChangeHash>>) {
        let ev = json!({"ev":"rollback","r":r+1,"front":front,"iso": iso.as_ref().map(|h| json!([enc::hashes_sorted(h)])).unwrap_or(json!([]))});
        let front = front.to_string();
        self.guarded(r, ev, |w| {
            let before = w.full_obs(&w.reps[r]);
            let mut clone = w.reps[r].clone();
            let mut done: Vec<J> = vec![];
            let follow = json!({"fn":"put","obj":[0,0],"key":"k1","val":{"k":"int","s":"4242","n":0,"toks":[]}});
            let mut gen_and_exec = |tx: &mut dyn FnMut(&J) -> J, view: &dyn Fn() -> J, rng: &mut Rng, inflight: &mut Vec<J>| {
                for _ in 0..ncalls {
                    let v = view();
                    let call = calls::gen(rng, &v, prof);
                    inflight.push(call.clone());
                    let out = tx(&call);
                    let mut rec = call.clone();
                    rec["res"] = out["res"].clone();
                    rec["ret"] = out["ret"].clone();
                    if let Some(g) = out.get("got") {
                        rec["got"] = g.clone();
                    }
                    done.push(rec);
                }
            };
            let after_doc: Automerge;
            match front.as_str() {
                "transact" => {
                    let res: Result<automerge::transaction::Success<()>, automerge::transaction::Failure<()>> =
                        w.reps[r].transact(|tx| {
                            for _ in 0..ncalls {
                                let v = proj::view(tx, None);
                                let call = calls::gen(rng, &v, prof);
                                let out = calls::exec(tx, &call);
                                let mut rec = call.clone();
                                rec["res"] = out["res"].clone();
                                done.push(rec);
                            }
                            Err(())
                        });
                    let _ = res;
                    after_doc = w.reps[r].clone();
                }
                "auto" => {
                    let bytes = w.reps[r].save();
                    let actor = w.reps[r].get_actor().clone();
                    let mut ac = automerge::AutoCommit::load_with_options(
                        &bytes,
                        LoadOptions::new().text_encoding(w.enc),
                    )
                    .expect("load own save")
                    .with_actor(actor);
                    for _ in 0..ncalls {
                        let v = proj::view(&ac, None);
                        let call = calls::gen(rng, &v, prof);
                        w.inflight.push(call.clone());
                        let out = calls::exec(&mut ac, &call);
                        let mut rec = call.clone();
                        rec["res"] = out["res"].clone();
                        done.push(rec);
                    }
                    ac.rollback();
                    after_doc = ac.document().clone();
                    // the baseline for "auto" is the loaded document, which equals the replica (C11)
                }
                _ => {
                    let w_inflight = &mut w.inflight;
                    let doc = &mut w.reps[r];
                    let mut tx = match &iso {
                        Some(h) => doc.transaction_at(PatchLog::inactive(), h).expect("patch log"),
                        None => doc.transaction(),
                    };
                    {
                        let txr = std::cell::RefCell::new(&mut tx);
                        let mut exec = |c: &J| calls::exec(&mut **txr.borrow_mut(), c);
                        let view = || proj::view(&**txr.borrow(), None);
                        gen_and_exec(&mut exec, &view, rng, w_inflight);
                    }
                    tx.rollback();
                    after_doc = w.reps[r].clone();
                }
            }
            let after = w.full_obs(&after_doc);
            // the same follow-up edit on both documents must give byte-identical changes
            let mut a2 = after_doc.clone();
            let next = |d: &mut Automerge| -> String {
                let mut tx = d.transaction();
                calls::exec(&mut tx, &follow);
                let (h, _) = tx.commit_with(CommitOptions::default().with_time(0));
                match h.and_then(|h| d.get_change_by_hash(&h)) {
                    Some(c) => format!("{}:{}", enc::hash_str(&c.hash()), chg::digest(c.raw_bytes())),
                    None => "none".to_string(),
                }
            };
            let na = next(&mut a2);
            let nc = next(&mut clone);
            json!({"res":"ok","calls":done,"before":before,"after":after,"next_a":na,"next_c":nc})
        });
    }
}

impl World {
    /// C08: diff between two head sets with the projections at both
    pub fn probe_diff(&mut self, r: usize, before: &[ChangeHash], after: &[ChangeHash]) {
        let ev = json!({"ev":"diff","r":r+1,"before":enc::hashes_sorted(before),"after":enc::hashes_sorted(after)});
        let (b, a) = (before.to_vec(), after.to_vec());
        self.guarded(r, ev, |w| {
            let ps = w.reps[r].diff(&b, &a);
            json!({"res":"ok","patches": crate::patchx::patches_json(&ps),
                   "v1": proj::view(&w.reps[r], Some(&b)), "v2": proj::view(&w.reps[r], Some(&a))})
        });
        if let Some(last) = self.log.last_mut() {
            if let Some(m) = last.as_object_mut() {
                m.remove("obs");
            }
        }
    }
}

impl World {
    /// C26: remember cursors (both move modes) for random positions of every sequence object of
    /// replica r.  Nothing is logged: taking a cursor is covered by the projection's round trip.
    pub fn take_cursors(&mut self, r: usize, rng: &mut Rng, per_obj: usize) {
        if self.dead || self.cursors.len() > 60 {
            return;
        }
        let v = proj::view(&self.reps[r], None);
        for o in v.as_array().cloned().unwrap_or_default() {
            let ty = o["ty"].as_str().unwrap_or("");
            let len = o["len"].as_u64().unwrap_or(0) as usize;
            if (ty != "list" && ty != "text") || len == 0 {
                continue;
            }
            let obj = calls::objid_from(&o["id"]);
            for _ in 0..per_obj {
                let i = rng.below(len);
                for (mode, mc) in [("a", automerge::MoveCursor::After), ("b", automerge::MoveCursor::Before)] {
                    let c = catch_unwind(AssertUnwindSafe(|| self.reps[r].get_cursor_moving(&obj, i, None, mc)));
                    if let Ok(Ok(c)) = c {
                        if !self.cursors.iter().any(|(o2, c2, _)| o2 == &obj && c2 == &c) {
                            self.cursors.push((obj.clone(), c, mode));
                        }
                    }
                }
            }
        }
    }

    /// C26: resolve every remembered cursor on replica r, now or at historical heads.
    pub fn probe_cursors(&mut self, r: usize, heads: Option<Vec<ChangeHash>>) {
        if self.cursors.is_empty() {
            return;
        }
        let hj = heads.as_ref().map(|h| enc::hashes_sorted(h)).unwrap_or_default();
        let ev = json!({"ev":"curs","r":r+1,"heads":hj});
        self.guarded(r, ev, |w| {
            let mut list = vec![];
            for (obj, c, mode) in &w.cursors {
                let pos = match w.reps[r].get_cursor_position(obj, c, heads.as_deref()) {
                    Ok(p) => p as i64,
                    Err(_) => -1,
                };
                list.push(json!({"obj": enc::exid(obj), "id": proj::cursor_id(c), "mode": mode, "pos": pos}));
            }
            json!({"res":"ok","list":list})
        });
    }
}

fn summarize<R: ReadDoc>(doc: &R, id: &automerge::ObjId) -> J {
    match doc.object_type(id) {
        Ok(t) => {
            let mut keys: Vec<String> = vec![];
            let mut len = 0usize;
            let mut text: Vec<String> = vec![];
            match t {
                automerge::ObjType::Map | automerge::ObjType::Table => {
                    keys = doc.keys(id).map(|k| enc::safe_str(&k)).collect();
                    keys.sort();
                }
                automerge::ObjType::List => len = doc.length(id),
                automerge::ObjType::Text => {
                    len = doc.length(id);
                    text = doc.text(id).map(|s| enc::str_tokens(&s)).unwrap_or_else(|_| vec!["ERR".into()]);
                }
            }
            json!({"ty": enc::objtype_str(t), "keys": keys, "len": len as i64, "text": text})
        }
        Err(_) => json!({"ty":"err","keys":[],"len":0,"text":[]}),
    }
}

impl World {
    /// C30: remember the ids of all objects replica r can reach, as the live values its API returns
    pub fn take_ids(&mut self, r: usize) {
        if self.dead {
            return;
        }
        let mut todo: Vec<automerge::ObjId> = vec![automerge::ObjId::Root];
        let mut seen: Vec<automerge::ObjId> = vec![];
        while let Some(o) = todo.pop() {
            let d = &self.reps[r];
            let props: Vec<automerge::Prop> = match d.object_type(&o) {
                Ok(automerge::ObjType::Map) | Ok(automerge::ObjType::Table) => d.keys(&o).map(automerge::Prop::Map).collect(),
                Ok(_) => (0..d.length(&o)).map(automerge::Prop::Seq).collect(),
                Err(_) => vec![],
            };
            for p in props {
                if let Ok(all) = d.get_all(&o, p) {
                    for (v, id) in all {
                        if v.is_object() && !seen.contains(&id) {
                            seen.push(id.clone());
                            todo.push(id);
                        }
                    }
                }
            }
        }
        for id in seen {
            if !self.idreg.contains(&id) && self.idreg.len() < 24 {
                self.idreg.push(id);
            }
        }
    }

    /// C30: use every remembered id on replica r: as the live value (whose actor-index hint comes from
    /// another replica / an earlier actor table), with perturbed hints, after to_bytes/try_from and
    /// through its string form; reads and one edit (on a clone) through each form.
    pub fn probe_ids(&mut self, r: usize) {
        if self.idreg.is_empty() {
            return;
        }
        let ev = json!({"ev":"idprobe","r":r+1});
        self.guarded(r, ev, |w| {
            let mut list = vec![];
            for id in &w.idreg {
                let mut forms: Vec<(String, Option<automerge::ObjId>)> = vec![("live".into(), Some(id.clone()))];
                if let automerge::ObjId::Id(c, a, h) = id {
                    forms.push(("hint+1".into(), Some(automerge::ObjId::Id(*c, a.clone(), h + 1))));
                    forms.push(("hint0".into(), Some(automerge::ObjId::Id(*c, a.clone(), 0))));
                    forms.push(("hint9".into(), Some(automerge::ObjId::Id(*c, a.clone(), 9))));
                }
                forms.push(("bytes".into(), automerge::ObjId::try_from(id.to_bytes().as_slice()).ok()));
                forms.push(("str".into(), w.reps[r].import(&id.to_string()).ok().map(|x| x.0)));
                let mut res = vec![];
                for (name, f) in forms {
                    let mut rec = match &f {
                        Some(f) => summarize(&w.reps[r], f),
                        None => json!({"ty":"err","keys":[],"len":0,"text":[]}),
                    };
                    rec["form"] = json!(name);
                    // one edit through this form, on a clone
                    if let Some(f) = &f {
                        let mut c = w.reps[r].clone();
                        let mut tx = c.transaction();
                        let er = match rec["ty"].as_str().unwrap_or("err") {
                            "list" => tx.insert(f, 0, 1i64),
                            "text" => tx.splice_text(f, 0, 0, "z"),
                            _ => tx.put(f, "zz", 1i64),
                        };
                        tx.commit();
                        rec["edit"] = json!(if er.is_ok() { "ok" } else { "err" });
                        rec["after"] = summarize(&c, f);
                    } else {
                        rec["edit"] = json!("err");
                        rec["after"] = json!({"ty":"err","keys":[],"len":0,"text":[]});
                    }
                    res.push(rec);
                }
                list.push(json!({"id": enc::exid(id), "results": res}));
            }
            json!({"res":"ok","list":list})
        });
    }
}

impl World {
    /// C40: load replica r's save with StringMigration::ConvertToText and log what came out
    pub fn migrate(&mut self, r: usize) {
        let ev = json!({"ev":"migrate","r":r+1});
        let enc_ = self.enc;
        self.guarded(r, ev, |w| {
            let bytes = w.reps[r].save();
            let loaded = Automerge::load_with_options(
                &bytes,
                LoadOptions::new()
                    .text_encoding(enc_)
                    .migrate_strings(automerge::StringMigration::ConvertToText),
            );
            match loaded {
                Ok(d) => {
                    let before: std::collections::BTreeSet<ChangeHash> =
                        w.reps[r].get_changes(&[]).iter().map(|c| c.hash()).collect();
                    let all = d.get_changes(&[]);
                    let applied: Vec<ChangeHash> = all.iter().map(|c| c.hash()).collect();
                    let added: Vec<J> = all.iter().filter(|c| !before.contains(&c.hash())).map(World::chgdef).collect();
                    json!({"res":"ok","mapplied": enc::hashes_sorted(&applied), "mheads": enc::hashes_sorted(&d.get_heads()),
                           "added": added, "mview": proj::view(&d, None)})
                }
                Err(e) => json!({"res": calls::err_name(&e)}),
            }
        });
    }
}

impl World {
    /// C32: serialise replica r through AutoSerde, to JSON and to a serializer that enforces length hints
    pub fn probe_serde(&mut self, r: usize) {
        let ev = json!({"ev":"serde","r":r+1});
        self.guarded(r, ev, |w| {
            use serde::Serialize;
            let d = &w.reps[r];
            let a = automerge::AutoSerde::from(d);
            let js = serde_json::to_value(&a);
            let strict = a.serialize(crate::serdex::Strict);
            match js {
                Ok(j) => json!({"res":"ok","json": crate::serdex::tagged(&j),
                               "strict": match strict { Ok(()) => "ok".to_string(), Err(e) => format!("err:{}", e) }}),
                Err(e) => json!({"res": format!("err:{}", e)}),
            }
        });
    }
}

/// C31: the shape of a document at `heads`: object types, number of keys, sequence order and lengths, text widths
/// and conflict multiplicities - values, key names and ids forgotten.  Children of maps and the values of one
/// register are sorted, so the string is canonical.
pub fn shape_at(d: &Automerge, heads: Option<&[ChangeHash]>) -> String {
    fn reg(d: &Automerge, obj: &automerge::ObjId, p: automerge::Prop, heads: Option<&[ChangeHash]>, depth: usize) -> String {
        let all = match heads {
            Some(h) => d.get_all_at(obj, p, h),
            None => d.get_all(obj, p),
        }
        .unwrap_or_default();
        let mut vs: Vec<String> = all
            .iter()
            .map(|(v, id)| match v {
                automerge::Value::Object(_) => obj_shape(d, id, heads, depth + 1),
                automerge::Value::Scalar(s) => match s.as_ref() {
                    automerge::ScalarValue::Str(_) => "s".to_string(),
                    automerge::ScalarValue::Int(_) | automerge::ScalarValue::Uint(_) | automerge::ScalarValue::F64(_) => "n".to_string(),
                    automerge::ScalarValue::Counter(_) => "c".to_string(),
                    automerge::ScalarValue::Timestamp(_) => "t".to_string(),
                    automerge::ScalarValue::Boolean(_) => "b".to_string(),
                    automerge::ScalarValue::Bytes(_) => "y".to_string(),
                    automerge::ScalarValue::Null => "0".to_string(),
                    _ => "u".to_string(),
                },
            })
            .collect();
        vs.sort();
        format!("({})", vs.join("|"))
    }
    fn obj_shape(d: &Automerge, obj: &automerge::ObjId, heads: Option<&[ChangeHash]>, depth: usize) -> String {
        if depth > 6 {
            return "...".into();
        }
        match d.object_type(obj) {
            Ok(automerge::ObjType::Map) | Ok(automerge::ObjType::Table) => {
                let keys: Vec<String> = match heads {
                    Some(h) => d.keys_at(obj, h).collect(),
                    None => d.keys(obj).collect(),
                };
                let mut kids: Vec<String> = keys.iter().map(|k| reg(d, obj, automerge::Prop::Map(k.clone()), heads, depth)).collect();
                kids.sort();
                format!("M{{{}}}", kids.join(","))
            }
            Ok(automerge::ObjType::List) => {
                let len = match heads {
                    Some(h) => d.length_at(obj, h),
                    None => d.length(obj),
                };
                let kids: Vec<String> = (0..len).map(|i| reg(d, obj, automerge::Prop::Seq(i), heads, depth)).collect();
                format!("L[{}]", kids.join(","))
            }
            Ok(automerge::ObjType::Text) => {
                let len = match heads {
                    Some(h) => d.length_at(obj, h),
                    None => d.length(obj),
                };
                // (mark runs are not part of the shape: values are replaced independently, so equal
                // adjacent runs may split)
                format!("T{}", len)
            }
            Err(_) => "?".into(),
        }
    }
    obj_shape(d, &automerge::ObjId::Root, heads, 0)
}

impl World {
    /// C31: anonymize replica r and log both change graphs (in get_changes order) and the shapes at the current
    /// heads and at every single change of both documents
    pub fn probe_anonymize(&mut self, r: usize) {
        let ev = json!({"ev":"anon","r":r+1});
        self.guarded(r, ev, |w| {
            let d = &w.reps[r];
            let side = |x: &Automerge| -> J {
                let cs = x.get_changes(&[]);
                let idx: BTreeMap<ChangeHash, usize> = cs.iter().enumerate().map(|(i, c)| (c.hash(), i + 1)).collect();
                let actors: Vec<ActorId> = {
                    let mut a: Vec<ActorId> = cs.iter().map(|c| c.actor_id().clone()).collect();
                    a.sort();
                    a.dedup();
                    a
                };
                let changes: Vec<J> = cs
                    .iter()
                    .map(|c| {
                        let mut deps: Vec<usize> = c.deps().iter().filter_map(|h| idx.get(h).copied()).collect();
                        deps.sort();
                        json!({"seq": c.seq() as i64, "nops": c.len() as i64, "deps": deps,
                               "actor": actors.iter().position(|a| a == c.actor_id()).unwrap_or(0) as i64 + 1,
                               "shape": shape_at(x, Some(&[c.hash()]))})
                    })
                    .collect();
                json!({"changes": changes, "shape": shape_at(x, None), "nheads": x.get_heads().len()})
            };
            match d.anonymize() {
                Ok(a) => {
                    let bytes = a.save();
                    // (reload with the document's own text encoding: widths are read in that encoding)
                    let reload = match Automerge::load_with_options(&bytes, automerge::LoadOptions::new().text_encoding(a.text_encoding())) {
                        Ok(b) => {
                            let mut h1 = a.get_heads();
                            let mut h2 = b.get_heads();
                            h1.sort();
                            h2.sort();
                            h1 == h2 && shape_at(&b, None) == shape_at(&a, None)
                        }
                        Err(_) => false,
                    };
                    json!({"res":"ok","orig": side(d), "anon": side(&a), "reload": reload})
                }
                Err(e) => json!({"res": format!("err:{}", e).chars().take(80).collect::<String>()}),
            }
        });
    }
}
