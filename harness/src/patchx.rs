//! Patches -> JSON in the vocabulary of View.tla
use crate::enc;
use automerge::{Patch, PatchAction, Prop};
use serde_json::{json, Value as J};

fn prop_fields(p: &Prop, m: &mut serde_json::Map<String, J>) {
    match p {
        Prop::Map(k) => {
            m.insert("iskey".into(), json!(true));
            m.insert("key".into(), json!(enc::safe_str(k)));
            m.insert("index".into(), json!(0));
        }
        Prop::Seq(i) => {
            m.insert("iskey".into(), json!(false));
            m.insert("key".into(), json!(""));
            m.insert("index".into(), json!(*i));
        }
    }
}

pub fn patch_json(p: &Patch) -> J {
    let mut m = serde_json::Map::new();
    m.insert("obj".into(), enc::exid(&p.obj));
    match &p.action {
        PatchAction::PutMap { key, value, conflict } => {
            m.insert("act".into(), json!("PutMap"));
            m.insert("key".into(), json!(enc::safe_str(key)));
            m.insert("val".into(), enc::value(&value.0));
            m.insert("id".into(), enc::exid(&value.1));
            m.insert("conflict".into(), json!(*conflict));
        }
        PatchAction::PutSeq { index, value, conflict } => {
            m.insert("act".into(), json!("PutSeq"));
            m.insert("index".into(), json!(*index));
            m.insert("val".into(), enc::value(&value.0));
            m.insert("id".into(), enc::exid(&value.1));
            m.insert("conflict".into(), json!(*conflict));
        }
        PatchAction::Insert { index, values } => {
            m.insert("act".into(), json!("Insert"));
            m.insert("index".into(), json!(*index));
            let vs: Vec<J> = values
                .iter()
                .map(|(v, id, c)| json!({"val": enc::value(v), "id": enc::exid(id), "conflict": *c}))
                .collect();
            m.insert("values".into(), J::Array(vs));
        }
        PatchAction::SpliceText { index, value, marks } => {
            m.insert("act".into(), json!("SpliceText"));
            m.insert("index".into(), json!(*index));
            m.insert("toks".into(), json!(enc::str_tokens(&value.make_string())));
            let mk: Vec<J> = marks
                .as_ref()
                .map(|ms| ms.iter().map(|(n, v)| json!({"name": enc::safe_str(n), "val": enc::scalar(v)})).collect())
                .unwrap_or_default();
            m.insert("marks".into(), J::Array(mk));
        }
        PatchAction::Increment { prop, value } => {
            m.insert("act".into(), json!("Increment"));
            prop_fields(prop, &mut m);
            m.insert("by".into(), json!(*value));
        }
        PatchAction::Conflict { prop } => {
            m.insert("act".into(), json!("Conflict"));
            prop_fields(prop, &mut m);
        }
        PatchAction::DeleteMap { key } => {
            m.insert("act".into(), json!("DeleteMap"));
            m.insert("key".into(), json!(enc::safe_str(key)));
        }
        PatchAction::DeleteSeq { index, length } => {
            m.insert("act".into(), json!("DeleteSeq"));
            m.insert("index".into(), json!(*index));
            m.insert("length".into(), json!(*length));
        }
        PatchAction::Mark { marks } => {
            m.insert("act".into(), json!("Mark"));
            let mk: Vec<J> = marks
                .iter()
                .map(|mm| json!({"name": enc::safe_str(&mm.name), "val": enc::scalar(&mm.value), "start": mm.start, "end": mm.end}))
                .collect();
            m.insert("marks".into(), J::Array(mk));
        }
    }
    J::Object(m)
}

pub fn patches_json(ps: &[Patch]) -> J {
    J::Array(ps.iter().map(patch_json).collect())
}
