//! Scenario generators (seeded random programs over a few replicas).
use crate::calls::Profile;
use crate::enc;
use crate::rng::Rng;
use crate::world::{ObsLevel, World};
use automerge::{ChangeHash, TextEncoding};
use std::collections::{BTreeMap, BTreeSet};

/// ancestors (inclusive) of a set of hashes among known changes
pub fn ancestors(w: &World, hs: &[String]) -> BTreeSet<String> {
    let mut seen: BTreeSet<String> = BTreeSet::new();
    let mut stack: Vec<String> = hs.to_vec();
    while let Some(h) = stack.pop() {
        if !seen.insert(h.clone()) {
            continue;
        }
        if let Some(c) = w.known.get(&h) {
            for d in c.deps() {
                stack.push(enc::hash_str(d));
            }
        }
    }
    seen
}

pub fn applied_of(w: &World, r: usize) -> Vec<String> {
    w.reps[r].get_changes(&[]).iter().map(|c| enc::hash_str(&c.hash())).collect()
}

/// a random antichain of replica r's applied changes (as real hashes)
pub fn random_antichain(w: &World, r: usize, rng: &mut Rng) -> Vec<ChangeHash> {
    let app = applied_of(w, r);
    if app.is_empty() {
        return vec![];
    }
    let k = 1 + rng.below(2.min(app.len()));
    let mut pick: Vec<String> = vec![];
    for _ in 0..k {
        let h = app[rng.below(app.len())].clone();
        if !pick.contains(&h) {
            pick.push(h);
        }
    }
    // drop members that are ancestors of other members
    let mut out = vec![];
    for h in &pick {
        let others: Vec<String> = pick.iter().filter(|x| *x != h).cloned().collect();
        let anc = ancestors(w, &others);
        if !anc.contains(h) {
            out.push(w.known[h].hash());
        }
    }
    out
}

pub fn unknown_hash(rng: &mut Rng) -> ChangeHash {
    let mut b = [0u8; 32];
    for x in b.iter_mut() {
        *x = rng.below(256) as u8;
    }
    ChangeHash(b)
}

pub struct GraphOpts {
    pub steps: usize,
    pub max_reps: usize,
    pub max_changes: usize,
    pub dup_actors: bool,
    pub obs: ObsLevel,
    pub prof: Profile,
    pub enc: TextEncoding,
    /// cumulative thresholds (out of 100) for: commit, empty, iso, merge, deliver, fork, forkat,
    /// setactor, saveload, missing (rest: getchanges)
    pub weights: [usize; 10],
    /// start with a fork that keeps the actor id of its origin
    pub twin_start: bool,
    /// explicit calls of a first transaction by replica 0 that every replica then merges
    pub base_calls: Vec<serde_json::Value>,
    /// closing historical reads: 0 = none, n = up to n antichains per replica (singletons and pairs)
    pub readat: usize,
    /// replace every replica by load(save(replica)) before the closing historical reads (C11)
    pub reload_before_readat: bool,
    /// percentage of transactions that are rolled back instead of committed (C28)
    pub rollback_pct: u64,
    /// closing diff probes per replica between random pairs of head sets (C08)
    pub diffs: usize,
    /// log patches of every mutating call (C09)
    pub log_patches: bool,
}

pub const W_DEFAULT: [usize; 10] = [34, 38, 46, 56, 78, 84, 88, 91, 95, 98];
pub const W_DOC: [usize; 10] = [50, 51, 55, 72, 90, 94, 96, 96, 100, 100];
pub const W_CONFLICT: [usize; 10] = [50, 50, 52, 70, 94, 96, 96, 96, 100, 100];
pub const W_RELOAD: [usize; 10] = [40, 46, 50, 62, 74, 76, 76, 78, 96, 98];
pub const W_ISO: [usize; 10] = [30, 32, 62, 76, 90, 94, 96, 96, 100, 100];
pub const W_DUP: [usize; 10] = [36, 38, 40, 50, 88, 92, 92, 95, 98, 99];

/// Random program mixing commits, empty commits, isolated commits, merges, out-of-order and
/// duplicated deliveries through several ingestion paths, forks (including forks that keep an
/// actor id in use elsewhere), actor switches, save/load and probes.
pub fn graph_scenario(idx: usize, rng: &mut Rng, o: &GraphOpts, family: &str) -> World {
    let mut w = World::new(o.enc, o.obs, idx, family);
    w.log_patches = o.log_patches;
    w.auto_shadow = family == "autofront";
    w.desc_actors = family == "ids" || family == "idshi" || family == "longgraph";
    w.hi_actors = family == "idshi";
    let mut next_actor: u8 = 1;
    let n0 = 2 + rng.below(2);
    for _ in 0..n0 {
        w.add_rep(next_actor);
        next_actor += 1;
    }
    if !o.base_calls.is_empty() {
        w.commit(0, rng, &o.prof, 0, Some(o.base_calls.clone()), None);
        for r in 1..w.n() {
            w.merge(r, 0);
        }
    }
    if o.twin_start {
        let k = rng.below(3);
        for _ in 0..k {
            w.commit(0, rng, &o.prof, 1, None, None);
        }
        w.fork(0, 1);
    }
    let wt = o.weights;
    let cursors = matches!(family, "cursor" | "cursortext");
    let ids = family == "ids" || family == "idshi";
    for _ in 0..o.steps {
        if w.dead {
            break;
        }
        let n = w.n();
        if cursors && rng.chance(1, 3) {
            let r = rng.below(n);
            w.take_cursors(r, rng, 2);
        }
        if ids && rng.chance(1, 3) {
            let r = rng.below(n);
            w.take_ids(r);
            if rng.chance(1, 2) {
                w.probe_ids(rng.below(n));
            }
        }
        let r = rng.below(n);
        let total = w.known.len();
        let c = rng.below(100);
        if c < wt[0] {
            if o.rollback_pct > 0 && rng.chance(o.rollback_pct, 100) {
                let k = 1 + rng.below(4);
                let front = *rng.pick(&["tx", "tx", "transact", "auto", "txat", "txat"]);
                let iso = if front == "txat" {
                    let h = random_antichain(&w, r, rng);
                    if h.is_empty() { None } else { Some(h) }
                } else {
                    None
                };
                w.rollback_tx(r, rng, &o.prof, k, front, iso);
            } else if total < o.max_changes {
                let k = 1 + rng.below(3);
                w.commit(r, rng, &o.prof, k, None, None);
            }
        } else if c < wt[1] {
            if total < o.max_changes {
                w.empty_commit(r);
            }
        } else if c < wt[2] {
            if total < o.max_changes {
                let h = random_antichain(&w, r, rng);
                if !h.is_empty() {
                    // sometimes an isolated transaction without any call (it commits nothing, but has
                    // already chosen - and must give back - its isolated actor)
                    let k = rng.below(3);
                    w.commit(r, rng, &o.prof, k, None, Some(h));
                }
            }
        } else if c < wt[3] {
            let s = rng.below(n);
            w.merge(r, s);
        } else if c < wt[4] {
            // deliver some subset of another replica's (or all known) changes, shuffled
            let pool: Vec<String> = if rng.chance(1, 4) {
                w.known.keys().cloned().collect()
            } else {
                applied_of(&w, rng.below(n))
            };
            let mine: BTreeSet<String> = applied_of(&w, r).into_iter().collect();
            // C06/C38: one batch that carries two different new changes with the same (actor, seq), after other new
            // changes: the call must fail and leave applied set and queue as they were
            if o.dup_actors && rng.chance(1, 3) {
                let mut twins: Vec<(String, String)> = vec![];
                let ks: Vec<&String> = w.known.keys().collect();
                for i in 0..ks.len() {
                    for j in (i + 1)..ks.len() {
                        let (a, b) = (&w.known[ks[i]], &w.known[ks[j]]);
                        if a.actor_id() == b.actor_id() && a.seq() == b.seq() && !mine.contains(ks[i]) && !mine.contains(ks[j]) {
                            twins.push((ks[i].clone(), ks[j].clone()));
                        }
                    }
                }
                if !twins.is_empty() {
                    let (ta, tb) = twins[rng.below(twins.len())].clone();
                    let mut batch: Vec<String> = w.known.keys().filter(|h| !mine.contains(*h) && **h != ta && **h != tb && rng.chance(1, 2)).take(3).cloned().collect();
                    rng.shuffle(&mut batch);
                    batch.push(ta);
                    if rng.chance(1, 3) && !batch.is_empty() {
                        let x = batch.remove(0);
                        batch.push(x);
                    }
                    batch.push(tb);
                    let via = *rng.pick(&["apply", "batch", "loadinc"]);
                    w.deliver(r, via, &batch);
                    continue;
                }
            }
            let mut cand: Vec<String> = pool.into_iter().filter(|h| !mine.contains(h) || rng.chance(1, 10)).collect();
            if cand.is_empty() {
                continue;
            }
            rng.shuffle(&mut cand);
            let k = 1 + rng.below(cand.len().min(4));
            let mut batch: Vec<String> = cand[..k].to_vec();
            if rng.chance(1, 6) {
                let d = batch[rng.below(batch.len())].clone();
                batch.push(d);
            }
            let via = *rng.pick(&["apply", "batch", "each", "loadinc"]);
            w.deliver(r, via, &batch);
            // C06: whatever a failing call did, the document must still save and load
            if w.log.last().map(|e| e["res"].as_str().unwrap_or("").starts_with("err")).unwrap_or(false) {
                w.save_load(r, true, true);
            }
        } else if c < wt[5] {
            if n < o.max_reps {
                let actor = if o.dup_actors && rng.chance(1, 3) {
                    (enc::actor_num(w.reps[r].get_actor()) % 256) as u8
                } else {
                    next_actor += 1;
                    next_actor - 1
                };
                w.fork(r, actor);
            }
        } else if c < wt[6] {
            if n < o.max_reps {
                let h = random_antichain(&w, r, rng);
                let h = if rng.chance(1, 8) { vec![unknown_hash(rng)] } else { h };
                next_actor += 1;
                w.fork_at(r, &h, next_actor - 1);
            }
        } else if c < wt[7] {
            let actor = if o.dup_actors && rng.chance(1, 2) {
                1 + rng.below((next_actor - 1) as usize) as u8
            } else {
                next_actor += 1;
                next_actor - 1
            };
            w.set_actor(r, actor);
        } else if c < wt[8] {
            w.save_load(r, rng.chance(1, 2), rng.chance(3, 4));
        } else if c < wt[9] {
            let mut hs = random_antichain(&w, rng.below(n), rng);
            if rng.chance(1, 3) {
                hs.push(unknown_hash(rng));
            }
            w.probe_missing(r, &hs);
        } else {
            let hs = random_antichain(&w, r, rng);
            w.probe_getchanges(r, &hs);
        }
        if next_actor > 17 {
            break;
        }
    }
    // C09: the mutating paths the replicas do not take themselves, on private copies
    if o.log_patches && !w.dead {
        for r in 0..w.n() {
            let s = (r + 1) % w.n();
            let h = random_antichain(&w, r, rng);
            w.probe_patch_paths(r, s, &h, rng, &o.prof);
        }
    }
    // C10: closing retrievals for every single-change have-set (and a few pairs) on every replica
    if family == "longgraph" && !w.dead {
        for r in 0..w.n() {
            let app = applied_of(&w, r);
            for (k, h) in app.iter().enumerate().take(48) {
                let mut hs = vec![w.known[h].hash()];
                if k % 5 == 4 {
                    hs.push(w.known[&app[rng.below(app.len())]].hash());
                }
                w.probe_getchanges(r, &hs);
            }
        }
    }
    // closing historical reads at every single change and at pairs of concurrent changes
    if o.readat > 0 {
        for r in 0..w.n() {
            if o.reload_before_readat && !w.dead {
                w.save_load(r, rng.chance(1, 2), rng.chance(1, 2));
                w.probe_getchanges(r, &[]);
            }
            let app = applied_of(&w, r);
            let mut sets: Vec<Vec<String>> = app.iter().map(|h| vec![h.clone()]).collect();
            for i in 0..app.len() {
                for j in (i + 1)..app.len() {
                    let a = ancestors(&w, &[app[i].clone()]);
                    let b = ancestors(&w, &[app[j].clone()]);
                    if !a.contains(&app[j]) && !b.contains(&app[i]) {
                        sets.push(vec![app[i].clone(), app[j].clone()]);
                    }
                }
            }
            rng.shuffle(&mut sets);
            for hs in sets.into_iter().take(o.readat) {
                if w.dead {
                    break;
                }
                let heads: Vec<ChangeHash> = hs.iter().map(|h| w.known[h].hash()).collect();
                w.probe_readat(r, &heads);
                if o.reload_before_readat {
                    if let Some(last) = w.log.last_mut() {
                        last["afterload"] = serde_json::json!(true);
                    }
                }
            }
        }
    }
    if family.starts_with("badargs") {
        for r in 0..w.n() {
            if !w.dead {
                crate::badargs::badcalls(&mut w, r, rng);
            }
        }
    }
    if family == "anon" || family == "anontext" {
        for r in 0..w.n() {
            if !w.dead {
                w.probe_anonymize(r);
            }
        }
    }
    if family == "serde" {
        for r in 0..w.n() {
            if !w.dead {
                w.probe_serde(r);
            }
        }
    }
    if family == "migrate" || family == "migrateconf" {
        for r in 0..w.n() {
            if !w.dead {
                w.migrate(r);
            }
        }
    }
    if ids {
        for r in 0..w.n() {
            if !w.dead {
                w.take_ids(r);
            }
        }
        for r in 0..w.n() {
            if !w.dead {
                w.probe_ids(r);
            }
        }
    }
    if cursors {
        for r in 0..w.n() {
            if w.dead {
                break;
            }
            w.probe_cursors(r, None);
            for _ in 0..3 {
                let h = random_antichain(&w, r, rng);
                if !h.is_empty() {
                    w.probe_cursors(r, Some(h));
                }
            }
        }
    }
    // closing diffs between pairs of head sets, both directions, including the empty heads
    if o.diffs > 0 {
        for r in 0..w.n() {
            for _ in 0..o.diffs {
                if w.dead {
                    break;
                }
                let h1 = if rng.chance(1, 6) { vec![] } else { random_antichain(&w, r, rng) };
                let h2 = if rng.chance(1, 6) { w.reps[r].get_heads() } else { random_antichain(&w, r, rng) };
                w.probe_diff(r, &h1, &h2);
                if rng.chance(1, 2) {
                    w.probe_diff(r, &h2, &h1);
                }
            }
        }
    }
    // closing probes on every replica
    for r in 0..w.n() {
        if w.dead {
            break;
        }
        let hs = random_antichain(&w, r, rng);
        w.probe_getchanges(r, &hs);
        w.probe_getchanges(r, &[]);
    }
    let _ = BTreeMap::<u8, u8>::new();
    w
}

/// C01: writers produce a conflict-rich history, then several fresh readers receive the same
/// set of changes in different orders, batchings and through different ingestion paths.
pub fn converge_scenario(idx: usize, rng: &mut Rng, o: &GraphOpts, family: &str, readers: usize) -> World {
    let mut w = graph_scenario(idx, rng, o, family);
    if w.dead {
        return w;
    }
    let all: Vec<String> = w.known.keys().cloned().collect();
    if all.is_empty() {
        return w;
    }
    let mut next_actor = 10u8;
    for k in 0..readers {
        if w.dead {
            break;
        }
        let r = w.add_rep(next_actor);
        next_actor += 1;
        match k % 4 {
            0 | 1 => {
                // random order, random batches, random path per batch, occasional duplicates
                let mut order = all.clone();
                rng.shuffle(&mut order);
                let mut i = 0;
                while i < order.len() {
                    let n = 1 + rng.below(4.min(order.len() - i));
                    let mut batch: Vec<String> = order[i..i + n].to_vec();
                    if rng.chance(1, 5) {
                        batch.push(order[rng.below(order.len())].clone());
                    }
                    let via = *rng.pick(&["apply", "batch", "each", "loadinc"]);
                    w.deliver(r, via, &batch);
                    i += n;
                }
            }
            2 => {
                // everything in one batch
                let mut order = all.clone();
                rng.shuffle(&mut order);
                let via = *rng.pick(&["apply", "loadinc"]);
                w.deliver(r, via, &order);
            }
            _ => {
                // merges from every writer in random order
                let mut ws: Vec<usize> = (0..r).collect();
                rng.shuffle(&mut ws);
                for s in ws {
                    w.merge(r, s);
                }
            }
        }
        if rng.chance(1, 3) {
            w.save_load(r, rng.chance(1, 2), true);
        }
    }
    w
}
