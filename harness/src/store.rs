//! Storage scenarios (C11-C14): a writer produces an append-only file (one save followed by
//! incremental saves); the file is then loaded whole, cut at every byte, fed piecewise to readers
//! and bit-flipped.
use crate::calls::{self, Profile};
use crate::rng::Rng;
use crate::world::{panic_msg, ObsLevel, World};
use crate::{chg, enc, proj};
use automerge::{Automerge, Change, ChangeHash, LoadOptions, OnPartialLoad, ReadDoc, SaveOptions, TextEncoding};
use serde_json::{json, Value as J};
use std::panic::{catch_unwind, AssertUnwindSafe};

const MAGIC: [u8; 4] = [0x85, 0x6f, 0x4a, 0x83];

/// split bytes into chunks (offset, total length, type); None if the layout cannot be parsed
pub fn chunk_layout(bytes: &[u8]) -> Option<Vec<(usize, usize, u8)>> {
    let mut out = vec![];
    let mut pos = 0;
    while pos < bytes.len() {
        if bytes.len() < pos + 10 || bytes[pos..pos + 4] != MAGIC {
            return None;
        }
        let ty = bytes[pos + 8];
        let mut len: usize = 0;
        let mut shift = 0;
        let mut p = pos + 9;
        loop {
            let b = *bytes.get(p)?;
            len |= ((b & 0x7f) as usize) << shift;
            p += 1;
            if b & 0x80 == 0 {
                break;
            }
            shift += 7;
            if shift > 35 {
                return None;
            }
        }
        let total = (p - pos) + len;
        if pos + total > bytes.len() {
            return None;
        }
        out.push((pos, total, ty));
        pos += total;
    }
    Some(out)
}

fn chunk_descr(bytes: &[u8]) -> Vec<J> {
    let mut out = vec![];
    for (off, len, ty) in chunk_layout(bytes).unwrap_or_default() {
        let b = &bytes[off..off + len];
        let (kind, hashes): (&str, Vec<String>) = match ty {
            0 => {
                let hs = Automerge::load(b)
                    .map(|d| d.get_changes(&[]).iter().map(|c| enc::hash_str(&c.hash())).collect())
                    .unwrap_or_default();
                ("doc", hs)
            }
            1 | 2 => {
                let hs = Change::from_bytes(b.to_vec()).map(|c| vec![enc::hash_str(&c.hash())]).unwrap_or_default();
                ("chg", hs)
            }
            _ => ("other", vec![]),
        };
        let mut hs = hashes;
        hs.sort();
        out.push(json!({"kind": kind, "len": len, "changes": hs}));
    }
    out
}

fn view_digest<R: ReadDoc>(d: &R) -> String {
    chg::digest(proj::view(d, None).to_string().as_bytes())
}

fn doc_summary(d: &Automerge) -> J {
    let applied: Vec<ChangeHash> = d.get_changes(&[]).iter().map(|c| c.hash()).collect();
    json!({
        "applied": enc::hashes_sorted(&applied),
        "queued": enc::hashes_sorted(&d.verif_queued_hashes()),
        "heads": enc::hashes_sorted(&d.get_heads()),
        "vd": view_digest(d),
    })
}

fn load_outcome(bytes: &[u8], strict: bool, enc_: TextEncoding) -> J {
    let r = catch_unwind(AssertUnwindSafe(|| {
        Automerge::load_with_options(
            bytes,
            LoadOptions::new()
                .text_encoding(enc_)
                .on_partial_load(if strict { OnPartialLoad::Error } else { OnPartialLoad::Ignore }),
        )
    }));
    match r {
        Ok(Ok(d)) => {
            let s = catch_unwind(AssertUnwindSafe(|| doc_summary(&d)));
            match s {
                Ok(mut s) => {
                    s["res"] = json!("ok");
                    s
                }
                Err(p) => json!({"res": format!("read-{}", panic_msg(p))}),
            }
        }
        Ok(Err(e)) => json!({"res": calls::err_name(&e)}),
        Err(p) => json!({"res": panic_msg(p)}),
    }
}

pub struct StoreOpts {
    pub crash: bool,
    pub feed: bool,
    pub flips: usize, // 0 = none, otherwise: max number of bit flips per file (usize::MAX = all)
    pub enc: TextEncoding,
    pub prof: Profile,
}

pub fn store_scenario(idx: usize, rng: &mut Rng, o: &StoreOpts, family: &str) -> World {
    let mut w = World::new(o.enc, ObsLevel::View, idx, family);
    let wr = w.add_rep(1);
    let hr = w.add_rep(2);
    let n0 = 1 + rng.below(2);
    for _ in 0..n0 {
        let k = 1 + rng.below(3);
        w.commit(wr, rng, &o.prof, k, None, None);
    }
    // every third scenario: a long prelude (the change graph caches a clock at every 16th change) by two actors,
    // then the writer switches to a fresh actor that sorts first and whose first transaction commits nothing
    if idx % 3 == 2 {
        for k in 0..(18 + rng.below(8)) {
            if k % 4 == 3 {
                w.merge(hr, wr);
                w.commit(hr, rng, &o.prof, 1, None, None);
                w.merge(wr, hr);
            } else {
                w.commit(wr, rng, &o.prof, 1, None, None);
            }
        }
        w.set_actor(wr, 0);
        w.rollback_tx(wr, rng, &o.prof, 1, "tx", None);
    }
    let deflate = rng.chance(1, 2);
    let mut pieces: Vec<Vec<u8>> = vec![];
    let mut cursor: Vec<ChangeHash>;
    // piece 0: full save
    {
        let bytes = w.reps[wr].save_with_options(SaveOptions { deflate, retain_orphans: true });
        cursor = w.reps[wr].get_heads();
        let ev = json!({"ev":"piece","r":wr+1,"i":0,"kind":"full","deflate":deflate,"len":bytes.len(),
            "chunks": chunk_descr(&bytes), "since": [], "w": doc_summary(&w.reps[wr])});
        w.log.push(ev);
        pieces.push(bytes);
    }
    let rounds = 2 + rng.below(4);
    for _ in 0..rounds {
        if w.dead {
            return w;
        }
        let m = 1 + rng.below(2);
        for _ in 0..m {
            match rng.below(10) {
                0..=5 => {
                    let k = 1 + rng.below(3);
                    w.commit(wr, rng, &o.prof, k, None, None);
                }
                6..=8 => {
                    if w.reps[hr].get_heads().is_empty() || rng.chance(1, 2) {
                        w.merge(hr, wr);
                    }
                    let k = 1 + rng.below(2);
                    w.commit(hr, rng, &o.prof, k, None, None);
                    w.merge(wr, hr);
                }
                _ => w.empty_commit(wr),
            }
        }
        if w.dead {
            return w;
        }
        // (a panic of the library while saving is an observation, not a failure of the harness: the event below has no
        // counterpart in Trace_Storage, so the scenario is rejected there)
        let saved = catch_unwind(AssertUnwindSafe(|| w.reps[wr].save_after(&cursor)));
        let bytes = match saved {
            Ok(b) => b,
            Err(p) => {
                w.log.push(json!({"ev":"save-panicked","r":wr+1,"call":"save_after","res":panic_msg(p)}));
                w.dead = true;
                return w;
            }
        };
        if bytes.is_empty() {
            continue;
        }
        let since = enc::hashes_sorted(&cursor);
        cursor = w.reps[wr].get_heads();
        let ev = json!({"ev":"piece","r":wr+1,"i":pieces.len(),"kind":"after","len":bytes.len(),
            "chunks": chunk_descr(&bytes), "since": since, "w": doc_summary(&w.reps[wr])});
        w.log.push(ev);
        pieces.push(bytes);
    }
    let file: Vec<u8> = pieces.concat();
    // whole-file loads (C11/C12)
    for strict in [true, false] {
        let mut out = load_outcome(&file, strict, o.enc);
        out["ev"] = json!("load");
        out["mode"] = json!(if strict { "strict" } else { "partial" });
        out["cut"] = json!(file.len());
        w.log.push(out);
    }
    // crash points (C13): every byte offset
    if o.crash {
        let mut sets: Vec<J> = vec![];
        let mut cuts: Vec<J> = vec![];
        for cut in 0..=file.len() {
            let s = load_outcome(&file[..cut], true, o.enc);
            let p = load_outcome(&file[..cut], false, o.enc);
            let key = json!({"applied": p.get("applied").cloned().unwrap_or(json!([])),
                             "queued": p.get("queued").cloned().unwrap_or(json!([])),
                             "heads": p.get("heads").cloned().unwrap_or(json!([])),
                             "vd": p.get("vd").cloned().unwrap_or(json!(""))});
            let pi = match sets.iter().position(|x| *x == key) {
                Some(i) => i,
                None => {
                    sets.push(key);
                    sets.len() - 1
                }
            };
            let cls = |r: &J| -> &'static str {
                let s = r["res"].as_str().unwrap_or("");
                if s == "ok" { "ok" } else if s.starts_with("err:") { "err" } else { "panic" }
            };
            cuts.push(json!({"c": cut, "s": cls(&s), "p": cls(&p), "pi": pi + 1,
                             "sa": s.get("applied").map(|a| a.as_array().map(|x| x.len()).unwrap_or(0)).unwrap_or(0)}));
        }
        w.log.push(json!({"ev":"crash","total":file.len(),"sets":sets,"cuts":cuts}));
    }
    // piecewise feeding (C12)
    if o.feed && pieces.len() >= 2 {
        let j = rng.below(pieces.len() - 1); // reader equals the writer as of piece j
        let start: Vec<u8> = pieces[..=j].concat();
        let r = catch_unwind(AssertUnwindSafe(|| Automerge::load_with_options(&start, LoadOptions::new().text_encoding(o.enc))));
        if let Ok(Ok(mut reader)) = r {
            w.log.push(json!({"ev":"feedstart","upto":j,"d":doc_summary(&reader)}));
            let mut order: Vec<usize> = ((j + 1)..pieces.len()).collect();
            rng.shuffle(&mut order);
            // insert repeats
            let extra = rng.below(3);
            for _ in 0..extra {
                let x = order[rng.below(order.len())];
                let at = rng.below(order.len() + 1);
                order.insert(at, x);
            }
            for &k in &order {
                let res = catch_unwind(AssertUnwindSafe(|| reader.load_incremental(&pieces[k])));
                let resj = match res {
                    Ok(Ok(_)) => json!("ok"),
                    Ok(Err(e)) => json!(calls::err_name(&e)),
                    Err(p) => json!(panic_msg(p)),
                };
                w.log.push(json!({"ev":"feed","i":k,"res":resj,"d":doc_summary(&reader)}));
            }
            // feeding everything again has no further effect (observation and saved bytes)
            let before = doc_summary(&reader);
            let sbefore = chg::digest(&reader.save());
            for k in (j + 1)..pieces.len() {
                let _ = catch_unwind(AssertUnwindSafe(|| reader.load_incremental(&pieces[k])));
            }
            let _ = catch_unwind(AssertUnwindSafe(|| reader.load_incremental(&pieces[0])));
            w.log.push(json!({"ev":"refeed","before":before,"after":doc_summary(&reader),
                "sbefore":sbefore,"safter":chg::digest(&reader.save())}));
        }
    }
    // single-bit flips (C14): the append-only file; the file followed by a DEFLATE-compressed change chunk
    // (Change::bytes() of a change above the compression threshold); the whole history as one bundle chunk
    if o.flips > 0 {
        let mut files: Vec<(&str, Vec<u8>)> = vec![("file", file.clone())];
        let mut compressed: Option<Vec<u8>> = None;
        {
            use automerge::transaction::{CommitOptions, Transactable};
            let mut d = w.reps[wr].clone();
            let mut tx = d.transaction();
            if let Ok(t) = tx.put_object(automerge::ROOT, "big", automerge::ObjType::Text) {
                // poorly compressible content: most flips leave a stream that still inflates
                let s: String = (0..300u32).map(|k| char::from(b'a' + ((k * k * 7 + k / 3) % 26) as u8)).collect();
                let _ = tx.splice_text(&t, 0, 0, &s);
            }
            let (h, _) = tx.commit_with(CommitOptions::default().with_time(5).with_message("compressed change"));
            if let Some(mut c) = h.and_then(|h| d.get_change_by_hash(&h)) {
                let cb = c.bytes().to_vec();
                if cb.len() < c.raw_bytes().len() {
                    let mut f2 = file.clone();
                    f2.extend_from_slice(&cb);
                    compressed = Some(f2);
                }
            }
            let all: Vec<automerge::ChangeHash> = w.reps[wr].get_changes(&[]).iter().map(|c| c.hash()).collect();
            if let Ok(b) = w.reps[wr].bundle(all) {
                files.push(("bundle", b.bytes().to_vec()));
            }
            // (last: its rejection by the known finding on DEFLATE padding bits ends the scenario's validation)
            if let Some(f2) = compressed {
                files.push(("file+compressed-change", f2));
            }
        }
        for (kind, file) in files {
        let orig = load_outcome(&file, true, o.enc);
        let nbits = file.len() * 8;
        let mut bits: Vec<usize> = (0..nbits).collect();
        if o.flips < nbits {
            rng.shuffle(&mut bits);
            bits.truncate(o.flips);
            // always include every bit of the first chunk header and the first 16 body bytes
            for b in 0..(32usize * 8).min(nbits) {
                if !bits.contains(&b) {
                    bits.push(b);
                }
            }
        }
        let mut bad: Vec<J> = vec![];
        let mut nerr = 0usize;
        let mut buf = file.clone();
        for &b in &bits {
            buf[b / 8] ^= 1 << (b % 8);
            let r = load_outcome(&buf, true, o.enc);
            buf[b / 8] ^= 1 << (b % 8);
            let res = r["res"].as_str().unwrap_or("");
            if res.starts_with("err:") {
                nerr += 1;
            } else if res == "ok" {
                let same = r["applied"] == orig["applied"] && r["vd"] == orig["vd"] && r["heads"] == orig["heads"];
                bad.push(json!({"bit": b, "outcome": if same { "ok-same" } else { "ok-different" }}));
            } else {
                bad.push(json!({"bit": b, "outcome": res}));
            }
        }
        w.log.push(json!({"ev":"flips","kind":kind,"total_bits":nbits,"flipped":bits.len(),"rejected":nerr,"bad":bad,
            "exhaustive": o.flips >= nbits}));
        }
    }
    w
}
