//! C37: public API calls with arguments that are invalid, stale, foreign or extreme.  Each call is
//! one `badcall` event: {api, cls, res, empty}.  `cls` is what the generator knows about the
//! argument: "invalid" (must give an error or an empty result), "valid" (a boundary value that
//! is legal), "any" (only "no panic" is demanded).
use crate::world::{panic_msg, World};
use crate::{calls, enc, rng::Rng, scen};
use automerge::marks::{ExpandMark, Mark};
use automerge::transaction::Transactable;
use automerge::{
    ActorId, AutoCommit, Automerge, ChangeHash, Cursor, ObjId, ObjType, PatchLog, Prop, ReadDoc, ROOT,
};
use serde_json::{json, Value as J};
use std::panic::{catch_unwind, AssertUnwindSafe};

fn r_unit<T, E: std::fmt::Debug>(r: Result<T, E>, empty: impl Fn(&T) -> bool) -> (String, bool) {
    match r {
        Ok(v) => ("ok".to_string(), empty(&v)),
        Err(e) => {
            let d = format!("{:?}", e);
            let end = d.find(|c: char| !(c.is_ascii_alphanumeric() || c == '_')).unwrap_or(d.len());
            (format!("err:{}", &d[..end]), true)
        }
    }
}

struct Rec<'a> {
    w: &'a mut World,
    r: usize,
}

impl Rec<'_> {
    fn call<F: FnOnce(&Automerge) -> (String, bool)>(&mut self, api: &str, cls: &str, args: J, f: F) {
        if self.w.dead {
            return;
        }
        let doc = &self.w.reps[self.r];
        let out = catch_unwind(AssertUnwindSafe(|| f(doc)));
        let (res, empty) = match out {
            Ok(x) => x,
            Err(p) => (panic_msg(p), false),
        };
        self.w.log.push(json!({"ev":"badcall","r":self.r+1,"api":api,"cls":cls,"args":args,"res":res,"empty":empty}));
    }

    /// an edit performed in a transaction on a clone of the replica (rolled back afterwards)
    fn edit<F: FnOnce(&mut automerge::transaction::Transaction<'_>) -> (String, bool)>(&mut self, api: &str, cls: &str, args: J, f: F) {
        if self.w.dead {
            return;
        }
        let mut c = self.w.reps[self.r].clone();
        let out = catch_unwind(AssertUnwindSafe(|| {
            let mut tx = c.transaction();
            let x = f(&mut tx);
            // the document must survive the failed / odd call: commit and save
            tx.commit();
            let bytes = c.save();
            let ok = Automerge::load(&bytes).is_ok();
            (x, ok)
        }));
        let (res, empty, reload) = match out {
            Ok(((res, empty), ok)) => (res, empty, ok),
            Err(p) => (panic_msg(p), false, true),
        };
        self.w.log.push(json!({"ev":"badcall","r":self.r+1,"api":api,"cls":cls,"args":args,"res":res,"empty":empty,"reload":reload}));
    }
}

/// Run the catalogue against replica r.
pub fn badcalls(w: &mut World, r: usize, rng: &mut Rng) {
    // material: objects of each kind in r (if any), an object r does not have, heads of several kinds
    let v = crate::proj::view(&w.reps[r], None);
    let objs = v.as_array().cloned().unwrap_or_default();
    let find = |ty: &str| objs.iter().find(|o| o["ty"] == ty && o["id"][0].as_i64() != Some(0)).map(|o| calls::objid_from(&o["id"]));
    let list = find("list");
    let text = find("text");
    let map = find("map");
    let unknown_obj = ObjId::Id(9_999, ActorId::from(vec![0xEEu8]), 0);
    let foreign_actor_obj = ObjId::Id(1, ActorId::from(vec![0xEFu8]), 3);
    let big_ctr_obj = ObjId::Id(u32::MAX as u64, w.reps[r].get_actor().clone(), 0);
    let heads = w.reps[r].get_heads();
    let unknown_heads = vec![scen::unknown_hash(rng)];
    let mut dup_heads = heads.clone();
    dup_heads.extend(heads.iter().cloned());
    // non-antichain: a head together with one of its ancestors
    let all: Vec<ChangeHash> = w.reps[r].get_changes(&[]).iter().map(|c| c.hash()).collect();
    let mut non_anti = heads.clone();
    if let Some(first) = all.first() {
        non_anti.push(*first);
    }
    let mut mixed = heads.clone();
    mixed.push(scen::unknown_hash(rng));
    let head_sets: Vec<(&str, &str, Vec<ChangeHash>)> = vec![
        ("unknown", "invalid", unknown_heads.clone()),
        ("dup", "any", dup_heads.clone()),
        ("nonantichain", "any", non_anti.clone()),
        ("mixed", "any", mixed.clone()),
        ("empty", "valid", vec![]),
    ];
    let big = [usize::MAX, usize::MAX - 1, u32::MAX as usize, (u32::MAX as usize) + 1, 1 << 40];
    let mut rec = Rec { w, r };

    // ---- reads through ids the replica does not have
    for (name, id) in [("unknown", &unknown_obj), ("foreign_actor", &foreign_actor_obj), ("big_ctr", &big_ctr_obj)] {
        let a = json!({"obj": name});
        rec.call("get", "invalid", a.clone(), |d| r_unit(d.get(id, "k1"), |v| v.is_none()));
        rec.call("get_seq", "invalid", a.clone(), |d| r_unit(d.get(id, 0usize), |v| v.is_none()));
        rec.call("get_all", "invalid", a.clone(), |d| r_unit(d.get_all(id, "k1"), |v| v.is_empty()));
        rec.call("keys", "invalid", a.clone(), |d| ("ok".into(), d.keys(id).count() == 0));
        rec.call("length", "invalid", a.clone(), |d| ("ok".into(), d.length(id) == 0));
        rec.call("text", "invalid", a.clone(), |d| r_unit(d.text(id), |s| s.is_empty()));
        rec.call("values", "invalid", a.clone(), |d| ("ok".into(), d.values(id).count() == 0));
        rec.call("map_range", "invalid", a.clone(), |d| ("ok".into(), d.map_range(id, ..).count() == 0));
        rec.call("list_range", "invalid", a.clone(), |d| ("ok".into(), d.list_range(id, ..).count() == 0));
        rec.call("marks", "invalid", a.clone(), |d| r_unit(d.marks(id), |m| m.is_empty()));
        rec.call("get_marks", "invalid", a.clone(), |d| r_unit(d.get_marks(id, 0, None), |m| m.iter().count() == 0));
        rec.call("spans", "invalid", a.clone(), |d| r_unit(d.spans(id).map(|s| s.count()), |n| *n == 0));
        rec.call("object_type", "invalid", a.clone(), |d| r_unit(d.object_type(id), |_| false));
        rec.call("parents", "invalid", a.clone(), |d| r_unit(d.parents(id).map(|p| p.count()), |n| *n == 0));
        rec.call("get_cursor", "invalid", a.clone(), |d| r_unit(d.get_cursor(id, 0, None), |_| false));
        rec.call("hydrate", "invalid", a.clone(), |d| r_unit(ReadDoc::hydrate(d, id, None), |_| false));
        rec.call("hash_for_opid", "invalid", a.clone(), |d| ("ok".into(), d.hash_for_opid(id).is_none()));
        rec.call("parents_at", "invalid", a.clone(), |d| r_unit(d.parents_at(id, &d.get_heads()).map(|p| p.count()), |n| *n == 0));
        rec.call("values_at", "invalid", a.clone(), |d| ("ok".into(), d.values_at(id, &d.get_heads()).count() == 0));
        rec.call("get_all_at", "invalid", a.clone(), |d| r_unit(d.get_all_at(id, "k", &d.get_heads()), |v| v.is_empty()));
        rec.call("map_range_at", "invalid", a.clone(), |d| ("ok".into(), d.map_range_at(id, .., &d.get_heads()).count() == 0));
        rec.edit("update_object", "invalid", a.clone(), |t| {
            let v = automerge::hydrate::Value::Map(automerge::hydrate::Map::default());
            match t.update_object(id, &v) { Ok(()) => ("ok".into(), false), Err(_) => ("err".into(), false) }
        });
        rec.edit("update_spans", "invalid", a.clone(), |t| r_unit(t.update_spans(id, automerge::marks::UpdateSpansConfig::default(), vec![automerge::iter::Span::Text { text: "x".into(), marks: None }]), |_| false));
        rec.edit("batch_create_object", "invalid", a.clone(), |t| r_unit(t.batch_create_object(id, "k", &automerge::hydrate::Value::Map(automerge::hydrate::Map::default()), false), |_| false));
        rec.edit("put", "invalid", a.clone(), |t| r_unit(t.put(id, "k", 1i64), |_| false));
        rec.edit("put_object", "invalid", a.clone(), |t| r_unit(t.put_object(id, "k", ObjType::Map), |_| false));
        rec.edit("insert", "invalid", a.clone(), |t| r_unit(t.insert(id, 0, 1i64), |_| false));
        rec.edit("delete", "invalid", a.clone(), |t| r_unit(t.delete(id, "k"), |_| false));
        rec.edit("increment", "invalid", a.clone(), |t| r_unit(t.increment(id, "k", 1), |_| false));
        rec.edit("splice_text", "invalid", a.clone(), |t| r_unit(t.splice_text(id, 0, 0, "x"), |_| false));
        rec.edit("mark", "invalid", a.clone(), |t| r_unit(t.mark(id, Mark::new("b".into(), true, 0, 1), ExpandMark::Both), |_| false));
        rec.edit("update_text", "invalid", a.clone(), |t| r_unit(t.update_text(id, "abc"), |_| false));
        rec.edit("split_block", "invalid", a.clone(), |t| r_unit(t.split_block(id, 0), |_| false));
    }

    // ---- wrong object kinds and wrong prop kinds
    rec.call("get_seq_on_root", "invalid", json!({}), |d| r_unit(d.get(ROOT, 0usize), |v| v.is_none()));
    rec.call("text_on_root", "any", json!({}), |d| r_unit(d.text(ROOT), |s| s.is_empty()));
    rec.call("marks_on_root", "any", json!({}), |d| r_unit(d.marks(ROOT), |m| m.is_empty()));
    rec.call("spans_on_root", "any", json!({}), |d| r_unit(d.spans(ROOT).map(|s| s.count()), |n| *n == 0));
    rec.call("get_cursor_on_root", "invalid", json!({}), |d| r_unit(d.get_cursor(ROOT, 0, None), |_| false));
    rec.call("list_range_on_root", "any", json!({}), |d| ("ok".into(), d.list_range(ROOT, ..).count() == 0));
    rec.edit("insert_on_root", "invalid", json!({}), |t| r_unit(t.insert(ROOT, 0, 1i64), |_| false));
    rec.edit("splice_text_on_root", "invalid", json!({}), |t| r_unit(t.splice_text(ROOT, 0, 0, "x"), |_| false));
    rec.edit("mark_on_root", "invalid", json!({}), |t| r_unit(t.mark(ROOT, Mark::new("b".into(), true, 0, 1), ExpandMark::Both), |_| false));
    rec.edit("put_seq_on_root", "invalid", json!({}), |t| r_unit(t.put(ROOT, 0usize, 1i64), |_| false));
    rec.edit("update_text_on_root", "invalid", json!({}), |t| r_unit(t.update_text(&ROOT, "abc"), |_| false));
    rec.edit("split_block_on_root", "invalid", json!({}), |t| r_unit(t.split_block(ROOT, 0), |_| false));
    rec.edit("join_block_on_root", "invalid", json!({}), |t| r_unit(t.join_block(ROOT, 0), |_| false));
    if let Some(l) = &list {
        rec.call("get_key_on_list", "invalid", json!({}), |d| r_unit(d.get(l, "k1"), |v| v.is_none()));
        rec.call("text_on_list", "any", json!({}), |d| r_unit(d.text(l), |s| s.is_empty()));
        rec.call("map_range_on_list", "any", json!({}), |d| ("ok".into(), d.map_range(l, ..).count() == 0));
        rec.edit("put_key_on_list", "invalid", json!({}), |t| r_unit(t.put(l, "k", 1i64), |_| false));
        rec.edit("mark_on_list", "invalid", json!({}), |t| r_unit(t.mark(l, Mark::new("b".into(), true, 0, 1), ExpandMark::Both), |_| false));
        rec.edit("splice_text_on_list", "invalid", json!({}), |t| r_unit(t.splice_text(l, 0, 0, "x"), |_| false));
        rec.edit("update_text_on_list", "invalid", json!({}), |t| r_unit(t.update_text(l, "abc"), |_| false));
        rec.edit("update_spans_on_list", "invalid", json!({}), |t| r_unit(t.update_spans(l, automerge::marks::UpdateSpansConfig::default(), vec![automerge::iter::Span::Text { text: "x".into(), marks: None }]), |_| false));
        rec.edit("update_object_map_on_list", "invalid", json!({}), |t| {
            let v = automerge::hydrate::Value::Map(automerge::hydrate::Map::default());
            match t.update_object(l, &v) { Ok(()) => ("ok".into(), false), Err(_) => ("err".into(), false) }
        });
        rec.edit("batch_create_key_on_list", "invalid", json!({}), |t| r_unit(t.batch_create_object(l, "k", &automerge::hydrate::Value::Map(automerge::hydrate::Map::default()), false), |_| false));
        rec.edit("split_block_on_list", "invalid", json!({}), |t| r_unit(t.split_block(l, 0), |_| false));
    }
    if let Some(m) = &map {
        rec.call("length_on_map", "any", json!({}), |d| ("ok".into(), d.length(m) == 0));
        rec.edit("splice_on_map", "invalid", json!({}), |t| r_unit(t.splice(m, 0, 0, vec![automerge::hydrate::Value::from(1i64)]), |_| false));
    }
    if let Some(t_) = &text {
        rec.edit("insert_on_text", "any", json!({}), |t| r_unit(t.insert(t_, 0, 1i64), |_| false));
        rec.edit("put_key_on_text", "invalid", json!({}), |t| r_unit(t.put(t_, "k", 1i64), |_| false));
    }

    // ---- extreme indexes and ranges on sequences
    for (kind, obj) in [("list", &list), ("text", &text)] {
        let Some(o) = obj else { continue };
        let len = rec.w.reps[r].length(o);
        for &i in big.iter().chain([len, len + 1].iter()) {
            let a = json!({"kind": kind, "idx": i.to_string(), "len": len});
            let inv = "invalid";
            rec.call("get_idx", inv, a.clone(), |d| r_unit(d.get(o, i), |v| v.is_none()));
            rec.call("get_all_idx", inv, a.clone(), |d| r_unit(d.get_all(o, i), |v| v.is_empty()));
            rec.call("get_marks_idx", inv, a.clone(), |d| r_unit(d.get_marks(o, i, None), |m| m.iter().count() == 0));
            rec.call("get_cursor_idx", inv, a.clone(), |d| r_unit(d.get_cursor(o, i, None), |_| false));
            rec.call("list_range_from", if i == len { "valid" } else { inv }, a.clone(), |d| ("ok".into(), d.list_range(o, i..).count() == 0));
            rec.call("list_range_rev", "any", a.clone(), |d| ("ok".into(), d.list_range(o, i..0).count() == 0));
            rec.edit("delete_idx", inv, a.clone(), |t| r_unit(t.delete(o, i), |_| false));
            rec.edit("put_idx", inv, a.clone(), |t| r_unit(t.put(o, i, 1i64), |_| false));
            rec.edit("increment_idx", inv, a.clone(), |t| r_unit(t.increment(o, i, 1), |_| false));
            if i > len {
                rec.edit("insert_idx", inv, a.clone(), |t| {
                    if kind == "list" { r_unit(t.insert(o, i, 1i64), |_| false) } else { r_unit(t.splice_text(o, i, 0, "x"), |_| false) }
                });
                rec.edit("splice_idx", inv, a.clone(), |t| {
                    if kind == "list" { r_unit(t.splice(o, i, 0, vec![automerge::hydrate::Value::from(1i64)]), |_| false) } else { r_unit(t.splice_text(o, i, 1, ""), |_| false) }
                });
                rec.edit("put_object_idx", inv, a.clone(), |t| r_unit(t.put_object(o, i, ObjType::Map), |_| false));
                rec.edit("insert_object_idx", inv, a.clone(), |t| r_unit(t.insert_object(o, i, ObjType::List), |_| false));
                if kind == "list" {
                    rec.edit("batch_create_idx", inv, a.clone(), |t| r_unit(t.batch_create_object(o, i, &automerge::hydrate::Value::Map(automerge::hydrate::Map::default()), true), |_| false));
                    rec.edit("splice_nested_idx", inv, a.clone(), |t| r_unit(t.splice(o, i, 0, vec![automerge::hydrate::Value::Map(automerge::hydrate::Map::default())]), |_| false));
                }
                if kind == "text" {
                    rec.edit("split_block_idx", inv, a.clone(), |t| r_unit(t.split_block(o, i), |_| false));
                    rec.edit("join_block_idx", inv, a.clone(), |t| r_unit(t.join_block(o, i), |_| false));
                    rec.edit("replace_block_idx", inv, a.clone(), |t| r_unit(t.replace_block(o, i), |_| false));
                    rec.edit("mark_start", inv, a.clone(), |t| r_unit(t.mark(o, Mark::new("b".into(), true, i, i), ExpandMark::Both), |_| false));
                    rec.edit("mark_end", inv, a.clone(), |t| r_unit(t.mark(o, Mark::new("b".into(), true, 0, i), ExpandMark::Both), |_| false));
                    rec.edit("unmark_end", inv, a.clone(), |t| r_unit(t.unmark(o, "b", 0, i, ExpandMark::None), |_| false));
                }
            }
        }
        // odd range bounds
        {
            use std::ops::Bound;
            let a = json!({"kind": kind, "len": len});
            rec.call("list_range_to_max_incl", "valid", a.clone(), |d| ("ok".into(), d.list_range(o, ..=usize::MAX).count() != len));
            rec.call("list_range_excl_start_0", "valid", a.clone(), |d| ("ok".into(), d.list_range(o, (Bound::Excluded(0usize), Bound::Unbounded)).count() + 1 < len));
            rec.call("list_range_excl_start_max", "any", a.clone(), |d| ("ok".into(), d.list_range(o, (Bound::Excluded(usize::MAX), Bound::Unbounded)).count() == 0));
            rec.call("list_range_incl_max_start", "any", a.clone(), |d| ("ok".into(), d.list_range(o, usize::MAX..=usize::MAX).count() == 0));
            rec.edit("splice_min_del_huge_idx", "invalid", a.clone(), |t| {
                if kind == "list" { r_unit(t.splice(o, usize::MAX, isize::MIN, Vec::<automerge::hydrate::Value>::new()), |_| false) } else { r_unit(t.splice_text(o, usize::MAX, isize::MIN, ""), |_| false) }
            });
            rec.edit("splice_min_del_mid_idx", "invalid", a.clone(), |t| {
                if kind == "list" { r_unit(t.splice(o, (1usize << 63) + 1, isize::MIN, Vec::<automerge::hydrate::Value>::new()), |_| false) } else { r_unit(t.splice_text(o, (1usize << 63) + 1, isize::MIN, ""), |_| false) }
            });
        }
        // deletion counts
        for del in [isize::MAX, isize::MIN, isize::MIN + 1, -1, (len as isize) + 1, -((len as isize) + 1)] {
            let a = json!({"kind": kind, "del": del.to_string(), "len": len});
            rec.edit("splice_del", "any", a.clone(), |t| {
                if kind == "list" { r_unit(t.splice(o, 0, del, Vec::<automerge::hydrate::Value>::new()), |_| false) } else { r_unit(t.splice_text(o, 0, del, ""), |_| false) }
            });
            rec.edit("splice_del_at_end", "any", a.clone(), |t| {
                if kind == "list" { r_unit(t.splice(o, len, del, Vec::<automerge::hydrate::Value>::new()), |_| false) } else { r_unit(t.splice_text(o, len, del, "y"), |_| false) }
            });
        }
        if kind == "text" && len >= 2 {
            // reversed and empty mark ranges: an error or no visible effect
            for (s, e) in [(len, 0usize), (1, 0), (len - 1, len - 2), (1, 1), (0, 0), (len, len)] {
                for ex in [ExpandMark::Both, ExpandMark::None, ExpandMark::Before, ExpandMark::After] {
                    let a = json!({"start": s, "end": e, "expand": format!("{:?}", ex), "len": len});
                    rec.edit("mark_reversed", "any", a.clone(), |t| {
                        let before = t.marks(o).map(|m| m.len()).unwrap_or(0);
                        let res = t.mark(o, Mark::new("rev".into(), true, s, e), ex);
                        let after = t.marks(o).map(|m| m.len()).unwrap_or(0);
                        let (rs, _) = r_unit(res, |_| false);
                        (rs, before == after)
                    });
                }
            }
        }
    }
    // cursors from another object / unknown element / extreme counters
    if let (Some(l), Some(t_)) = (&list, &text) {
        if let Ok(c) = rec.w.reps[r].get_cursor(l, 0, None) {
            rec.call("cursor_of_other_object", "invalid", json!({}), |d| r_unit(d.get_cursor_position(t_, &c, None), |_| false));
            rec.call("cursor_on_root", "invalid", json!({}), |d| r_unit(d.get_cursor_position(ROOT, &c, None), |_| false));
        }
    }
    for (kind, obj) in [("list", &list), ("text", &text)] {
        let Some(o) = obj else { continue };
        for s in ["9999@ee", "1@ef", "-1@ef", "4294967295@01", "4294967296@01", "18446744073709551615@01", "0@01"] {
            if let Ok(c) = Cursor::try_from(s) {
                let a = json!({"kind": kind, "cursor": s});
                rec.call("cursor_unknown", "invalid", a.clone(), |d| r_unit(d.get_cursor_position(o, &c, None), |_| false));
                rec.call("cursor_unknown_at", "invalid", a, |d| r_unit(d.get_cursor_position(o, &c, Some(&heads)), |_| false));
            }
        }
    }

    // ---- heads of every kind
    for (name, cls, hs) in &head_sets {
        let a = json!({"heads": name});
        let cls = *cls;
        rec.call("get_at", cls, a.clone(), |d| r_unit(d.get_at(ROOT, "k1", hs), |v| v.is_none() || cls != "invalid"));
        rec.call("keys_at", cls, a.clone(), |d| ("ok".into(), d.keys_at(ROOT, hs).count() == 0 || cls != "invalid"));
        rec.call("hydrate_at", "any", a.clone(), |d| r_unit(ReadDoc::hydrate(d, ROOT, Some(hs.as_slice())), |_| false));
        rec.call("diff_from", "any", a.clone(), |d| ("ok".into(), d.diff(hs, &heads).is_empty()));
        rec.call("diff_to", "any", a.clone(), |d| ("ok".into(), d.diff(&heads, hs).is_empty()));
        rec.call("fork_at", cls, a.clone(), |d| r_unit(d.fork_at(hs), |_| cls != "invalid"));
        rec.call("get_changes", "any", a.clone(), |d| ("ok".into(), d.get_changes(hs).is_empty()));
        rec.call("get_missing_deps", "any", a.clone(), |d| ("ok".into(), d.get_missing_deps(hs).is_empty()));
        rec.call("save_after", "any", a.clone(), |d| ("ok".into(), d.save_after(hs).is_empty()));
        if let Some(l) = &list {
            rec.call("length_at", "any", a.clone(), |d| ("ok".into(), d.length_at(l, hs) == 0));
            rec.call("list_range_at", "any", a.clone(), |d| ("ok".into(), d.list_range_at(l, .., hs).count() == 0));
            rec.call("get_cursor_at", "any", a.clone(), |d| r_unit(d.get_cursor(l, 0, Some(hs)), |_| false));
        }
        if let Some(t_) = &text {
            rec.call("text_at", "any", a.clone(), |d| r_unit(d.text_at(t_, hs), |s| s.is_empty()));
            rec.call("marks_at", "any", a.clone(), |d| r_unit(d.marks_at(t_, hs), |m| m.is_empty()));
            rec.call("spans_at", "any", a.clone(), |d| r_unit(d.spans_at(t_, hs).map(|s| s.count()), |n| *n == 0));
            rec.call("get_marks_at", "any", a.clone(), |d| r_unit(d.get_marks(t_, 0, Some(hs)), |m| m.iter().count() == 0));
        }
        // transaction_at / isolate on clones
        let hs2 = hs.clone();
        rec.call("transaction_at", "any", a.clone(), move |d| {
            let mut c = d.clone();
            let r1 = {
                match c.transaction_at(PatchLog::inactive(), &hs2) {
                    Ok(mut tx) => {
                        let r = tx.put(ROOT, "zz", 1i64);
                        tx.commit();
                        r_unit(r, |_| false)
                    }
                    Err(e) => r_unit::<(), _>(Err(e), |_| false),
                }
            };
            let ok = Automerge::load(&c.save()).is_ok();
            (if ok { r1.0 } else { "err:UnloadableAfter".into() }, r1.1)
        });
        let hs3 = hs.clone();
        rec.call("isolate", "any", a.clone(), move |d| {
            let mut ac = AutoCommit::load(&d.save()).expect("own save");
            ac.isolate(&hs3);
            let r = ac.put(ROOT, "zz", 2i64);
            let _ = ac.get(ROOT, "zz");
            ac.integrate();
            let ok = AutoCommit::load(&ac.save()).is_ok();
            (if ok { r_unit(r, |_| false).0 } else { "err:UnloadableAfter".into() }, false)
        });
    }
    rec.call("get_change_by_hash_unknown", "invalid", json!({}), |d| ("ok".into(), d.get_change_by_hash(&unknown_heads[0]).is_none()));

    // ---- values the library itself produced: patches fed to hydrate::Value::apply_patches
    let sets: Vec<Vec<ChangeHash>> = {
        let mut v = vec![vec![], heads.clone()];
        for h in all.iter().take(6) {
            v.push(vec![*h]);
        }
        v
    };
    for a_ in &sets {
        for b_ in &sets {
            let args = json!({"before": enc::hashes_sorted(a_), "after": enc::hashes_sorted(b_)});
            rec.call("apply_own_patches", "valid", args, |d| {
                let ps = d.diff(a_, b_);
                let mut v = d.hydrate(Some(a_));
                let want = d.hydrate(Some(b_));
                match v.apply_patches(d.text_encoding(), ps) {
                    Ok(()) => (if v == want { "ok".into() } else { "ok:different".into() }, false),
                    Err(e) => (format!("err:{:?}", e).chars().take(60).collect(), false),
                }
            });
        }
    }
}
