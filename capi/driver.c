/* C36: replays programs derived from Doc.tla behaviours through the C ABI of automerge-c.
 *
 *   driver < program.txt > observed.txt          (built with clang -fsanitize=address,undefined)
 *
 * Program lines:
 *   new <r> <actor-byte>            create document r with a one-byte actor id
 *   base <r>                        root "l" := list [counter 1, int 7], committed (the Doc.tla list base)
 *   mput <r> <key> <kind> <v>       kind: i int, c counter           (then commit)
 *   mdel <r> <key>
 *   minc <r> <key> <by>
 *   lput <r> <idx> <kind> <v>       put on element idx of the list at root "l"
 *   lins <r> <idx> <kind> <v>       insert
 *   ldel <r> <idx>
 *   linc <r> <idx> <by>
 *   tbase <r>                       root "t" := text "a\u00e9", committed (the Doc.tla text base)
 *   tput <r> <idx> <hex-utf8>       put a string on the character at idx of the text at root "t"
 *   tdel <r> <idx>                  delete that character
 *   tspl <r> <idx> <del> <hex-utf8> AMspliceText
 *   merge <r> <s>
 *   obs <r>                         print the observation line of document r
 *   reset                           end of a program: frees every kept result and all documents
 *   scal <r>                        puts of every scalar kind on the root, AMitemResult refcounting
 *   text <r>                        text object: splices (also at SIZE_MAX / out of range), marks, clear, cursor, AMtext
 *   chg <r>                         AMgetChanges + change accessors, last local change, change by hash, missing deps
 *   apply <r>                       a new document built by AMapplyChanges / AMload / AMloadIncremental equals r
 *   fork <r>                        AMfork (+ at heads), AMsetActorId, edit, merge back, AMclone, AMequal
 *   edge <r>                        SIZE_MAX and out-of-range positions, empty/reversed ranges, rollback, map range
 *   errs <r>                        malformed inputs to the parsers and wrong-object-type calls return errors
 *   sync <r> <s>                    the sync protocol between r and s through the C API until quiescence
 *   mode <0|1|2>                    result-freeing discipline: 0 free at once, 1 keep and free in reverse at exit,
 *                                   2 keep every second result until exit
 * Observation line:  O <r> heads=<hex,..> save=<hex> k1=[..] l=[..] text/keys read through items and byte spans.
 */
#include <stdio.h>
#include <stdlib.h>
#include <string.h>
#include <stdint.h>
#include <stdbool.h>
#include "am.h"

#define MAXDOC 8
static AMdoc *docs[MAXDOC];
static AMresult *docres[MAXDOC];
static AMresult **kept = NULL;
static size_t nkept = 0, capkept = 0;
static int mode = 0;
static AMresult *baseheads = NULL;
static size_t counter = 0;

static void release(AMresult *r) {
  if (!r) return;
  counter++;
  if (mode == 0 || (mode == 2 && counter % 2 == 0)) { AMresultFree(r); return; }
  if (nkept == capkept) { capkept = capkept ? capkept * 2 : 64; kept = realloc(kept, capkept * sizeof(*kept)); }
  kept[nkept++] = r;
}

static void check(AMresult *r, const char *what) {
  if (AMresultStatus(r) != AM_STATUS_OK) {
    AMbyteSpan e = AMresultError(r);
    printf("E %s: %.*s\n", what, (int)e.count, (const char *)e.src);
  }
}

static void hex(const uint8_t *p, size_t n) { for (size_t i = 0; i < n; i++) printf("%02x", p[i]); }

static void commit(int r) { int64_t t = 0; AMresult *c = AMcommit(docs[r], AMstr(NULL), &t); check(c, "commit"); release(c); }

static void print_item(AMitem *it) {
  switch (AMitemValType(it)) {
    case AM_VAL_TYPE_INT: { int64_t v; AMitemToInt(it, &v); printf("i:%lld", (long long)v); break; }
    case AM_VAL_TYPE_UINT: { uint64_t v; AMitemToUint(it, &v); printf("u:%llu", (unsigned long long)v); break; }
    case AM_VAL_TYPE_COUNTER: { int64_t v; AMitemToCounter(it, &v); printf("c:%lld", (long long)v); break; }
    case AM_VAL_TYPE_BOOL: { bool v; AMitemToBool(it, &v); printf("b:%d", v); break; }
    case AM_VAL_TYPE_NULL: printf("n"); break;
    case AM_VAL_TYPE_STR: { AMbyteSpan s; AMitemToStr(it, &s); printf("s:%.*s", (int)s.count, (const char *)s.src); break; }
    case AM_VAL_TYPE_OBJ_TYPE: printf("o"); break;
    case AM_VAL_TYPE_BYTES: { AMbyteSpan s; AMitemToBytes(it, &s); printf("y:"); hex(s.src, s.count); break; }
    case AM_VAL_TYPE_TIMESTAMP: { int64_t v; AMitemToTimestamp(it, &v); printf("t:%lld", (long long)v); break; }
    case AM_VAL_TYPE_CHANGE_HASH: { AMbyteSpan s; AMitemToChangeHash(it, &s); printf("h:"); hex(s.src, s.count); break; }
    case AM_VAL_TYPE_VOID: printf("v"); break;
    default: printf("?%d", (int)AMitemValType(it));
  }
}

static const AMobjId *list_of(int r, AMresult **hold) {
  *hold = AMmapGet(docs[r], AM_ROOT, AMstr("l"), NULL);
  if (AMresultStatus(*hold) != AM_STATUS_OK || AMresultSize(*hold) == 0) return NULL;
  AMitem *it = AMresultItem(*hold);
  if (AMitemValType(it) != AM_VAL_TYPE_OBJ_TYPE) return NULL;
  return AMitemObjId(it);
}

static const char *st(AMresult *r) { const char *o = AMresultStatus(r) == AM_STATUS_OK ? "ok" : "err"; release(r); return o; }

static void print_heads(AMdoc *d) {
  AMresult *h = AMgetHeads(d); AMitems hs = AMresultItems(h); AMitem *it; int first = 1;
  while ((it = AMitemsNext(&hs, 1)) != NULL) { AMbyteSpan b; if (AMitemToChangeHash(it, &b)) { if (!first) printf(","); first = 0; hex(b.src, b.count); } }
  release(h);
}


static void cmd_scal(int r) {
  AMdoc *d = docs[r];
  static const uint8_t by[3] = {0, 1, 255};
  printf("K %s", st(AMmapPutBool(d, AM_ROOT, AMstr("sb"), true)));
  printf(" %s", st(AMmapPutBytes(d, AM_ROOT, AMstr("sy"), AMbytes(by, 3))));
  printf(" %s", st(AMmapPutNull(d, AM_ROOT, AMstr("sn"))));
  printf(" %s", st(AMmapPutStr(d, AM_ROOT, AMstr("ss"), AMstr("h\xc3\xa9llo"))));
  printf(" %s", st(AMmapPutTimestamp(d, AM_ROOT, AMstr("st"), -5)));
  printf(" %s", st(AMmapPutUint(d, AM_ROOT, AMstr("su"), 9223372036854775809ULL)));
  commit(r);
  /* an item outlives the result it came from once AMitemResult took a reference */
  AMresult *g = AMmapGet(d, AM_ROOT, AMstr("ss"), NULL);
  AMresult *own = AMitemResult(AMresultItem(g));
  AMresultFree(g);
  printf(" own="); print_item(AMresultItem(own));
  release(own);
  /* items built by the caller compare equal to the ones read back */
  AMresult *mine = AMitemFromStr(AMstr("h\xc3\xa9llo"));
  AMresult *g2 = AMmapGet(d, AM_ROOT, AMstr("ss"), NULL);
  AMresult *g3 = AMmapGet(d, AM_ROOT, AMstr("ss"), NULL), *mine2 = AMitemFromStr(AMstr("h\xc3\xa9llo"));
  printf(" eq=%d eq2=%d", (int)AMitemEqual(AMresultItem(g3), AMresultItem(g2)), (int)AMitemEqual(AMresultItem(mine), AMresultItem(mine2)));
  release(g3); release(mine2);
  AMresult *cat = AMresultCat(mine, g2);
  printf(" cat=%zu", AMresultSize(cat));
  release(cat); release(g2); release(mine);
  printf("\n");
}

static void print_marks(AMdoc *d, const AMobjId *t, const AMitems *heads) {
  AMresult *mk = AMmarks(d, t, heads);
  if (AMresultStatus(mk) != AM_STATUS_OK) { printf("err"); release(mk); return; }
  AMitems mi = AMresultItems(mk); AMitem *it; int first = 1;
  while ((it = AMitemsNext(&mi, 1)) != NULL) {
    const AMmark *m; if (!AMitemToMark(it, &m)) continue;
    AMbyteSpan n = AMmarkName(m);
    if (!first) printf(","); first = 0;
    printf("%.*s:%zu:%zu:", (int)n.count, (const char *)n.src, AMmarkStart(m), AMmarkEnd(m));
    AMresult *v = AMmarkValue(m); print_item(AMresultItem(v)); release(v);
  }
  release(mk);
}

static void cmd_text(int r, const long long *q) {
  AMdoc *d = docs[r];
  AMresult *hb = AMgetHeads(d); AMitems hbi = AMresultItems(hb);
  AMresult *to = AMmapPutObject(d, AM_ROOT, AMstr("t"), AM_OBJ_TYPE_TEXT);
  const AMobjId *t = AMitemObjId(AMresultItem(to));
  printf("T %s", st(AMspliceText(d, t, 0, 0, AMstr("hello w\xc3\xb6rld"))));
  printf(" %s", st(AMspliceText(d, t, (size_t)q[0], (ptrdiff_t)q[1], AMstr("XY"))));
  commit(r);
  AMresult *hm = AMgetHeads(d); AMitems hmi = AMresultItems(hm);
  printf(" %s", st(AMspliceText(d, t, SIZE_MAX, 0, AMstr("!"))));
  printf(" %s", st(AMspliceText(d, t, 500, 0, AMstr("?"))));
  AMresult *bv = AMitemFromBool(true), *iv = AMitemFromInt(7);
  printf(" %s", st(AMmarkCreate(d, t, (size_t)q[2], (size_t)q[3], AM_MARK_EXPAND_BOTH, AMstr("bold"), AMresultItem(bv))));
  printf(" %s", st(AMmarkCreate(d, t, (size_t)q[4], (size_t)q[5], (AMmarkExpand)(1 + q[8] % 4), AMstr("size"), AMresultItem(iv))));
  printf(" %s", st(AMmarkClear(d, t, (size_t)q[6], (size_t)q[7], AM_MARK_EXPAND_BOTH, AMstr("bold"))));
  printf(" %s", st(AMmarkCreate(d, t, 4, 2, AM_MARK_EXPAND_NONE, AMstr("rev"), AMresultItem(iv))));
  release(bv); release(iv);
  commit(r);
  AMresult *tx = AMtext(d, t, NULL); AMbyteSpan s = {0};
  if (AMresultStatus(tx) == AM_STATUS_OK && AMitemToStr(AMresultItem(tx), &s)) printf(" text=%.*s", (int)s.count, (const char *)s.src); else printf(" text=err");
  release(tx);
  printf(" len=%zu type=%d marks=", AMobjSize(d, t, NULL), (int)AMobjObjType(d, t));
  print_marks(d, t, NULL);
  /* the same reads at earlier heads */
  AMresult *tm = AMtext(d, t, &hmi);
  if (AMresultStatus(tm) == AM_STATUS_OK && AMitemToStr(AMresultItem(tm), &s)) printf(" then=%.*s", (int)s.count, (const char *)s.src); else printf(" then=err");
  release(tm);
  printf(" lenthen=%zu lenbefore=%zu marksthen=", AMobjSize(d, t, &hmi), AMobjSize(d, t, &hbi));
  print_marks(d, t, &hmi);
  /* cursors */
  AMresult *cu = AMgetCursor(d, t, (size_t)q[9], NULL); const AMcursor *c = NULL;
  if (AMresultStatus(cu) == AM_STATUS_OK && AMitemToCursor(AMresultItem(cu), &c)) {
    AMbyteSpan cs = AMcursorStr(c);
    printf(" cur=%.*s", (int)cs.count, (const char *)cs.src);
    AMresult *cp = AMgetCursorPosition(d, t, c, NULL); printf(" pos="); if (AMresultStatus(cp) == AM_STATUS_OK) print_item(AMresultItem(cp)); else printf("err"); release(cp);
    AMresult *c2 = AMcursorFromStr(cs); const AMcursor *cc = NULL;
    if (AMresultStatus(c2) == AM_STATUS_OK && AMitemToCursor(AMresultItem(c2), &cc)) printf(" cureq=%d", (int)AMcursorEqual(c, cc)); else printf(" cureq=err");
    AMbyteSpan cb = AMcursorBytes(c); AMresult *c3 = AMcursorFromBytes(cb.src, cb.count);
    printf(" curbytes=%s", AMresultStatus(c3) == AM_STATUS_OK ? "ok" : "err");
    release(c3); release(c2);
    printf(" %s", st(AMspliceText(d, t, 0, 0, AMstr("ab"))));
    commit(r);
    AMresult *cq = AMgetCursorPosition(d, t, c, NULL); printf(" pos2="); if (AMresultStatus(cq) == AM_STATUS_OK) print_item(AMresultItem(cq)); else printf("err"); release(cq);
  } else printf(" cur=err");
  release(cu);
  AMresult *co = AMgetCursor(d, t, 700, NULL); printf(" curfar=%s", AMresultStatus(co) == AM_STATUS_OK ? "ok" : "err"); release(co);
  release(hm); release(hb); release(to);
  printf("\n");
}

static void cmd_chg(int r) {
  AMdoc *d = docs[r];
  AMresult *cs = AMgetChanges(d, NULL); AMitems ci = AMresultItems(cs); AMitem *it;
  printf("C n=%zu", AMitemsSize(&ci));
  AMbyteSpan firsth = {0};
  while ((it = AMitemsNext(&ci, 1)) != NULL) {
    AMchange *c = NULL; if (!AMitemToChange(it, &c)) { printf(" ?"); continue; }
    AMbyteSpan h = AMchangeHash(c); if (!firsth.src) firsth = h;
    printf(" "); hex(h.src, h.count);
    AMresult *ar = AMchangeActorId(c); const AMactorId *a = NULL; AMitemToActorId(AMresultItem(ar), &a); AMbyteSpan as = AMactorIdStr(a);
    AMbyteSpan m = AMchangeMessage(c), raw = AMchangeRawBytes(c), ex = AMchangeExtraBytes(c);
    AMresult *dr = AMchangeDeps(c);
    printf(":%llu:%.*s:%llu:%llu:%lld:%zu:%zu:%zu:%zu:%zu:%d", (unsigned long long)AMchangeSeq(c), (int)as.count, (const char *)as.src,
           (unsigned long long)AMchangeStartOp(c), (unsigned long long)AMchangeMaxOp(c), (long long)AMchangeTime(c), AMchangeSize(c),
           AMresultSize(dr), m.count, raw.count, ex.count, (int)AMchangeIsEmpty(c));
    /* the raw bytes parse back into a change with the same hash */
    AMresult *back = AMchangeFromBytes(raw.src, raw.count); AMchange *bc = NULL;
    if (AMresultStatus(back) == AM_STATUS_OK && AMitemToChange(AMresultItem(back), &bc)) { AMbyteSpan bh = AMchangeHash(bc); printf(":%d", (int)(bh.count == h.count && !memcmp(bh.src, h.src, h.count))); } else printf(":err");
    release(back); release(dr); release(ar);
  }
  AMresult *ll = AMgetLastLocalChange(d); printf(" last=");
  if (AMresultStatus(ll) == AM_STATUS_OK && AMresultSize(ll) > 0) { AMchange *c = NULL; if (AMitemToChange(AMresultItem(ll), &c)) { AMbyteSpan h = AMchangeHash(c); hex(h.src, h.count); } else print_item(AMresultItem(ll)); } else printf("none");
  release(ll);
  if (firsth.src) {
    AMresult *bh = AMgetChangeByHash(d, firsth.src, firsth.count); AMchange *c = NULL; printf(" byhash=");
    if (AMresultStatus(bh) == AM_STATUS_OK && AMresultSize(bh) > 0 && AMitemToChange(AMresultItem(bh), &c)) printf("%llu", (unsigned long long)AMchangeSeq(c)); else printf("none");
    release(bh);
  }
  uint8_t fake[32]; memset(fake, 0xab, sizeof fake);
  AMresult *fh = AMitemFromChangeHash(AMbytes(fake, 32)); AMitems fi = AMresultItems(fh);
  AMresult *md = AMgetMissingDeps(d, &fi); AMitems mi = AMresultItems(md); printf(" missing=");
  while ((it = AMitemsNext(&mi, 1)) != NULL) { print_item(it); printf(";"); }
  release(md); release(fh);
  AMresult *nb = AMgetChangeByHash(d, fake, 32); printf(" nohash="); if (AMresultStatus(nb) == AM_STATUS_OK) print_item(AMresultItem(nb)); else printf("err"); release(nb);
  release(cs);
  printf("\n");
}

static void cmd_apply(int r) {
  AMdoc *d = docs[r];
  uint8_t ab = 77; AMresult *ar = AMactorIdFromBytes(&ab, 1); const AMactorId *aid = NULL; AMitemToActorId(AMresultItem(ar), &aid);
  AMresult *nr = AMcreate(aid); AMdoc *n = NULL; AMitemToDoc(AMresultItem(nr), &n);
  AMresult *cs = AMgetChanges(d, NULL); AMitems ci = AMresultItems(cs);
  printf("A %s", st(AMapplyChanges(n, &ci)));
  printf(" eq=%d heads=", (int)AMequal(n, d)); print_heads(n);
  /* AMload of the saved bytes, and AMloadIncremental into an empty document */
  AMresult *sv = AMsave(d); AMbyteSpan sb = {0}; AMitemToBytes(AMresultItem(sv), &sb);
  AMresult *lr = AMload(sb.src, sb.count); AMdoc *l = NULL;
  if (AMresultStatus(lr) == AM_STATUS_OK && AMitemToDoc(AMresultItem(lr), &l)) printf(" loadeq=%d", (int)AMequal(l, d)); else printf(" load=err");
  AMresult *er = AMcreate(aid); AMdoc *e = NULL; AMitemToDoc(AMresultItem(er), &e);
  AMresult *li = AMloadIncremental(e, sb.src, sb.count); printf(" inc="); if (AMresultStatus(li) == AM_STATUS_OK) print_item(AMresultItem(li)); else printf("err"); release(li);
  printf(" inceq=%d", (int)AMequal(e, d));
  AMresult *si = AMsaveIncremental(d); AMbyteSpan ib = {0}; if (AMitemToBytes(AMresultItem(si), &ib)) printf(" saveinc=%zu", ib.count); else printf(" saveinc=?"); release(si);
  AMresult *added = AMgetChangesAdded(n, d); printf(" added=%zu", AMresultSize(added)); release(added);
  /* a truncated image is an error, not a crash */
  AMresult *bad = AMload(sb.src, sb.count > 9 ? sb.count - 9 : 0); printf(" trunc=%s", AMresultStatus(bad) == AM_STATUS_OK ? "ok" : "err"); release(bad);
  release(sv); release(cs);
  release(lr);
  release(er); release(nr); release(ar);
  printf("\n");
}

static void cmd_fork(int r) {
  AMdoc *d = docs[r];
  AMresult *hb = AMgetHeads(d); AMitems hbi = AMresultItems(hb);
  AMresult *p0 = AMmapPutInt(d, AM_ROOT, AMstr("fa"), 1); release(p0); commit(r);
  AMresult *fr = AMfork(d, NULL); AMdoc *f = NULL; AMitemToDoc(AMresultItem(fr), &f);
  uint8_t ab = 0x63; AMresult *ar = AMactorIdFromBytes(&ab, 1); const AMactorId *aid = NULL; AMitemToActorId(AMresultItem(ar), &aid);
  printf("F %s", st(AMsetActorId(f, aid)));
  AMresult *ga = AMgetActorId(f); const AMactorId *ga2 = NULL; AMitemToActorId(AMresultItem(ga), &ga2); AMbyteSpan gs = AMactorIdStr(ga2);
  printf(" actor=%.*s cmp=%d", (int)gs.count, (const char *)gs.src, AMactorIdCmp(aid, ga2)); release(ga);
  printf(" %s", st(AMmapPutInt(f, AM_ROOT, AMstr("fk"), 5)));
  { int64_t t = 0; AMresult *c = AMcommit(f, AMstr("forked"), &t); printf(" commit="); if (AMresultStatus(c) == AM_STATUS_OK) print_item(AMresultItem(c)); else printf("err"); release(c); }
  /* fork at the earlier heads: its state is the earlier state */
  AMresult *f2r = AMfork(d, &hbi); AMdoc *f2 = NULL;
  if (AMresultStatus(f2r) == AM_STATUS_OK && AMitemToDoc(AMresultItem(f2r), &f2)) {
    uint8_t ab2 = 0x64; AMresult *ar2 = AMactorIdFromBytes(&ab2, 1); const AMactorId *aid2 = NULL; AMitemToActorId(AMresultItem(ar2), &aid2);
    release(AMsetActorId(f2, aid2)); release(ar2);
    printf(" forkat="); print_heads(f2);
    AMresult *g = AMmapGet(f2, AM_ROOT, AMstr("fa"), NULL); printf("/"); if (AMresultStatus(g) == AM_STATUS_OK) print_item(AMresultItem(g)); else printf("err"); release(g);
  } else printf(" forkat=err");
  printf(" %s heads=", st(AMmerge(d, f))); print_heads(d);
  AMresult *cl = AMclone(d); AMdoc *c = NULL; AMitemToDoc(AMresultItem(cl), &c);
  printf(" cloneeq=%d forkeq=%d", (int)AMequal(c, d), (int)AMequal(f, d));
  { int64_t t = 3; AMresult *e = AMemptyChange(c, AMstr("empty"), &t); printf(" empty="); if (AMresultStatus(e) == AM_STATUS_OK) print_item(AMresultItem(e)); else printf("err"); release(e); }
  printf(" cloneeq2=%d", (int)AMequal(c, d));
  release(cl); release(f2r); release(ar); release(fr); release(hb);
  printf("\n");
}

static void cmd_edge(int r) {
  AMdoc *d = docs[r];
  AMresult *hold; const AMobjId *l = list_of(r, &hold);
  printf("G");
  if (l) {
    size_t n = AMobjSize(d, l, NULL);
    printf(" n=%zu %s", n, st(AMlistPutInt(d, l, SIZE_MAX, true, 99)));
    printf(" %s", st(AMlistPutInt(d, l, SIZE_MAX, false, 98)));
    printf(" %s", st(AMlistIncrement(d, l, SIZE_MAX, -3)));
    printf(" %s", st(AMlistPutCounter(d, l, 0, true, 10)));
    printf(" %s", st(AMlistIncrement(d, l, 0, -3)));
    printf(" %s", st(AMlistPutInt(d, l, n + 7, false, 1)));
    printf(" %s", st(AMlistPutInt(d, l, n + 7, true, 1)));
    printf(" %s", st(AMlistDelete(d, l, n + 7)));
    printf(" %s", st(AMlistDelete(d, l, SIZE_MAX)));
    printf(" %s", st(AMlistPutStr(d, l, 1, true, AMstr("s\xe2\x82\xac"))));
    printf(" %s", st(AMlistPutBool(d, l, 1, true, false)));
    printf(" %s", st(AMlistPutNull(d, l, 1, false)));
    printf(" %s", st(AMlistPutUint(d, l, 1, true, 3)));
    printf(" %s", st(AMlistPutTimestamp(d, l, 1, true, 1234567)));
    static const uint8_t by[2] = {9, 8};
    printf(" %s", st(AMlistPutBytes(d, l, 1, true, AMbytes(by, 2))));
    AMresult *no = AMlistPutObject(d, l, 0, true, AM_OBJ_TYPE_MAP);
    if (AMresultStatus(no) == AM_STATUS_OK) { const AMobjId *m = AMitemObjId(AMresultItem(no)); printf(" nested=%s", st(AMmapPutInt(d, m, AMstr("x"), 1))); printf("/%zu", AMobjSize(d, m, NULL)); } else printf(" nested=err");
    release(no);
    commit(r);
    AMresult *g = AMlistGet(d, l, n + 70, NULL); printf(" far=%s", AMresultStatus(g) == AM_STATUS_OK ? "ok" : "err"); release(g);
    AMresult *g2 = AMlistGet(d, l, SIZE_MAX, NULL); printf(" last="); if (AMresultStatus(g2) == AM_STATUS_OK && AMresultSize(g2)) print_item(AMresultItem(g2)); else printf("none"); release(g2);
    AMresult *r1 = AMlistRange(d, l, 1, 1, NULL); printf(" r11=%s/%zu", AMresultStatus(r1) == AM_STATUS_OK ? "ok" : "err", AMresultSize(r1)); release(r1);
    AMresult *r2 = AMlistRange(d, l, 2, 1, NULL); printf(" r21=%s", AMresultStatus(r2) == AM_STATUS_OK ? "ok" : "err"); release(r2);
    AMresult *r3 = AMlistRange(d, l, 1, 3, NULL); AMitems ri = AMresultItems(r3); AMitem *it; printf(" r13=");
    while ((it = AMitemsNext(&ri, 1)) != NULL) { size_t pos = 0; AMitemPos(it, &pos); printf("%zu=", pos); print_item(it); printf(";"); }
    /* the same items backwards, then rewound */
    AMitems rw = AMitemsRewound(&ri); AMitems rev = AMitemsReversed(&rw); printf(" rev=");
    while ((it = AMitemsNext(&rev, 1)) != NULL) { print_item(it); printf(";"); }
    AMitems rw2 = AMitemsRewound(&ri); AMitemsAdvance(&rw2, 1); it = AMitemsNext(&rw2, 1); printf(" adv="); if (it) print_item(it); else printf("none");
    it = AMitemsPrev(&rw2, 1); printf(" prev="); if (it) print_item(it); else printf("none");
    printf(" size=%zu eq=%d", AMitemsSize(&ri), (int)AMitemsEqual(&rw, &ri));
    release(r3);
    AMresult *oi = AMobjItems(d, l, NULL); printf(" items=%zu", AMresultSize(oi)); release(oi);
  }
  /* transaction rollback leaves no trace */
  AMresult *p = AMmapPutInt(d, AM_ROOT, AMstr("zz"), 1); release(p);
  printf(" pend=%zu", AMpendingOps(d)); printf(" rb=%zu", AMrollback(d)); printf(" pend=%zu", AMpendingOps(d));
  AMresult *gz = AMmapGet(d, AM_ROOT, AMstr("zz"), NULL); printf(" zz="); if (AMresultStatus(gz) == AM_STATUS_OK) print_item(AMresultItem(gz)); else printf("err"); release(gz);
  AMresult *mr = AMmapRange(d, AM_ROOT, AMstr("k"), AMstr("l"), NULL); AMitems mi = AMresultItems(mr); AMitem *it; printf(" range=");
  while ((it = AMitemsNext(&mi, 1)) != NULL) { AMbyteSpan k = {0}; AMitemKey(it, &k); printf("%.*s=", (int)k.count, (const char *)k.src); print_item(it); printf(";"); }
  release(mr);
  AMresult *mr2 = AMmapRange(d, AM_ROOT, AMstr(NULL), AMstr(NULL), NULL); printf(" all=%zu", AMresultSize(mr2)); release(mr2);
  AMresult *mr3 = AMmapRange(d, AM_ROOT, AMstr("z"), AMstr("a"), NULL); printf(" revrange=%s", AMresultStatus(mr3) == AM_STATUS_OK ? "ok" : "err"); release(mr3);
  release(hold);
  printf("\n");
}

static void cmd_errs(int r) {
  AMdoc *d = docs[r];
  static const uint8_t junk[12] = {0x85, 0x6f, 0x4a, 0x83, 1, 2, 3, 4, 1, 200, 200, 3};
  AMresult *hold; const AMobjId *l = list_of(r, &hold);
  printf("Q %s", st(AMload(junk, sizeof junk)));
  printf(" %s", st(AMload(junk, 0)));
  printf(" %s", st(AMchangeFromBytes(junk, sizeof junk)));
  printf(" %s", st(AMsyncMessageDecode(junk, sizeof junk)));
  printf(" %s", st(AMsyncStateDecode(junk, sizeof junk)));
  printf(" %s", st(AMactorIdFromStr(AMstr("zz"))));
  printf(" %s", st(AMactorIdFromStr(AMstr("0a0b"))));
  printf(" %s", st(AMcursorFromStr(AMstr("junk"))));
  printf(" %s", st(AMcursorFromBytes(junk, 3)));
  printf(" %s", st(AMloadIncremental(d, junk, sizeof junk)));
  printf(" %s", st(AMlistPutInt(d, AM_ROOT, 0, true, 1)));
  if (l) {
    printf(" %s", st(AMmapPutInt(d, l, AMstr("k"), 1)));
    printf(" %s", st(AMspliceText(d, l, 0, 0, AMstr("x"))));
    printf(" %s", st(AMmapIncrement(d, l, AMstr("k"), 1)));
    printf(" %s", st(AMmarks(d, l, NULL)));
  }
  printf(" %s", st(AMmapIncrement(d, AM_ROOT, AMstr("nokey"), 1)));
  printf(" %s", st(AMmapDelete(d, AM_ROOT, AMstr("nokey"))));
  AMresult *g = AMmapGet(d, AM_ROOT, AMstr("nokey"), NULL); printf(" get="); if (AMresultStatus(g) == AM_STATUS_OK) { printf("ok/"); print_item(AMresultItem(g)); } else printf("err"); release(g);
  AMresult *bad = AMitemFromChangeHash(AMbytes(junk, 5)); printf(" hash5=%s", AMresultStatus(bad) == AM_STATUS_OK ? "ok" : "err"); release(bad);
  uint8_t bytes33[33] = {0}; AMresult *b33 = AMgetChangeByHash(d, bytes33, 33); printf(" hash33=%s", AMresultStatus(b33) == AM_STATUS_OK ? "ok" : "err"); release(b33);
  AMrollback(d);
  release(hold);
  printf("\n");
}

static void cmd_sync(int r, int s) {
  AMresult *s1r = AMsyncStateInit(), *s2r = AMsyncStateInit();
  AMsyncState *s1 = NULL, *s2 = NULL; AMitemToSyncState(AMresultItem(s1r), &s1); AMitemToSyncState(AMresultItem(s2r), &s2);
  printf("Y");
  for (int round = 0; round < 12; round++) {
    int quiet = 1;
    for (int dir = 0; dir < 2; dir++) {
      AMdoc *from = dir == 0 ? docs[r] : docs[s], *to = dir == 0 ? docs[s] : docs[r];
      AMsyncState *fs = dir == 0 ? s1 : s2, *ts = dir == 0 ? s2 : s1;
      AMresult *mr = AMgenerateSyncMessage(from, fs); const AMsyncMessage *m = NULL;
      if (AMresultStatus(mr) == AM_STATUS_OK && AMresultSize(mr) > 0 && AMitemToSyncMessage(AMresultItem(mr), &m)) {
        quiet = 0;
        AMresult *enc = AMsyncMessageEncode(m); AMbyteSpan eb = {0}; AMitemToBytes(AMresultItem(enc), &eb);
        printf(" %c:", dir == 0 ? '>' : '<'); hex(eb.src, eb.count);
        AMresult *hs = AMsyncMessageHeads(m), *ns = AMsyncMessageNeeds(m), *hv = AMsyncMessageHaves(m);
        printf("/%zu/%zu/%zu", AMresultSize(hs), AMresultSize(ns), AMresultSize(hv)); release(hs); release(ns); release(hv);
        /* decode the bytes again and deliver the decoded message */
        AMresult *dec = AMsyncMessageDecode(eb.src, eb.count); const AMsyncMessage *dm = NULL;
        if (AMresultStatus(dec) == AM_STATUS_OK && AMitemToSyncMessage(AMresultItem(dec), &dm)) printf("/%s", st(AMreceiveSyncMessage(to, ts, dm))); else printf("/decerr");
        release(dec); release(enc);
      }
      release(mr);
    }
    if (quiet) break;
  }
  printf(" h1="); print_heads(docs[r]); printf(" h2="); print_heads(docs[s]);
  AMresult *e1 = AMsyncStateEncode(s1); AMbyteSpan eb = {0}; AMitemToBytes(AMresultItem(e1), &eb); printf(" st="); hex(eb.src, eb.count);
  AMresult *d1 = AMsyncStateDecode(eb.src, eb.count); AMsyncState *ds = NULL;
  if (AMresultStatus(d1) == AM_STATUS_OK && AMitemToSyncState(AMresultItem(d1), &ds)) { AMresult *sh = AMsyncStateSharedHeads(ds); printf(" shared=%zu", AMresultSize(sh)); release(sh); } else printf(" shared=err");
  release(d1); release(e1);
  printf(" eq=%d\n", (int)AMequal(docs[r], docs[s]));
  release(s1r); release(s2r);
}

static const AMobjId *text_of(int r, AMresult **hold) {
  *hold = AMmapGet(docs[r], AM_ROOT, AMstr("t"), NULL);
  if (AMresultStatus(*hold) != AM_STATUS_OK || AMresultSize(*hold) == 0) return NULL;
  AMitem *it = AMresultItem(*hold);
  if (AMitemValType(it) != AM_VAL_TYPE_OBJ_TYPE) return NULL;
  const AMobjId *t = AMitemObjId(it);
  if (AMobjObjType(docs[r], t) != AM_OBJ_TYPE_TEXT) return NULL;
  return t;
}

static size_t unhex(const char *h, uint8_t *out, size_t cap) {
  size_t n = 0;
  while (h[0] && h[1] && n < cap) { unsigned v; if (sscanf(h, "%2x", &v) != 1) break; out[n++] = (uint8_t)v; h += 2; }
  return n;
}

static void obs(int r) {
  printf("O %d heads=", r);
  AMresult *h = AMgetHeads(docs[r]);
  AMitems hs = AMresultItems(h);
  AMitem *it; int first = 1;
  while ((it = AMitemsNext(&hs, 1)) != NULL) { AMbyteSpan b; if (AMitemToChangeHash(it, &b)) { if (!first) printf(","); first = 0; hex(b.src, b.count); } }
  release(h);
  AMresult *s = AMsave(docs[r]);
  AMbyteSpan sb; printf(" save=");
  if (AMitemToBytes(AMresultItem(s), &sb)) hex(sb.src, sb.count);
  release(s);
  /* keys of the root, every value of every key */
  AMresult *ks = AMkeys(docs[r], AM_ROOT, NULL);
  AMitems kit = AMresultItems(ks);
  while ((it = AMitemsNext(&kit, 1)) != NULL) {
    AMbyteSpan k; if (!AMitemToStr(it, &k)) continue;
    printf(" %.*s=[", (int)k.count, (const char *)k.src);
    AMresult *all = AMmapGetAll(docs[r], AM_ROOT, k, NULL);
    AMitems ai = AMresultItems(all); AMitem *v; int f2 = 1;
    while ((v = AMitemsNext(&ai, 1)) != NULL) { if (!f2) printf("|"); f2 = 0; print_item(v); }
    /* walk the same items backwards as well (iterator API) */
    AMitems rw = AMitemsRewound(&ai); AMitems rev = AMitemsReversed(&rw); size_t nrev = 0; while (AMitemsNext(&rev, 1) != NULL) nrev++;
    printf("]#%zu", nrev);
    release(all);
  }
  release(ks);
  AMresult *hold; const AMobjId *l = list_of(r, &hold);
  if (l) {
    size_t n = AMobjSize(docs[r], l, NULL);
    printf(" l%zu=[", n);
    AMresult *rg = AMlistRange(docs[r], l, 0, SIZE_MAX, NULL);
    AMitems ri = AMresultItems(rg); int f3 = 1;
    while ((it = AMitemsNext(&ri, 1)) != NULL) { if (!f3) printf(","); f3 = 0; print_item(it); }
    printf("]");
    release(rg);
    for (size_t i = 0; i < n; i++) { AMresult *g = AMlistGetAll(docs[r], l, i, NULL); printf("/%zu", AMresultSize(g)); release(g); }
    if (baseheads) {
      /* historical reads at the heads of the base change */
      AMitems bh = AMresultItems(baseheads);
      size_t nh = AMobjSize(docs[r], l, &bh);
      printf(" H%zu=[", nh);
      for (size_t i = 0; i < nh; i++) {
        AMresult *g = AMlistGet(docs[r], l, i, &bh);
        if (AMresultStatus(g) == AM_STATUS_OK) print_item(AMresultItem(g)); else printf("err");
        printf(";"); release(g);
      }
      printf("]");
      AMresult *hr = AMlistRange(docs[r], l, 0, SIZE_MAX, &bh); AMitems hi = AMresultItems(hr); int f4 = 1;
      while ((it = AMitemsNext(&hi, 1)) != NULL) { if (!f4) printf(","); f4 = 0; print_item(it); }
      release(hr);
      AMresult *ga = AMlistGetAll(docs[r], l, 0, &bh), *gk = AMmapGetAll(docs[r], AM_ROOT, AMstr("k1"), &bh), *kk = AMkeys(docs[r], AM_ROOT, &bh);
      printf("/%zu/%zu/%zu", AMresultStatus(ga) == AM_STATUS_OK ? AMresultSize(ga) : 0, AMresultStatus(gk) == AM_STATUS_OK ? AMresultSize(gk) : 0, AMresultSize(kk));
      release(ga); release(gk); release(kk);
    }
  }
  release(hold);
  AMresult *th; const AMobjId *t = text_of(r, &th);
  if (t) {
    size_t n = AMobjSize(docs[r], t, NULL);
    AMresult *tx = AMtext(docs[r], t, NULL); AMbyteSpan s = {0};
    printf(" t%zu=", n);
    if (AMresultStatus(tx) == AM_STATUS_OK && AMitemToStr(AMresultItem(tx), &s)) hex(s.src, s.count); else printf("err");
    release(tx);
    for (size_t i = 0; i < n; i++) { AMresult *g = AMlistGetAll(docs[r], t, i, NULL); printf("/%zu", AMresultStatus(g) == AM_STATUS_OK ? AMresultSize(g) : 0); release(g); }
    if (baseheads) {
      AMitems bh = AMresultItems(baseheads);
      AMresult *tb = AMtext(docs[r], t, &bh);
      printf(" tH%zu=", AMobjSize(docs[r], t, &bh));
      if (AMresultStatus(tb) == AM_STATUS_OK && AMitemToStr(AMresultItem(tb), &s)) hex(s.src, s.count); else printf("err");
      release(tb);
    }
  }
  release(th);
  printf("\n");
}

int main(void) {
  char line[512];
  while (fgets(line, sizeof line, stdin)) {
    char cmd[16] = {0}, key[64] = {0}, kind[4] = {0}; int r = 0, s = 0; long long a = 0, b = 0;
    if (sscanf(line, "%15s", cmd) != 1) continue;
    if (!strcmp(cmd, "mode")) { sscanf(line, "%*s %d", &mode); continue; }
    if (!strcmp(cmd, "reset")) {
      /* end of one program: free what was kept (newest first), then the documents */
      while (nkept > 0) AMresultFree(kept[--nkept]);
      for (int i = 0; i < MAXDOC; i++) { if (docres[i]) AMresultFree(docres[i]); docres[i] = NULL; docs[i] = NULL; }
      if (baseheads) AMresultFree(baseheads);
      baseheads = NULL;
      printf("X\n");
      continue;
    }
    if (!strcmp(cmd, "new")) {
      sscanf(line, "%*s %d %lld", &r, &a); uint8_t ab = (uint8_t)a;
      AMresult *ar = AMactorIdFromBytes(&ab, 1); const AMactorId *aid = NULL; AMitemToActorId(AMresultItem(ar), &aid);
      docres[r] = AMcreate(aid); AMitemToDoc(AMresultItem(docres[r]), &docs[r]); release(ar); continue;
    }
    if (!strcmp(cmd, "base")) {
      sscanf(line, "%*s %d", &r);
      AMresult *lo = AMmapPutObject(docs[r], AM_ROOT, AMstr("l"), AM_OBJ_TYPE_LIST); check(lo, "base");
      const AMobjId *l = AMitemObjId(AMresultItem(lo));
      release(AMlistPutCounter(docs[r], l, 0, true, 1)); release(AMlistPutInt(docs[r], l, 1, true, 7));
      commit(r); release(lo);
      if (baseheads) AMresultFree(baseheads);
      baseheads = AMgetHeads(docs[r]); continue;
    }
    if (!strcmp(cmd, "tbase")) {
      sscanf(line, "%*s %d", &r);
      AMresult *to = AMmapPutObject(docs[r], AM_ROOT, AMstr("t"), AM_OBJ_TYPE_TEXT); check(to, "tbase");
      const AMobjId *t = AMitemObjId(AMresultItem(to));
      release(AMspliceText(docs[r], t, 0, 0, AMstr("a\xc3\xa9")));
      commit(r); release(to);
      if (baseheads) AMresultFree(baseheads);
      baseheads = AMgetHeads(docs[r]); continue;
    }
    if (cmd[0] == 't' && (!strcmp(cmd, "tput") || !strcmp(cmd, "tdel") || !strcmp(cmd, "tspl"))) {
      char hx[256] = {0}; uint8_t buf[128]; size_t nb = 0; long long del = 0;
      AMresult *hold; const AMobjId *t;
      sscanf(line, "%*s %d %lld", &r, &a);
      t = text_of(r, &hold);
      if (!t) { printf("R err\n"); release(hold); continue; }
      AMresult *p = NULL;
      if (!strcmp(cmd, "tput")) { sscanf(line, "%*s %*d %*d %255s", hx); nb = unhex(hx, buf, sizeof buf); AMbyteSpan v = {.src = buf, .count = nb}; p = AMlistPutStr(docs[r], t, (size_t)a, false, v); }
      else if (!strcmp(cmd, "tdel")) p = AMlistDelete(docs[r], t, (size_t)a);
      else { sscanf(line, "%*s %*d %*d %lld %255s", &del, hx); nb = unhex(hx, buf, sizeof buf); AMbyteSpan v = {.src = buf, .count = nb}; p = AMspliceText(docs[r], t, (size_t)a, (ptrdiff_t)del, v); }
      printf("R %s\n", AMresultStatus(p) == AM_STATUS_OK ? "ok" : "err"); release(p);
      release(hold); commit(r); continue;
    }
    if (!strcmp(cmd, "merge")) { sscanf(line, "%*s %d %d", &r, &s); AMresult *m = AMmerge(docs[r], docs[s]); check(m, "merge"); release(m); continue; }
    if (!strcmp(cmd, "obs")) { sscanf(line, "%*s %d", &r); obs(r); continue; }
    if (!strcmp(cmd, "scal")) { sscanf(line, "%*s %d", &r); cmd_scal(r); continue; }
    if (!strcmp(cmd, "text")) {
      long long q[10] = {2, 3, 1, 6, 3, 8, 2, 4, 0, 3};
      sscanf(line, "%*s %d %lld %lld %lld %lld %lld %lld %lld %lld %lld %lld", &r, &q[0], &q[1], &q[2], &q[3], &q[4], &q[5], &q[6], &q[7], &q[8], &q[9]);
      cmd_text(r, q); continue;
    }
    if (!strcmp(cmd, "chg")) { sscanf(line, "%*s %d", &r); cmd_chg(r); continue; }
    if (!strcmp(cmd, "apply")) { sscanf(line, "%*s %d", &r); cmd_apply(r); continue; }
    if (!strcmp(cmd, "fork")) { sscanf(line, "%*s %d", &r); cmd_fork(r); continue; }
    if (!strcmp(cmd, "edge")) { sscanf(line, "%*s %d", &r); cmd_edge(r); continue; }
    if (!strcmp(cmd, "errs")) { sscanf(line, "%*s %d", &r); cmd_errs(r); continue; }
    if (!strcmp(cmd, "sync")) { sscanf(line, "%*s %d %d", &r, &s); cmd_sync(r, s); continue; }
    if (!strcmp(cmd, "mput")) {
      sscanf(line, "%*s %d %63s %3s %lld", &r, key, kind, &a);
      AMresult *p = kind[0] == 'c' ? AMmapPutCounter(docs[r], AM_ROOT, AMstr(key), a) : AMmapPutInt(docs[r], AM_ROOT, AMstr(key), a);
      printf("R %s\n", AMresultStatus(p) == AM_STATUS_OK ? "ok" : "err"); release(p); commit(r); continue;
    }
    if (!strcmp(cmd, "mdel")) { sscanf(line, "%*s %d %63s", &r, key); AMresult *p = AMmapDelete(docs[r], AM_ROOT, AMstr(key)); printf("R %s\n", AMresultStatus(p) == AM_STATUS_OK ? "ok" : "err"); release(p); commit(r); continue; }
    if (!strcmp(cmd, "minc")) { sscanf(line, "%*s %d %63s %lld", &r, key, &a); AMresult *p = AMmapIncrement(docs[r], AM_ROOT, AMstr(key), a); printf("R %s\n", AMresultStatus(p) == AM_STATUS_OK ? "ok" : "err"); release(p); commit(r); continue; }
    if (cmd[0] == 'l') {
      AMresult *hold; const AMobjId *l;
      sscanf(line, "%*s %d %lld", &r, &a);
      l = list_of(r, &hold);
      AMresult *p = NULL;
      if (!l) { printf("R err\n"); release(hold); continue; }
      if (!strcmp(cmd, "lput") || !strcmp(cmd, "lins")) {
        sscanf(line, "%*s %*d %*d %3s %lld", kind, &b); bool ins = !strcmp(cmd, "lins");
        p = kind[0] == 'c' ? AMlistPutCounter(docs[r], l, (size_t)a, ins, b) : AMlistPutInt(docs[r], l, (size_t)a, ins, b);
      } else if (!strcmp(cmd, "ldel")) p = AMlistDelete(docs[r], l, (size_t)a);
      else if (!strcmp(cmd, "linc")) { sscanf(line, "%*s %*d %*d %lld", &b); p = AMlistIncrement(docs[r], l, (size_t)a, b); }
      if (p) { printf("R %s\n", AMresultStatus(p) == AM_STATUS_OK ? "ok" : "err"); release(p); }
      release(hold); commit(r); continue;
    }
  }
  /* free what was kept, newest first, then the documents */
  while (nkept > 0) AMresultFree(kept[--nkept]);
  free(kept);
  for (int i = 0; i < MAXDOC; i++) if (docres[i]) AMresultFree(docres[i]);
  if (baseheads) AMresultFree(baseheads);
  return 0;
}
