/* C36: replays programs derived from Doc.tla behaviours through the C ABI of automerge-c.
 *
 *   driver < program.txt > observed.txt          (built with clang -fsanitize=address,undefined)
 *
 * Program lines:
 *   new <r> <actor-byte>            create document r with a one-byte actor id
 *   base <r>                        root "l" := list [counter 1, int 7], committed (the Doc.tla list base)
 *   mput <r> <key> <kind> <v>       kind: i int, c counter           (then commit)
 *   mdel <r> <key>
 *   minc <r> <key> <by>
 *   lput <r> <idx> <kind> <v>       put on element idx of the list at root "l"
 *   lins <r> <idx> <kind> <v>       insert
 *   ldel <r> <idx>
 *   linc <r> <idx> <by>
 *   merge <r> <s>
 *   obs <r>                         print the observation line of document r
 *   reset                           end of a program: frees every kept result and all documents
 *   mode <0|1|2>                    result-freeing discipline: 0 free at once, 1 keep and free in reverse at exit,
 *                                   2 keep every second result until exit
 * Observation line:  O <r> heads=<hex,..> save=<hex> k1=[..] l=[..] text/keys read through items and byte spans.
 */
#include <stdio.h>
#include <stdlib.h>
#include <string.h>
#include <stdint.h>
#include <stdbool.h>
#include "am.h"

#define MAXDOC 8
static AMdoc *docs[MAXDOC];
static AMresult *docres[MAXDOC];
static AMresult **kept = NULL;
static size_t nkept = 0, capkept = 0;
static int mode = 0;
static size_t counter = 0;

static void release(AMresult *r) {
  if (!r) return;
  counter++;
  if (mode == 0 || (mode == 2 && counter % 2 == 0)) { AMresultFree(r); return; }
  if (nkept == capkept) { capkept = capkept ? capkept * 2 : 64; kept = realloc(kept, capkept * sizeof(*kept)); }
  kept[nkept++] = r;
}

static void check(AMresult *r, const char *what) {
  if (AMresultStatus(r) != AM_STATUS_OK) {
    AMbyteSpan e = AMresultError(r);
    printf("E %s: %.*s\n", what, (int)e.count, (const char *)e.src);
  }
}

static void hex(const uint8_t *p, size_t n) { for (size_t i = 0; i < n; i++) printf("%02x", p[i]); }

static void commit(int r) { int64_t t = 0; AMresult *c = AMcommit(docs[r], AMstr(NULL), &t); check(c, "commit"); release(c); }

static void print_item(AMitem *it) {
  switch (AMitemValType(it)) {
    case AM_VAL_TYPE_INT: { int64_t v; AMitemToInt(it, &v); printf("i:%lld", (long long)v); break; }
    case AM_VAL_TYPE_UINT: { uint64_t v; AMitemToUint(it, &v); printf("u:%llu", (unsigned long long)v); break; }
    case AM_VAL_TYPE_COUNTER: { int64_t v; AMitemToCounter(it, &v); printf("c:%lld", (long long)v); break; }
    case AM_VAL_TYPE_BOOL: { bool v; AMitemToBool(it, &v); printf("b:%d", v); break; }
    case AM_VAL_TYPE_NULL: printf("n"); break;
    case AM_VAL_TYPE_STR: { AMbyteSpan s; AMitemToStr(it, &s); printf("s:%.*s", (int)s.count, (const char *)s.src); break; }
    case AM_VAL_TYPE_OBJ_TYPE: printf("o"); break;
    default: printf("?%d", (int)AMitemValType(it));
  }
}

static const AMobjId *list_of(int r, AMresult **hold) {
  *hold = AMmapGet(docs[r], AM_ROOT, AMstr("l"), NULL);
  if (AMresultStatus(*hold) != AM_STATUS_OK || AMresultSize(*hold) == 0) return NULL;
  AMitem *it = AMresultItem(*hold);
  if (AMitemValType(it) != AM_VAL_TYPE_OBJ_TYPE) return NULL;
  return AMitemObjId(it);
}

static void obs(int r) {
  printf("O %d heads=", r);
  AMresult *h = AMgetHeads(docs[r]);
  AMitems hs = AMresultItems(h);
  AMitem *it; int first = 1;
  while ((it = AMitemsNext(&hs, 1)) != NULL) { AMbyteSpan b; if (AMitemToChangeHash(it, &b)) { if (!first) printf(","); first = 0; hex(b.src, b.count); } }
  release(h);
  AMresult *s = AMsave(docs[r]);
  AMbyteSpan sb; printf(" save=");
  if (AMitemToBytes(AMresultItem(s), &sb)) hex(sb.src, sb.count);
  release(s);
  /* keys of the root, every value of every key */
  AMresult *ks = AMkeys(docs[r], AM_ROOT, NULL);
  AMitems kit = AMresultItems(ks);
  while ((it = AMitemsNext(&kit, 1)) != NULL) {
    AMbyteSpan k; if (!AMitemToStr(it, &k)) continue;
    printf(" %.*s=[", (int)k.count, (const char *)k.src);
    AMresult *all = AMmapGetAll(docs[r], AM_ROOT, k, NULL);
    AMitems ai = AMresultItems(all); AMitem *v; int f2 = 1;
    while ((v = AMitemsNext(&ai, 1)) != NULL) { if (!f2) printf("|"); f2 = 0; print_item(v); }
    /* walk the same items backwards as well (iterator API) */
    AMitems rev = AMitemsReversed(&ai); size_t nrev = 0; while (AMitemsNext(&rev, 1) != NULL) nrev++;
    printf("]#%zu", nrev);
    release(all);
  }
  release(ks);
  AMresult *hold; const AMobjId *l = list_of(r, &hold);
  if (l) {
    size_t n = AMobjSize(docs[r], l, NULL);
    printf(" l%zu=[", n);
    AMresult *rg = AMlistRange(docs[r], l, 0, SIZE_MAX, NULL);
    AMitems ri = AMresultItems(rg); int f3 = 1;
    while ((it = AMitemsNext(&ri, 1)) != NULL) { if (!f3) printf(","); f3 = 0; print_item(it); }
    printf("]");
    release(rg);
    for (size_t i = 0; i < n; i++) { AMresult *g = AMlistGetAll(docs[r], l, i, NULL); printf("/%zu", AMresultSize(g)); release(g); }
  }
  release(hold);
  printf("\n");
}

int main(void) {
  char line[512];
  while (fgets(line, sizeof line, stdin)) {
    char cmd[16] = {0}, key[64] = {0}, kind[4] = {0}; int r = 0, s = 0; long long a = 0, b = 0;
    if (sscanf(line, "%15s", cmd) != 1) continue;
    if (!strcmp(cmd, "mode")) { sscanf(line, "%*s %d", &mode); continue; }
    if (!strcmp(cmd, "reset")) {
      /* end of one program: free what was kept (newest first), then the documents */
      while (nkept > 0) AMresultFree(kept[--nkept]);
      for (int i = 0; i < MAXDOC; i++) { if (docres[i]) AMresultFree(docres[i]); docres[i] = NULL; docs[i] = NULL; }
      printf("X\n");
      continue;
    }
    if (!strcmp(cmd, "new")) {
      sscanf(line, "%*s %d %lld", &r, &a); uint8_t ab = (uint8_t)a;
      AMresult *ar = AMactorIdFromBytes(&ab, 1); const AMactorId *aid = NULL; AMitemToActorId(AMresultItem(ar), &aid);
      docres[r] = AMcreate(aid); AMitemToDoc(AMresultItem(docres[r]), &docs[r]); release(ar); continue;
    }
    if (!strcmp(cmd, "base")) {
      sscanf(line, "%*s %d", &r);
      AMresult *lo = AMmapPutObject(docs[r], AM_ROOT, AMstr("l"), AM_OBJ_TYPE_LIST); check(lo, "base");
      const AMobjId *l = AMitemObjId(AMresultItem(lo));
      release(AMlistPutCounter(docs[r], l, 0, true, 1)); release(AMlistPutInt(docs[r], l, 1, true, 7));
      commit(r); release(lo); continue;
    }
    if (!strcmp(cmd, "merge")) { sscanf(line, "%*s %d %d", &r, &s); AMresult *m = AMmerge(docs[r], docs[s]); check(m, "merge"); release(m); continue; }
    if (!strcmp(cmd, "obs")) { sscanf(line, "%*s %d", &r); obs(r); continue; }
    if (!strcmp(cmd, "mput")) {
      sscanf(line, "%*s %d %63s %3s %lld", &r, key, kind, &a);
      AMresult *p = kind[0] == 'c' ? AMmapPutCounter(docs[r], AM_ROOT, AMstr(key), a) : AMmapPutInt(docs[r], AM_ROOT, AMstr(key), a);
      printf("R %s\n", AMresultStatus(p) == AM_STATUS_OK ? "ok" : "err"); release(p); commit(r); continue;
    }
    if (!strcmp(cmd, "mdel")) { sscanf(line, "%*s %d %63s", &r, key); AMresult *p = AMmapDelete(docs[r], AM_ROOT, AMstr(key)); printf("R %s\n", AMresultStatus(p) == AM_STATUS_OK ? "ok" : "err"); release(p); commit(r); continue; }
    if (!strcmp(cmd, "minc")) { sscanf(line, "%*s %d %63s %lld", &r, key, &a); AMresult *p = AMmapIncrement(docs[r], AM_ROOT, AMstr(key), a); printf("R %s\n", AMresultStatus(p) == AM_STATUS_OK ? "ok" : "err"); release(p); commit(r); continue; }
    if (cmd[0] == 'l') {
      AMresult *hold; const AMobjId *l;
      sscanf(line, "%*s %d %lld", &r, &a);
      l = list_of(r, &hold);
      AMresult *p = NULL;
      if (!l) { printf("R err\n"); release(hold); continue; }
      if (!strcmp(cmd, "lput") || !strcmp(cmd, "lins")) {
        sscanf(line, "%*s %*d %*d %3s %lld", kind, &b); bool ins = !strcmp(cmd, "lins");
        p = kind[0] == 'c' ? AMlistPutCounter(docs[r], l, (size_t)a, ins, b) : AMlistPutInt(docs[r], l, (size_t)a, ins, b);
      } else if (!strcmp(cmd, "ldel")) p = AMlistDelete(docs[r], l, (size_t)a);
      else if (!strcmp(cmd, "linc")) { sscanf(line, "%*s %*d %*d %lld", &b); p = AMlistIncrement(docs[r], l, (size_t)a, b); }
      if (p) { printf("R %s\n", AMresultStatus(p) == AM_STATUS_OK ? "ok" : "err"); release(p); }
      release(hold); commit(r); continue;
    }
  }
  /* free what was kept, newest first, then the documents */
  while (nkept > 0) AMresultFree(kept[--nkept]);
  free(kept);
  for (int i = 0; i < MAXDOC; i++) if (docres[i]) AMresultFree(docres[i]);
  return 0;
}
