#!/usr/bin/env python3
"""python re-implementation of View.tla patch application for DEBUGGING rejected events (not an oracle)"""
import json,sys
ev=[json.loads(l) for l in open(sys.argv[1])]
i=int(sys.argv[2])-1
e=ev[i]
if e['ev']=='diff':
    v1,v2,ps=e['v1'],e['v2'],e['patches']; print('diff',e['before'],'->',e['after'])
else:
    r=e['r']; prev=[x for x in ev[:i] if x.get('r')==r and 'view' in x.get('obs',{})][-1]
    v1,v2,ps=prev['obs']['view'],e['obs']['view'],e['patches']; print(e['ev'],e.get('via'),e.get('batch'),e.get('res'), [ (c['fn'],c.get('key',c.get('idx')),c.get('res')) for c in e.get('calls',[])])
def brief(o):
    def reg(r): return [(tuple(x['id']),x['v']['k'],x['v']['s'] or x['v']['n']) for x in r['vals']], tuple(r['win'])
    if o['ty'] in('map','table'): return {x['k']:reg(x) for x in o['ents']}
    if o['ty']=='list': return [reg(x) for x in o['elems']]
    return ''.join(o['text'])
for nm,v in(('V1',v1),('V2',v2)):
    print(nm)
    for o in v: print('   ',o['id'],o['ty'],brief(o))
print('PATCHES')
for p in ps: print('   ',{k:(v if k not in('val',) else (v['k'],v['s'] or v['n'])) for k,v in p.items()})
