#!/bin/bash
# usage: tools/try_seed.sh <seed-dir-name> <tier> <check-id>...   -- apply seeded patch to /repo, run checks, always undo it
# Refuses to run on a dirty /repo: undoing uses `git apply -R` of exactly the seeded patch, never a blanket checkout.
d=/verif/seeded/$1; tier=$2; shift 2
if [ -n "$(git -C /repo status --porcelain --untracked-files=no)" ]; then echo "/repo has uncommitted changes: commit or stash them first"; exit 3; fi
git -C /repo apply --check $d/patch.diff || { echo "patch does not apply"; exit 3; }
git -C /repo apply $d/patch.diff
trap 'git -C /repo apply -R $d/patch.diff && echo "[reverted]"' EXIT
for c in "$@"; do
  echo "== $c on seed $(basename $d)"
  /verif/bin/check $c --tier $tier 2>&1 | grep -E "VIOLATION|KNOWN|\[ok\]|TOOL-ERROR|violation\]" | head -8
  echo "exit=${PIPESTATUS[0]}"
done
