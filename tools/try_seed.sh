#!/bin/bash
# usage: tools/try_seed.sh <seed-dir-name> <tier> <check-id>...   -- apply seeded patch to /repo, run checks, always revert
d=/verif/seeded/$1; tier=$2; shift 2
git -C /repo apply --check $d/patch.diff || { echo "patch does not apply"; exit 3; }
git -C /repo apply $d/patch.diff
trap 'git -C /repo checkout -- rust && echo "[reverted]"' EXIT
for c in "$@"; do
  echo "== $c on seed $(basename $d)"
  /verif/bin/check $c --tier $tier 2>&1 | grep -E "VIOLATION|KNOWN|\[ok\]|TOOL-ERROR|violation\]" | head -8
  echo "exit=${PIPESTATUS[0]}"
done
