#!/bin/bash
# run every registered check in the thorough tier, one after the other; prints one line per check
cd "$(dirname "$0")/.."
(cd harness && CARGO_NET_OFFLINE=true cargo build --offline --bins 2>&1 | tail -1)
# usage: run_thorough_all.sh [id ...]   (default: every check of the manifest)
ids="$@"
[ -z "$ids" ] && ids=$(python3 -c "import json;print(' '.join(x['property_id'] for x in json.load(open('MANIFEST.json'))['checks']))")
# (do not apply seeded changes to /repo while this runs: the checks build from /repo's working tree)
for c in $ids; do
  s=$(date +%s)
  timeout 5400 bin/check $c --tier thorough > work-thorough-$c.log 2>&1
  rc=$?
  echo "THOROUGH $c exit=$rc secs=$(( $(date +%s) - s )) $(grep -E '^\[ok\]|VIOLATION|TOOL-ERROR' work-thorough-$c.log | head -2 | tr '\n' ' ' | cut -c1-200)"
done
