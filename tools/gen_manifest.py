#!/usr/bin/env python3
"""Regenerate /verif/MANIFEST.json from the table below (kept next to the code so it cannot drift)."""
import json, os, subprocess
V = os.path.dirname(os.path.dirname(os.path.abspath(__file__)))

TB = "assumes: TLC 1.8.0 evaluates the TLA+ operators correctly; the harness projection (public read API only) and the event encoder are faithful; documents stay within the driver caps (<=4 replicas, <=14 changes)"

CHECKS = {
 "C04": dict(cat="model_checking", tech="TLA+ trace validation (TLC) of implementation traces against Graph.tla commit/heads rules + exhaustive TLC model checking of ChangeGraph.tla",
   text="Every commit event of seeded random multi-replica programs must be the ChangeGraph Commit action: seq = actor's last + 1, start_op = max op of applied + 1, deps = heads (+ own previous change) or the isolation heads, heads = maximal applied changes after every event. The design-level state machine is model checked exhaustively for small constants.", ref="§6 C04"),
 "C05": dict(cat="model_checking", tech="TLA+ trace validation (TLC) against Graph.tla Deliver/Ready/Missing + exhaustive TLC model checking of ChangeGraph.tla",
   text="After every delivery (4 ingestion paths, shuffled, partial, duplicated batches) applied/queued/heads/get_missing_deps must equal the specification's Deliver result (least fixpoint of causally ready changes; missing-deps walk).", ref="§6 C05"),
 "C38": dict(cat="model_checking", tech="TLA+ trace validation (TLC) of duplicate-(actor,seq) scenarios against Graph.tla + TLC model checking of ChangeGraph.tla UniqueActorSeq",
   text="Scenarios reuse actor ids through forks and set_actor; the trace spec requires rejection exactly where the spec's Deliver rejects, queue pruning on local commit, and unique, contiguous (actor,seq) over applied and queued changes after every event.", ref="§6 C38"),
 "C10": dict(cat="model_checking", tech="TLA+ trace validation (TLC): get_changes(have) = applied minus ancestors(have), dependency order, write-once byte digests",
   text="Retrieval events must return exactly the non-ancestors of have, each after its dependencies, with byte digests equal to those fixed at creation and hash = SHA-256 of the chunk.", ref="§6 C10"),
 "C01": dict(cat="model_checking", tech="TLA+ trace validation (TLC, Trace_Same: equal applied sets => equal observations) + replay of TLC-generated programs from Doc.tla + TLC model checking of ChangeGraph.tla (Commutes)",
   text="Readers fed the same change set through shuffled orders, batchings, duplicates and every ingestion path must project identical documents (heads, value sets, winners, order, counters, text); design-level order independence is model checked.", ref="§6 C01"),
 "C02": dict(cat="model_checking", tech="TLA+ trace validation (TLC, Trace_Interp: view = OpSet!Interp of the decoded ops) + exhaustive transition-coverage replay of Doc.tla behaviours into the implementation",
   text="After every event the projected document must equal the TLA+ interpretation (multi-value registers, Lamport winner, RGA order, counter sums) of the ops decoded from the replica's own changes; in the other direction every (state, transition) pair of the bounded Doc.tla model (2-3 replicas, puts/deletes/increments/inserts/merges on a conflicted register and list) is replayed and compared step by step.", ref="§6 C02"),
 "C03": dict(cat="model_checking", tech="TLA+ trace validation (TLC, Trace_Seq: After = SeqSpec(Before, call) on views read through the open transaction) + TLC-checked LocalEffect invariant of Doc.tla with replay",
   text="Every call of every transaction in seeded programs (valid, boundary and invalid arguments on maps, lists, text with conflicts/counters/nesting) must transform the logged view exactly as the sequential specification says, leave all other objects unchanged, fail exactly for invalid arguments without changing anything, and the committed view must equal the last in-transaction view. The op-generation rules of Doc.tla are checked by TLC to realise the documented effect on every reachable state (LocalEffect) and the behaviours are replayed.", ref="§6 C03"),
 "C07": dict(cat="model_checking", tech="Exhaustive state-coverage replay of Doc.tla with Interp at every antichain of heads + TLA+ trace validation (Trace_Interp ReadAt) of random histories",
   text="For every reachable state of the bounded Doc.tla model TLC enumerates all antichains H of the acting replica's changes and the view Interp(ops of ancestors(H)); the harness issues the reads at H and fork_at(H) on the real document and compares. Random conflict-rich histories are validated the other way round (logged reads at single and concurrent heads must equal the interpretation of the ancestors' decoded ops; fork_at heads/changes/view).", ref="§6 C07"),
 "C11": dict(cat="model_checking", tech="TLA+ trace validation (TLC): Trace_Graph (applied/queue/heads/bytes after load, resave digest), Trace_Same (identical document), Trace_Interp (historical reads after reload), Trace_Storage (save layout)",
   text="Programs with frequent save/load cycles (deflate and retain_orphans on/off, queued orphans, empty changes): the loaded replica must report the same applied set, queue (iff retained), heads, change bytes, document and historical states as the specification state, and saving again must give identical bytes.", ref="§6 C11"),
 "C12": dict(cat="model_checking", tech="TLA+ trace validation (TLC, Trace_Storage over StorageOps/Graph operators) of real save + save_after files: whole-file loads, out-of-order piecewise feeding with repeats; TLC model checking of Storage.tla (Compose)",
   text="The chunk layout of every piece written by the real writer is logged; the trace spec derives from it what loading the concatenation and feeding any piece to a reader (delivery rules of Graph.tla) must produce, and requires idempotent re-feeding.", ref="§6 C12"),
 "C13": dict(cat="fault_enumeration", tech="Exhaustive enumeration of every byte cut of real files, each outcome validated by TLC against Storage!LoadResult (Trace_Storage) + TLC model checking of Storage.tla CrashPrefix",
   text="For every byte offset of files made of a save and 2-5 incremental saves, strict and partial load outcomes (error / applied set / queue / heads / view digest) must equal the specification's prediction from the chunk boundaries: last whole chunk for partial loads, boundaries only for strict loads, never a panic.", ref="§6 C13"),
 "C14": dict(cat="fault_enumeration", tech="Enumeration of single-bit flips of real files; the TLA+ trace spec (Trace_Storage Flips) requires every flip to be rejected",
   text="Every flipped bit (all bits in thorough tier, header bits + seeded sample in quick) of document+incremental files must make strict load fail; accepted-same, accepted-different and panic outcomes are violations.", ref="§6 C14", note="assumes: rejection rests on the 32-bit chunk checksum, the check observes that no enumerated flip collides; bundle bytes are covered by the C18 check once built"),
 "C20": dict(cat="model_checking", tech="Explicit TLA+ model of the sync protocol (Sync.tla) model checked by TLC (NoStuck invariant, bounded liveness) + exhaustive transition-coverage replay of its behaviours into real Automerge/sync::State with forced Bloom false positives",
   text="Sync.tla transcribes generate_sync_message / receive_sync_message / get_hashes_to_send; TLC explores every interleaving of edits, generates and receives for 2 peers with a persistent false positive and checks that a quiet network with nothing in flight has converged; every (state, transition) pair is replayed on the implementation and messages (heads, need, have, carried changes, flags) and all sync::State fields are compared after each step.", ref="§6 C20"),
 "C21": dict(cat="model_checking", tech="Sync.tla with 3 peers, link drops losing in-flight messages, fresh and persisted (encode/decode) reconnects: TLC invariant NoStuck + replay of behaviours into the implementation",
   text="Exhaustive for 2 peers with one drop, simulation for 3 peers with up to 3 drops (quick: 2); each behaviour replayed with real State::encode/decode.", ref="§6 C21"),
 "C22": dict(cat="model_checking", tech="Sync.tla with set_read_only toggles: TLC action property ReadOnlyNeverApplies, invariant NoStuck after toggling back + exhaustive transition-coverage replay",
   text="All interleavings of toggles (either side, messages in flight, concurrent edits) for 1-2 changes and up to 2-3 toggles are replayed on the implementation; the read-only peer's applied set/queue are compared after every receive, and catch-up after switching back is the NoStuck invariant.", ref="§6 C22"),
 "C06": dict(cat="model_checking", tech="TLA+ trace validation (TLC): Trace_Graph ErrorUnchanged predicates on rejected deliveries/merges (spec state before the call vs observation after), Trace_Seq on rejected transaction calls; TLC model checking of ChangeGraph.tla (ErrorKeepsApplied)",
   text="Every failing call in the duplicate-sequence, invalid-call and boundary families must leave applied set, queue, in-transaction views unchanged and the document must still save and load. One deliberate deviation of the implementation (a DuplicateSeqNumber rejection prunes the rejected actor's queued branch) is a listed known finding; any other change across a failing call is still reported.", ref="§6 C06, §7 F9"),
 "C28": dict(cat="model_checking", tech="TLA+ trace validation (TLC, Trace_Graph Rollback action): observation and save digest before = after, byte-identical follow-up change on rolled-back document vs. pre-transaction clone",
   text="Rolled-back transactions (Transaction::rollback, transact with Err, AutoCommit::rollback) of 1-4 random calls on prior states with conflicts, queues and several actors.", ref="§6 C28"),
 "C29": dict(cat="model_checking", tech="TLA+ trace validation (TLC): Trace_Interp (reads inside transaction_at(H) = Interp(ancestors(H)); document after commit = Interp(all applied)), Trace_Seq (calls act on the isolated view), Trace_Graph (deps = H, isolated actor rule)",
   text="Programs with ~30% isolated transactions at random antichains with remote changes arriving in between.", ref="§6 C29", note="assumes as the other trace checks; AutoCommit::isolate/integrate are exercised through Automerge::transaction_at only (the same transaction_args path)"),
 "C08": dict(cat="model_checking", tech="TLA+ trace validation (TLC, Trace_View): the TLA+ patch applier View!ApplyPatches folded over the logged projection at H1 must give the logged projection at H2",
   text="diff(H1,H2) for random ordered pairs of antichains (both directions, empty heads, current heads) of conflict-rich histories (counters with concurrent increments, overwritten/deleted values, lists, nested objects, text). The only thing demanded of a patch list is its effect on the view (winners, ids, conflict flags, counter values, list order, text).", ref="§6 C08"),
 "C09": dict(cat="model_checking", tech="TLA+ trace validation (TLC, Trace_View): patches of every mutating call (*_log_patches variants) folded by View!ApplyPatches over the previous projection must equal the new projection",
   text="Transactions (incl. transaction_at), apply_changes single/batch/out-of-order, load_incremental and merge on 2-4 replicas with conflicted registers, counters, lists, nested objects and text. Three deliberate/unrepaired deviations of the implementation are listed known findings (narrow classes); any other divergence is reported.", ref="§6 C09"),
 "C24": dict(cat="model_checking", tech="TLA+ trace validation (TLC): Trace_Interp (OpSet!Width per encoding: length, per-unit reads, marks/get_marks/spans/cursor indexes in units, spans concatenate to text) + Trace_Seq (splice_text/delete/mark arguments act in units)",
   text="Text editing programs over an alphabet of 1-4 unit characters under all four encodings on 2-3 replicas with merges, isolated transactions and historical reads; the specification owns the width table and the UAX#29 subset. Grapheme clusters spanning several elements are a listed known finding (length is summed per element).", ref="§6 C24"),
 "C25": dict(cat="model_checking", tech="TLA+ trace validation (TLC): Trace_Interp (marks()/get_marks(i)/spans() = OpSet!UnitMarks, the Peritext reading of the decoded mark ops; OpSet!ExpandHolds for insertions at mark boundaries) + Trace_Seq (mark/unmark change exactly [start,end)) + Trace_Same on mark-bearing histories",
   text="Histories of text edits interleaved with mark/unmark over overlapping ranges, 2 names, null values, all expand settings, 2-3 replicas, merges, isolated transactions, invalid ranges, reads at historical heads.", ref="§6 C25"),
 "C26": dict(cat="model_checking", tech="TLA+ trace validation (TLC, Trace_Interp): remembered cursors resolved at the end and at historical heads must equal OpSet!CursorPos; get_cursor_position(get_cursor(i)) = i in every projected state, for both move modes and the byte/string forms",
   text="List and text histories with deletes, puts on elements, concurrent edits and merges; cursors of both move modes taken at random points and resolved on every replica later and at random antichains of heads.", ref="§6 C26"),
 "C30": dict(cat="model_checking", tech="TLA+ trace validation (TLC, Trace_Interp IdProbe): every captured object id, in every serialised form and with stale/perturbed actor-index hints, must read and edit OpSet!ObjView of the object with that op id in the replica's own history, or fail when the replica lacks it",
   text="Histories in which every new actor sorts before the existing ones, ids captured on random replicas and used on all replicas after merges, loads and forks.", ref="§6 C30"),
 "C40": dict(cat="model_checking", tech="TLA+ trace validation (TLC, Trace_Interp Migrate): the migrated document is checked register by register against the op-based interpretation of the original history plus the decoded added change",
   text="String-rich histories (conflicted registers, deleted strings, nested and deleted objects) saved and loaded with StringMigration::ConvertToText on every replica.", ref="§6 C40"),
 "C37": dict(cat="exploration", tech="TLA+ trace validation (TLC, Trace_Args): a generated catalogue of invalid/stale/foreign/extreme arguments for every public read, edit, historical read and head-taking call, executed on replicas reached by random programs; plus the no-panic predicate over every event of the 24 other scenario families",
   text="Each bad call is logged with the class of its argument as the generator knows it; the trace spec requires no panic ever, an error or empty result for invalid arguments, a still loadable document, and acceptance of the library's own patches by hydrate::Value::apply_patches.", ref="§6 C37",
   note="assumes: panics are observed with catch_unwind in a build with debug assertions and overflow checks on (the repository's test profile); aborts would surface as tool errors; the catalogue is finite (about 700 calls per replica), not all argument combinations"),
 "C15": dict(cat="fault_enumeration", tech="Mutation vectors (structure-aware, checksum recomputed) on real encodings executed in isolated child processes, outcomes validated by the TLA+ trace spec Trace_Wire; Bloom filter field vectors enumerated exhaustively from Wire.tla with the parser's predicted decision",
   text="Every entry point of the property (load, load_incremental, rescue, Change::from_bytes, Message/State::decode + processing, Bundle, BloomFilter/Cursor/ObjId::try_from, string parsers, import) is fed mutated documents, changes, bundles, messages, states, filters, ids; a panic, abort or hang is a violation. 14 classes of panics in the document/change/bundle decoders are listed known findings (by source file of the panic); anything else is reported.", ref="§5a, §6 C15", note="assumes: panics are caught with catch_unwind in a build with debug assertions and overflow checks; aborts and hangs are observed through process isolation (child workers, 10 s watchdog); positions are sampled (all header positions + a seeded sample), histories are sampled; the TLA+ contribution is the contract (Trace_Wire) and, for Bloom filters, the full field-vector space with the parser's decision (Wire.tla) - inside column payloads the specification only names where and how to corrupt"),
 "C16": dict(cat="fault_enumeration", tech="Same campaign; Trace_Wire requires every ACCEPTED input to pass the consistency probe (all reads incl. historical, save->load equal, edit+commit+reload, merge with the original converges)",
   text="Accepted mutated documents / changes / bundles must behave like valid documents. Two classes are listed known findings (altered compressed change accepted; contradictory ops stored as they are).", ref="§5a, §6 C16", note="assumes: panics are caught with catch_unwind in a build with debug assertions and overflow checks; aborts and hangs are observed through process isolation (child workers, 10 s watchdog); positions are sampled (all header positions + a seeded sample), histories are sampled; the TLA+ contribution is the contract (Trace_Wire) and, for Bloom filters, the full field-vector space with the parser's decision (Wire.tla) - inside column payloads the specification only names where and how to corrupt"),
 "C17": dict(cat="fault_enumeration", tech="Same campaign and the Wire.tla Bloom vectors under a counting global allocator (requests >= 2 GiB refused) and a watchdog; Trace_Wire WithinBudget: peak <= 32 MiB + 64 KiB/byte, request <= 64 MiB, 5 s",
   text="Length, count and parameter fields set to 0, 1, 127, 128, 65535, 2^32-1, 2^32, 2^63, 2^64-1 at sampled and all header positions of inputs below 4 KiB. Known findings: bundle count fields, inflation of a compressed change.", ref="§5a, §6 C17", note="assumes: panics are caught with catch_unwind in a build with debug assertions and overflow checks; aborts and hangs are observed through process isolation (child workers, 10 s watchdog); positions are sampled (all header positions + a seeded sample), histories are sampled; the TLA+ contribution is the contract (Trace_Wire) and, for Bloom filters, the full field-vector space with the parser's decision (Wire.tla) - inside column payloads the specification only names where and how to corrupt"),
 "C39": dict(cat="fault_enumeration", tech="Same campaign with invalid UTF-8 planted at sampled positions of string-bearing encodings (checksum recomputed); Trace_Wire requires every string handed out by an accepted document to re-validate as UTF-8",
   text="Map keys, string values, text, mark names/values, spans and change messages of every accepted mutated input are re-validated on their raw bytes.", ref="§5a, §6 C39", note="assumes: panics are caught with catch_unwind in a build with debug assertions and overflow checks; aborts and hangs are observed through process isolation (child workers, 10 s watchdog); positions are sampled (all header positions + a seeded sample), histories are sampled; the TLA+ contribution is the contract (Trace_Wire) and, for Bloom filters, the full field-vector space with the parser's decision (Wire.tla) - inside column payloads the specification only names where and how to corrupt"),
 "C23": dict(cat="fault_enumeration", tech="Wire.tla enumerates every Bloom filter field vector (10 symbolic values per field x 5 byte-availability classes) with the decision the parser must take; replayed on BloomFilter::try_from + contains_hash in isolated processes; Trace_Wire: verdicts equal, queries return, no false negatives for built/decoded filters",
   text="Exhaustive over the token space; hash sets of sizes 0..5000 incl. adversarial ones; the filters exchanged in the sync replays are compared with the model's membership by C20-C22.", ref="§5a, §6 C23", note="assumes: the token alphabet {0,1,2,7,8,10,300,65536,2^32-1,2^32} covers the parser's case distinctions; aborts/hangs observed through process isolation"),
 "C18": dict(cat="model_checking", tech="TLA+ trace validation (Trace_Wire ChgRT) of raw / compressed / decoded-and-re-encoded bytes of every change + TLC-generated delivery schedules (Gen_Delivery over the real DAG) whose batches are delivered as bundle chunks and replayed with the state Graph!DeliverResult predicts",
   text="Change and bundle encodings: byte identity observed by digest/byte comparison; bundle semantics = delivery of the same set (including duplicates and causally open sets).", ref="§5a, §6 C18"),
 "C19": dict(cat="model_checking", tech="TLA+ trace validation: Trace_Wire (IdRT, SyncRT round trips) + Trace_Interp (IdProbe: decoded ids on replicas with different actor tables; Curs: cursors resolved on other replicas)",
   text="Ids, cursors, actor ids, hashes, every message and both states of generated sync sessions; resolution across replicas whose actor tables differ.", ref="§5a, §6 C19"),
 "C34": dict(cat="model_checking", tech="HexColumn.tla (a column is a sequence; derived reads defined on it; design invariants PrefixMonotone, IftInverse) - TLC-generated edit programs replayed on 9 column types x 4 segment limits with every read compared after every step",
   text="Programs of insert/push/splice/remove/remove_n/truncate/clear/save+load over {null,0,1,5} with runs; contents, get, iter_range over all ranges, runs, prefix sums, sum_range, get_index_for_total, find_by_value/find_first.", ref="§5a, §6 C34", note="assumes: TLC simulation (random prefixes x all last steps), not exhaustive; value mapping per type in hexrun.rs"),
 "C35": dict(cat="fault_enumeration", tech="Save/load identity on every state of the HexColumn.tla programs + byte campaign (every position of real encodings x 7 mutations, hand-made extreme run headers, random strings) over 15 load functions, outcomes validated by Trace_Wire HexBad",
   text="Loading arbitrary bytes must give a column or an error; a column that loads must save to bytes that load to the same values.", ref="§5a, §6 C35", note="assumes: panics caught by catch_unwind; comparison of loaded columns by length and canonical bytes (run-length encoded columns can be astronomically long)"),
 "C32": dict(cat="model_checking", tech="TLA+ trace validation (Trace_Interp Serde): serde_json image of AutoSerde = OpSet-derived image of the current state (winners only, text as strings) + a serde Serializer that enforces announced lengths",
   text="Histories with nested maps, lists, text, conflicts and counters serialised on every replica.", ref="§5a"),
 "C27": dict(cat="model_checking", tech="TLA+ trace validation (TLC, Trace_Seq BulkOK): the image of the target object after update_text / update_object / batch_create_object / splice with nested values / init_root_from_hydrate equals the target value drawn from a value grammar; frame condition; Trace_Interp on the same traces",
   text="Reconciliation and bulk construction calls on prior states with conflicts, tombstones and nested objects over 2-3 replicas.", ref="§5a",
   note="assumes as the other trace checks; update_spans and init_from_hydrate are NOT exercised (the span grammar and its normalisation were not modelled); equality with call-by-call construction is observed as equality of the resulting images, not of op ids"),
 "C31": dict(cat="model_checking", tech="TLA+ trace validation (TLC, Trace_Interp Anon): isomorphism of the two change graphs through recursive change signatures (bag equality) and actor partitions, shape equality at the current heads and at every change, reload",
   text="Histories with text, marks, counters, conflicts and nested objects on 2-3 replicas, every replica anonymized.", ref="§5a",
   note="assumes: the canonical shape string (object types, key counts, sequence order/lengths, text widths, conflict multiplicities) is computed by the harness projection (world.rs shape_at); shapes are compared at the current heads and at every single-change head set, not at every antichain; mark values are not part of the shape"),
 "C33": dict(cat="exploration", tech="JsonGen.tla enumerates the JSON values (generator + identity contract Export(Load(Save(Import(v)))) = v); each value is piped through the real CLI binary built from /repo and compared, including number kinds; outcomes validated by Trace_Wire Cli",
   text="728 JSON objects over all scalar tokens x key tokens x nesting shapes (quick: every second one).", ref="§5a",
   note="assumes: the value grammar of JsonGen.tla (depth <= 3, 13 number tokens, 7 string tokens, 4 key tokens) is representative; serde_json with default features parses the comparison side"),
 "C36": dict(cat="exploration", tech="Doc.tla behaviours (TLC, exhaustive transition coverage + simulation) replayed through the C ABI by a C driver built with clang AddressSanitizer/UBSan/LeakSanitizer; every observation (heads, full save() bytes, all values read through items/byte spans/iterators) compared with the Rust API replay of the same behaviour",
   text="Documents, maps, lists, counters, merges; three result-freeing disciplines. Functional agreement is equality with the Rust API, i.e. with the state Doc.tla predicts (the Rust replay of the same behaviours is compared with the specification in C02).", ref="§5a, §6 C36",
   note="assumes: memory safety is the sanitizers' verdict on these programs, not a proof; the driver covers document/map/list/commit/merge/save/read calls - text, marks, sync and change-inspection calls of the C API are not exercised; offline build of the staticlib and of the cbindgen header as in the repository's CMake flow"),
}

NA_REASON = "check not built yet in this session (framework under construction; see DESIGN.md §10 build order)"

def main():
    props = [json.loads(l) for l in open(os.path.join(V, 'properties.jsonl'))]
    hooks_commits = []
    try:
        out = subprocess.run(["git", "-C", "/repo", "log", "--format=%H %s"], capture_output=True, text=True).stdout
        hooks_commits = [l.split()[0] for l in out.splitlines() if l.split(' ', 1)[1].startswith("verif hooks")]
    except Exception:
        pass
    m = {
      "version": 1,
      "setup_cmd": "cd /verif/harness && CARGO_NET_OFFLINE=true cargo build --offline --bins && cd /repo/rust && CARGO_NET_OFFLINE=true cargo build --offline -p automerge-cli --target-dir /verif/harness/target-cli && CBINDGEN_TARGET_DIR=/verif/harness/target-capi/include cargo build --offline -p automerge-c --target-dir /verif/harness/target-capi",
      "hooks": {
        "guard": "automerge_verif",
        "enable": "rustc --cfg automerge_verif, set through /verif/harness/.cargo/config.toml [build] rustflags",
        "baseline_off_cmd": "cd /repo/rust && cargo nextest run --workspace --no-fail-fast --tool-config-file pb:/w/lib/nextest.toml --profile pb --test-threads 8 --offline",
        "source_commits": hooks_commits,
        "add_only": True,
      },
      "engines": [
        {"name": "tlc-trace", "path": "spec/Trace_*.tla", "kind_free_text": "TLA+ trace specifications validated by TLC against ndjson logs of the real code"},
        {"name": "tlc-mc", "path": "spec/MC_*.tla", "kind_free_text": "exhaustive TLC model checking of the design-level state machines"},
        {"name": "amverif-drive", "path": "harness/src/bin/drive.rs", "kind_free_text": "Rust driver: seeded programs against automerge, logs every public call with projected state"},
      ],
      "checks": [],
      "not_applicable": [],
      "notes": "All checks: bin/check <id> --tier quick|thorough; honours VERIF_SEED/VERIF_TIER; exit 0/1/2 as described in DESIGN.md Appendix B.",
    }
    for p in props:
        pid = p["id"]
        if pid in CHECKS:
            c = CHECKS[pid]
            m["checks"].append({
              "property_id": pid,
              "quick_cmd": f"bin/check {pid} --tier quick",
              "thorough_cmd": f"bin/check {pid} --tier thorough",
              "evidence_file": f"/verif/evidence/{pid}.json",
              "replay_cmd_template": f"bin/check {pid} --replay {{path}}",
              "engine": "tlc-trace",
              "level_claimed": {"category": c["cat"], "text": c["text"], "design_ref": c["ref"]},
              "level_note": c.get("note", TB),
              "technique": c["tech"],
            })
        else:
            m["not_applicable"].append({"property_id": pid, "reason": NA.get(pid, NA_REASON)})
    for e in m["engines"]:
        e["serves_properties"] = [c["property_id"] for c in m["checks"]]
    json.dump(m, open(os.path.join(V, 'MANIFEST.json'), 'w'), indent=1)
    print("checks:", len(m["checks"]), "not_applicable:", len(m["not_applicable"]))

NA = {}
if __name__ == '__main__':
    main()
