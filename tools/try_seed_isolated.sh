#!/bin/bash
# usage: tools/try_seed_isolated.sh <seed-dir-name> <tier> <check-id>...
# Like try_seed.sh, but leaves /repo alone: the seeded change is applied to a scratch worktree and the checks run
# from a scratch copy of /verif whose harness depends on that worktree.  Use it while other checks (a thorough run)
# are building from /repo.  Only for checks that need nothing but the automerge / hexane crates.
s=$1; tier=$2; shift 2
wt=/var/tmp/iso-wt-$s; vc=/var/tmp/iso-verif-$s
git -C /repo worktree add -q --detach $wt HEAD || exit 3
git -C $wt apply /verif/seeded/$s/patch.diff || { echo "patch does not apply"; git -C /repo worktree remove --force $wt; exit 3; }
mkdir -p $vc && rsync -a --exclude 'target*' --exclude work --exclude evidence --exclude .git /verif/ $vc/
sed -i "s#/repo/rust/#$wt/rust/#g" $vc/harness/Cargo.toml
for c in "$@"; do
  echo "== $c on seed $s (isolated copy)"
  (cd $vc && bin/check $c --tier $tier 2>&1 | grep -E "VIOLATION|\[ok\]|TOOL-ERROR|violation\]" | grep -v "^KNOWN" | head -6; echo "exit=${PIPESTATUS[0]}")
done
git -C /repo worktree remove --force $wt; rm -rf $wt $vc
