#!/usr/bin/env python3
"""Collect the 'THOROUGH <id> exit=.. secs=..' lines of vp run logs (latest result per id wins) into a markdown table."""
import glob, re, os, sys
rows = {}
for f in sorted(glob.glob('/root/.vp/runs/*/log'), key=lambda p: int(p.split('/')[-2])):
    run = f.split('/')[-2]
    for l in open(f, errors='replace'):
        m = re.match(r'THOROUGH (C\d\d) exit=(\d+) secs=(\d+) ?(.*)', l)
        if m:
            cid, rc, secs, rest = m.groups()
            st = re.search(r'states=(\d+) traces=(\d+) nontrivial=(\d+)', rest)
            rows[cid] = (run, int(rc), int(secs), st.groups() if st else None, rest[:90])
print("| id | run | exit | minutes | states | traces / behaviours | non-trivial |")
print("|---|---|---|---|---|---|---|")
for cid in sorted(rows):
    run, rc, secs, st, rest = rows[cid]
    s = st or ("", "", "")
    print(f"| {cid} | #{run} | {rc} | {secs // 60} | {s[0]} | {s[1]} | {s[2]} |")
