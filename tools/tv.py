#!/usr/bin/env python3
"""tools/tv.py <Spec.tla> <CHECKS comma-separated> <trace.ndjson>: one trace validation run, raw diagnostics"""
import sys, os, re
sys.path.insert(0, os.path.join(os.path.dirname(os.path.abspath(__file__)), '..', 'lib'))
from amcheck import tlc_trace, read_trace
try:
    r = tlc_trace(sys.argv[1], sys.argv[2].split(','), os.path.abspath(sys.argv[3]), '/var/tmp/t/tv')
except Exception as ex:
    t = str(ex)
    i = t.find('The exception was'); print(t[i:i+600])
    for m in re.finditer(r'Error: .*', t):
        print(t[m.start(): m.start() + 700].split('State ')[0][:700])
    i = t.find('The error occurred')
    print(t[i:i + 1500])
    sys.exit(2)
print({k: v for k, v in r.items() if k != 'out'})
if not r['accepted']:
    out = r['out']
    i = out.find('CHECKFAIL')
    print(out[max(0, i - 200): i + 3000])
    ev = read_trace(sys.argv[3])[r['rejected_at'] - 1]
    print('EVENT', {k: v for k, v in ev.items() if k not in ('obs', 'calls', 'def')})
