#!/bin/bash
# usage: confirm_pending.sh <seed-name>... : confirm seeds kept under /verif/seeded/<name> in a scratch worktree (removed afterwards)
for s in "$@"; do
  wt=/var/tmp/cs-$s
  git -C /repo worktree add -q --detach $wt HEAD || continue
  git -C $wt apply /verif/seeded/$s/patch.diff
  case $s in C34|C35) crate=hexane;; C33) crate=automerge-cli;; *) crate=automerge;; esac
  mkdir -p $wt/rust/$crate/tests
  cp /verif/seeded/$s/seeded_demo.rs $wt/rust/$crate/tests/seeded_demo.rs
  CARGO_TARGET_DIR=$wt/rust/target /verif/tools/confirm_seed.sh $wt /verif/seeded/$s/confirm.txt $crate
  git -C /repo worktree remove --force $wt
  rm -rf $wt
done
