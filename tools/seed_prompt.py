#!/usr/bin/env python3
"""Print the prompt given to a seeding sub-agent for property <id> (only the property text + its worktree)."""
import json, sys
pid = sys.argv[1]
wt = sys.argv[2] if len(sys.argv) > 2 else f"/tmp/seed-{pid}"
for l in open('/verif/properties.jsonl'):
    p = json.loads(l)
    if p['id'] == pid:
        break
else:
    sys.exit("no such property")
print(f"""You are helping to evaluate a verification framework by seeding a realistic bug into a codebase.

The codebase is automerge (a Rust CRDT document engine). You have your OWN scratch git worktree of it at {wt} (the Rust workspace is in {wt}/rust). Work ONLY inside {wt}. Do not read or touch /repo or /verif or any other /tmp/seed-* directory. The sandbox has no network; cargo must be run with --offline.

Here is a semantic property of automerge that should always hold:

  Title: {p['title']}
  Statement: {p['statement']}
  Quantifier: {p['quantifier']['text']}

Your task: produce ONE small source change to the automerge Rust library code (under {wt}/rust/automerge/src or {wt}/rust/hexane/src as appropriate; not tests, not Cargo files) that BREAKS this property, while:
  1. the workspace still compiles, and
  2. the existing test suite still passes. The test command is:
       cd {wt}/rust && cargo nextest run --workspace --no-fail-fast --offline --test-threads 8
     (if nextest is unavailable use: cargo test --workspace --no-fail-fast --offline). If only a very small number of existing tests fail, try a different/narrower change - the requirement is that ALL existing tests pass.
  3. the breakage needs something specific to manifest: a particular interleaving or delivery order, a fault at a particular point, a multi-step sequence of operations, an unusual input, or two cooperating sites that each look fine alone. It must NOT be something that ordinary straightforward use would expose at once. Think of a plausible developer mistake (an off-by-one in an edge case, a missed branch, a wrong comparison in a tie-break, a forgotten state update on a rare path, an optimisation that is wrong in a corner case), not sabotage like `if x == 42`.

Also write a demonstration: a new Rust integration test file at {wt}/rust/automerge/tests/seeded_demo.rs (self-contained, using only the public API of the automerge crate and dev-dependencies already available) which FAILS with your change applied and PASSES without it. Verify both directions yourself (do NOT use `git stash`: the stash is shared between worktrees; use `git diff > my.patch && git checkout -- rust` and afterwards `git apply my.patch`, keeping the demo file, and run `cargo test --offline -p automerge --test seeded_demo`).

When finished, leave the worktree with your source change applied (uncommitted) plus the untracked demo test file, and write {wt}/SEED_REPORT.md containing: the files changed, what the bug is, exactly what is needed for it to manifest, the commands you ran and their results (existing suite pass counts, demo fails-with / passes-without). Keep builds economical: the machine is shared. Do not leave background processes running. Your final message should be a short summary of the same.""")
