#!/bin/bash
# usage: keep_seed.sh <worktree> <seed-name> : save patch/demo/report from a seeding worktree under /verif/seeded/<seed-name>, then remove the worktree
wt=$1; s=$2; d=/verif/seeded/$s
mkdir -p $d
git -C $wt diff > $d/patch.diff
cp $wt/rust/automerge/tests/seeded_demo.rs $d/seeded_demo.rs 2>/dev/null
cp $wt/SEED_REPORT.md $d/SEED_REPORT.md 2>/dev/null
git -C /repo worktree remove --force $wt; rm -rf $wt
ls $d; wc -l $d/patch.diff
