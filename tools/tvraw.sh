#!/bin/bash
# tools/tvraw.sh <Spec.tla> <CHECKS e.g. "C26"> <trace> : raw TLC run, prints error paragraphs
mkdir -p /var/tmp/t
S=Spec; [ "$1" = "Trace_Storage.tla" ] && S=TSpec
printf 'SPECIFICATION %s\nPOSTCONDITION Accepted\nCHECK_DEADLOCK FALSE\nCONSTANT CHECKS = {%s}\n' $S "$(echo $2 | sed 's/[^,]*/"&"/g')" > /var/tmp/t/raw.cfg
cd /verif/spec
TRACE=$(realpath $3) JAVA_TOOL_OPTIONS="-Xss1g -Dtlc2.tool.queue.IStateQueue=StateDeque" timeout 900 tlc -workers 1 -metadir /var/tmp/t/metaraw -cleanup -noGenerateSpecTE -config /var/tmp/t/raw.cfg $1 > /var/tmp/t/raw.out 2>&1
grep -n "CHECKFAIL\|REJECTED\|ONLY-IN\|CALL\|states generated\|No error" /var/tmp/t/raw.out | cut -c1-${4:-600} | head -20
grep -A8 "The exception was\|Error: Evaluating\|Error: In evaluation" /var/tmp/t/raw.out | cut -c1-400 | head -40
