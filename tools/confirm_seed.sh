#!/bin/bash
# usage: confirm_seed.sh <worktree> <outfile>   -- confirm a seeded change: suite passes with it, demo fails with / passes without
wt=$1; out=$2; crate=${3:-automerge}
cd $wt/rust || exit 3
{
echo "== worktree $wt"; git -C $wt status --short | head
echo "== suite with change (demo excluded)"
cargo nextest run --workspace --no-fail-fast --offline --test-threads 8 -E 'not binary(seeded_demo)' 2>&1 | grep -E "Summary|FAIL|tests run" | head -20
echo "== demo with change (expect failure)"
cargo test --offline -p $crate --test seeded_demo 2>&1 | grep -E "^test result|^test .*(FAILED|ok)" | head
git -C $wt diff > $wt/.seed.patch; git -C $wt checkout -q -- rust
echo "== demo without change (expect pass)"
cargo test --offline -p $crate --test seeded_demo 2>&1 | grep -E "^test result|^test .*(FAILED|ok)" | head
git -C $wt apply $wt/.seed.patch
git -C $wt status --short | head -5
} > $out 2>&1
