#!/usr/bin/env python3
import json,sys
ev=[json.loads(l) for l in open(sys.argv[1])]
e=ev[int(sys.argv[2])-1]; c=e['calls'][int(sys.argv[3])-1]
print({k:v for k,v in c.items() if k not in('before','after')})
def obj(v,i):
    for o in v:
        if o['id']==i: return o
for nm in ('before','after'):
    o=obj(c[nm],c['obj'])
    print(nm, json.dumps(o)[:1500] if o else None)
    print('   ids', [x['id'] for x in c[nm]])
