#!/usr/bin/env python3
"""validate MANIFEST.json and evidence/*.json against the schemas (uses the tooling venv's jsonschema)"""
import json, glob, sys
import jsonschema
ok = True
m = json.load(open('/verif/MANIFEST.json'))
jsonschema.validate(m, json.load(open('/root/.vp/MANIFEST.schema.json')))
es = json.load(open('/root/.vp/EVIDENCE.schema.json'))
for c in m['checks']:
    p = c['evidence_file']
    try:
        jsonschema.validate(json.load(open(p)), es)
    except Exception as e:
        ok = False
        print("BAD", p, str(e)[:300])
ids = {json.loads(l)['id'] for l in open('/verif/properties.jsonl')}
have = {c['property_id'] for c in m['checks']} | {n['property_id'] for n in m['not_applicable']}
print("manifest ok; checks", len(m['checks']), "na", len(m['not_applicable']), "missing", ids - have)
sys.exit(0 if ok else 1)
