#!/usr/bin/env python3
"""Regenerate the generated blocks of DESIGN.md (between <!-- BEGIN x --> / <!-- END x --> markers):
   fixes  : table of `fix:` commits, from KNOWN_FINDINGS.jsonl
   known  : list of known findings, from KNOWN_FINDINGS.jsonl
   seeds  : table of seeded changes, from seeded/<id>/meta.json"""
import json, os, re, sys
V = os.path.dirname(os.path.dirname(os.path.abspath(__file__)))
rows = [json.loads(l) for l in open(os.path.join(V, 'KNOWN_FINDINGS.jsonl')) if l.strip()]

def cell(s, n=400):
    s = str(s).replace('|', '\\|').replace('\n', ' ')
    return s if len(s) <= n else s[:n - 1] + '…'

def fixes():
    out = ["| property | commit | what failed | how it was found |", "|---|---|---|---|"]
    for r in rows:
        if r.get('status') != 'fixed':
            continue
        what = re.sub(r'^fixed: property=\S+ \S+ ', '', r.get('line', ''))
        also = (" (also " + ", ".join(r['also']) + ")") if r.get('also') else ""
        out.append(f"| {r['property']}{also} | `{r['commit']}` | {cell(what)} | {cell(r.get('detail', ''), 260)} |")
    return "\n".join(out)

def known():
    out = []
    for r in rows:
        if r.get('status') == 'fixed':
            continue
        line = re.sub(r'^KNOWN-FINDING: property=\S+ ', '', r.get('line', ''))
        out.append(f"* **{r['property']}** ({r.get('check', '')}): {line}")
    return "\n".join(out)

def seeds():
    out = ["| seed | what it needs to manifest | caught by | confirmed |", "|---|---|---|---|"]
    sd = os.path.join(V, 'seeded')
    for s in sorted(os.listdir(sd)):
        mp = os.path.join(sd, s, 'meta.json')
        m = json.load(open(mp)) if os.path.exists(mp) else {}
        conf = "yes" if os.path.exists(os.path.join(sd, s, 'confirm.txt')) else m.get('confirmed', 'no')
        caught = "; ".join(m.get("detected_by", [])) or "?"
        out.append(f"| {s} | {cell(m.get('needs', m.get('summary', 'see SEED_REPORT.md')), 300)} | {cell(caught, 300)} | {conf} |")
    return "\n".join(out)

def thorough():
    # kept as last written when the run logs are not available (fresh restore)
    import subprocess
    try:
        out = subprocess.check_output(["python3", os.path.join(V, "tools", "thorough_table.py")]).decode().strip()
        if out.count("\n") > 3:
            return out
    except Exception:
        pass
    return None

GEN = {"fixes": fixes, "known": known, "seeds": seeds, "thorough": thorough}
p = os.path.join(V, 'DESIGN.md')
s = open(p).read()
for name, fn in GEN.items():
    pat = re.compile(r'(<!-- BEGIN %s -->\n).*?(<!-- END %s -->)' % (name, name), re.S)
    if not pat.search(s):
        print("marker missing:", name)
        continue
    val = fn()
    if val is None:
        continue
    s = pat.sub(lambda m: m.group(1) + val + "\n" + m.group(2), s)
open(p, 'w').write(s)
print("DESIGN.md tables regenerated")
