-------------------------------- MODULE View --------------------------------
(***************************************************************************)
(* Patches as a transformer of a materialized view (C08, C09).  The view   *)
(* is what an application keeps: for every object reachable through        *)
(* winning values, per map key / list element the winning value, its id    *)
(* and a conflict flag; text as its sequence of code-point tokens.         *)
(* The only thing demanded of a patch list is its effect: applying it to   *)
(* the view of the previous state must give the view of the new state.     *)
(*                                                                         *)
(*   mv : object id -> [ty, ents : key -> Slot, elems : Seq(Slot), text]   *)
(*   Slot == [v, id, conflict]                                             *)
(***************************************************************************)
EXTENDS Naturals, Integers, Sequences, FiniteSets, TLC, SequencesExt, FiniteSetsExt

ROOTID == <<0, 0>>

(* the id of a slot matters only for objects (it names the child object later patches address);
   for scalars the property speaks of values, conflict flags and counters, not of op ids *)
Slot(v, id, c) == [v |-> v, id |-> IF v.k = "obj" THEN id ELSE <<0, 0>>, conflict |-> c]
EmptyObj(ty) == [ty |-> ty, ents |-> <<>>, elems |-> <<>>, text |-> <<>>]
IsObjV(v) == v.k = "obj"

(* ---- the view of a projected document (winners only) ------------------- *)
WinVal(reg) == (CHOOSE x \in ToSet(reg.vals) : x.id = reg.win).v
SlotOf(reg) == Slot(WinVal(reg), reg.win, Len(reg.vals) > 1)

ObjOfProj(o) ==
  IF o.ty \in {"map", "table"} THEN
     [ty |-> o.ty, ents |-> [k \in {o.ents[i].k : i \in DOMAIN o.ents} |->
                               SlotOf(o.ents[CHOOSE i \in DOMAIN o.ents : o.ents[i].k = k])],
      elems |-> <<>>, text |-> <<>>]
  ELSE IF o.ty = "list" THEN
     [ty |-> o.ty, ents |-> <<>>, elems |-> [i \in DOMAIN o.elems |-> SlotOf(o.elems[i])], text |-> <<>>]
  ELSE [ty |-> o.ty, ents |-> <<>>, elems |-> <<>>, text |-> o.text]

Kids(o) == {o.ents[k].id : k \in {x \in DOMAIN o.ents : IsObjV(o.ents[x].v)}}
           \cup {o.elems[i].id : i \in {x \in DOMAIN o.elems : IsObjV(o.elems[x].v)}}

RECURSIVE ReachR(_, _, _)
ReachR(V, frontier, acc) ==
  IF frontier = {} THEN acc
  ELSE LET nxt == (UNION {Kids(V[x]) : x \in frontier \cap DOMAIN V}) \ acc
       IN  ReachR(V, nxt, acc \cup nxt)
Reach(V) == ReachR(V, {ROOTID}, {ROOTID})

(* restrict a view to the objects reachable from the root through winners *)
Trim(V) == [id \in Reach(V) \cap DOMAIN V |-> V[id]]

ViewOfProj(view) ==
  Trim([id \in {view[i].id : i \in DOMAIN view} |-> ObjOfProj(view[CHOOSE i \in DOMAIN view : view[i].id = id])])

(* ---- patch application -------------------------------------------------- *)
InsAt(s, i, xs) == SubSeq(s, 1, i) \o xs \o SubSeq(s, i + 1, Len(s))     \* i = 0-based position
RemAt(s, i, n) == SubSeq(s, 1, i) \o SubSeq(s, i + n + 1, Len(s))

(* A put/insert whose value is an object creates that object EMPTY in the view (as the library's
   own patch appliers do); its contents must arrive as later patches. *)
WithChild(V, oldSlotId, v, id) ==
  IF IsObjV(v) THEN (id :> EmptyObj(v.s)) @@ V ELSE V

OldMapId(V, obj, key) == IF key \in DOMAIN V[obj].ents THEN V[obj].ents[key].id ELSE <<-9, -9>>

RECURSIVE AddChildren(_, _)
AddChildren(V, slots) ==
  IF slots = <<>> THEN V
  ELSE AddChildren(WithChild(V, <<-9, -9>>, Head(slots).v, Head(slots).id), Tail(slots))

(* text indexes and lengths in patches are in the units of the document's text encoding (e = "cp", "u8", "u16");
   tokens are code points.  UnitTok = the number of tokens before unit u, or -1 if u falls inside a character. *)
TokWE(t, e) ==
  IF e = "u8" THEN (CASE t \in {"eacute", "cacute"} -> 2
                      [] t \in {"euro", "zwj", "vs16", "objrepl"} -> 3
                      [] t \in {"grin", "woman", "laptop"} -> 4
                      [] OTHER -> 1)
  ELSE IF e = "u16" THEN (IF t \in {"grin", "woman", "laptop"} THEN 2 ELSE 1)
  ELSE 1
RECURSIVE CumWE(_, _, _)
CumWE(text, k, e) == IF k = 0 THEN 0 ELSE CumWE(text, k - 1, e) + TokWE(text[k], e)
UnitTok(text, u, e) ==
  IF e = "cp" THEN (IF u <= Len(text) THEN u ELSE -1)
  ELSE LET ks == {k \in 0..Len(text) : CumWE(text, k, e) = u} IN IF ks = {} THEN -1 ELSE CHOOSE k \in ks : TRUE

ApplyPatchE(V, p, e) ==
  LET o == V[p.obj] IN
  CASE p.act = "PutMap" ->
         LET V1 == WithChild(V, OldMapId(V, p.obj, p.key), p.val, p.id)
         IN  [V1 EXCEPT ![p.obj].ents = (p.key :> Slot(p.val, p.id, p.conflict)) @@ @]
    [] p.act = "DeleteMap" ->
         [V EXCEPT ![p.obj].ents = [k \in DOMAIN @ \ {p.key} |-> @[k]]]
    [] p.act = "PutSeq" ->
         LET V1 == WithChild(V, o.elems[p.index + 1].id, p.val, p.id)
         IN  [V1 EXCEPT ![p.obj].elems[p.index + 1] = Slot(p.val, p.id, p.conflict)]
    [] p.act = "Insert" ->
         LET slots == [i \in DOMAIN p.values |-> Slot(p.values[i].val, p.values[i].id, p.values[i].conflict)]
             V1 == AddChildren(V, slots)
         IN  [V1 EXCEPT ![p.obj].elems = InsAt(@, p.index, slots)]
    [] p.act = "DeleteSeq" ->
         IF o.ty = "text"
         THEN LET k1 == UnitTok(o.text, p.index, e)
                  k2 == UnitTok(o.text, p.index + p.length, e)
              IN  [V EXCEPT ![p.obj].text = RemAt(@, k1, k2 - k1)]
         ELSE [V EXCEPT ![p.obj].elems = RemAt(@, p.index, p.length)]
    [] p.act = "SpliceText" ->
         [V EXCEPT ![p.obj].text = InsAt(@, UnitTok(o.text, p.index, e), p.toks)]
    [] p.act = "Increment" ->
         IF p.iskey THEN [V EXCEPT ![p.obj].ents[p.key].v.n = @ + p.by]
         ELSE [V EXCEPT ![p.obj].elems[p.index + 1].v.n = @ + p.by]
    [] p.act = "Conflict" ->
         IF p.iskey THEN [V EXCEPT ![p.obj].ents[p.key].conflict = TRUE]
         ELSE [V EXCEPT ![p.obj].elems[p.index + 1].conflict = TRUE]
    [] p.act = "Mark" -> V
    [] OTHER -> V

(* a patch is applicable if it addresses an object of the view and an existing slot *)
ApplicableE(V, p, e) ==
  /\ p.obj \in DOMAIN V
  /\ CASE p.act \in {"PutMap", "DeleteMap"} -> V[p.obj].ty \in {"map", "table"}
       [] p.act = "PutSeq" -> p.index < Len(V[p.obj].elems)
       [] p.act = "Insert" -> p.index <= Len(V[p.obj].elems)
       [] p.act = "DeleteSeq" -> IF V[p.obj].ty = "text"
                                 THEN UnitTok(V[p.obj].text, p.index, e) >= 0 /\ UnitTok(V[p.obj].text, p.index + p.length, e) >= 0
                                 ELSE p.index + p.length <= Len(V[p.obj].elems)
       [] p.act = "SpliceText" -> UnitTok(V[p.obj].text, p.index, e) >= 0
       [] p.act \in {"Increment", "Conflict"} ->
            IF p.iskey THEN p.key \in DOMAIN V[p.obj].ents ELSE p.index < Len(V[p.obj].elems)
       [] OTHER -> TRUE

RECURSIVE ApplyPatchesE(_, _, _)
ApplyPatchesE(V, ps, e) ==
  IF ps = <<>> THEN V
  ELSE IF ~ApplicableE(V, Head(ps), e) THEN (<<"inapplicable">> :> Head(ps)) @@ V
  ELSE ApplyPatchesE(ApplyPatchE(V, Head(ps), e), Tail(ps), e)
ApplyPatches(V, ps) == ApplyPatchesE(V, ps, "cp")

(* C08 / C09 *)
TransformsE(viewBefore, patches, viewAfter, e) ==
  Trim(ApplyPatchesE(ViewOfProj(viewBefore), patches, e)) = ViewOfProj(viewAfter)
Transforms(viewBefore, patches, viewAfter) == TransformsE(viewBefore, patches, viewAfter, "cp")
=============================================================================
