----------------------------- MODULE Trace_View -----------------------------
(***************************************************************************)
(* Trace specification for patches: diff(H1, H2) must transform the state  *)
(* at H1 into the state at H2 (C08); the patches emitted by every mutating *)
(* path must transform the previous state into the new one (C09).          *)
(***************************************************************************)
EXTENDS View, Json, IOUtils, TLCExt

CONSTANT CHECKS
Rec == ndJsonDeserialize(IOEnv.TRACE)

VARIABLES l, last, enc
vars == <<l, last, enc>>      \* last : replica -> last logged projection (the previous state); enc : the scenario's text encoding

On(p) == p \in CHECKS
E == Rec[l]

Chk(p, name, cond) ==
  IF ~On(p) \/ cond THEN TRUE
  ELSE PrintT(<<"CHECKFAIL", p, name, l>>) /\ FALSE

ChkT(p, name, before, patches, after) ==
  IF ~On(p) \/ TransformsE(before, patches, after, enc) THEN TRUE
  ELSE /\ PrintT(<<"CHECKFAIL", p, name, l>>)
       /\ PrintT(<<"PATCHED", Trim(ApplyPatchesE(ViewOfProj(before), patches, enc))>>)
       /\ PrintT(<<"EXPECTED", ViewOfProj(after)>>)
       /\ FALSE

HasPatches == "patches" \in DOMAIN E
HasView == "obs" \in DOMAIN E /\ "view" \in DOMAIN E.obs

Step ==
  /\ l <= Len(Rec) /\ l' = l + 1
  /\ enc' = IF E.ev = "reset" /\ "enc" \in DOMAIN E /\ E.enc \in {"u8", "u16"} THEN E.enc ELSE IF E.ev = "reset" THEN "cp" ELSE enc
  /\ IF E.ev = "reset" THEN last' = <<>>
     ELSE IF E.ev = "diff" THEN
          /\ ChkT("C08", "diff-transforms-state-at-H1-into-state-at-H2", E.v1, E.patches, E.v2)
          /\ UNCHANGED last
     ELSE IF E.ev = "ptrans" THEN
          \* a mutating path taken on a private AutoCommit copy (local edits, rollback, receiving sync messages,
          \* isolate / integrate, load with a patch log): the patches turn the view before into the view after
          /\ Chk("C09", "patch-path-does-not-panic", E.res = "ok")
          /\ (E.res = "ok") => ChkT("C09", "incremental-patches-keep-the-view-equal", E.v1, E.patches, E.v2)
          \* C29 through AutoCommit: isolate(H) shows the state at H; integrate() gives the un-isolated document plus
          \* the changes made inside, and those changes depend only on H and on each other
          /\ Chk("C29", "autocommit-isolate-shows-the-state-at-the-heads",
                 (E.res = "ok" /\ E.kind = "isolate" /\ "want" \in DOMAIN E) => ViewOfProj(E.v2) = ViewOfProj(E.want))
          /\ Chk("C29", "autocommit-integrate-merges-the-isolated-changes",
                 (E.res = "ok" /\ E.kind = "integrate" /\ "want" \in DOMAIN E) => (ViewOfProj(E.v2) = ViewOfProj(E.want) /\ E.deps_ok))
          /\ UNCHANGED last
     ELSE IF HasView THEN
          /\ IF E.ev = "commit" /\ Len(E.iso) > 0
             THEN \* patches of an isolated transaction describe the isolated view (state at the
                  \* isolation heads plus the transaction's own edits)
                  (HasPatches /\ Len(E.calls) > 0) =>
                     ChkT("C09", "isolated-transaction-patches-transform-the-isolated-view",
                          E.calls[1].before, E.patches, E.calls[Len(E.calls)].after)
             ELSE (HasPatches /\ E.r \in DOMAIN last) =>
                     ChkT("C09", "incremental-patches-keep-the-view-equal", last[E.r], E.patches, E.obs.view)
          /\ last' = (E.r :> E.obs.view) @@ last
     ELSE UNCHANGED last

Init == l = 1 /\ last = <<>> /\ enc = "cp"
Spec == Init /\ [][Step]_vars

Accepted ==
  LET d == TLCGet("stats").diameter IN
  IF d - 1 = Len(Rec) THEN TRUE
  ELSE Print(<<"REJECTED", d, IF d <= Len(Rec) THEN Rec[d].ev ELSE "?">>, FALSE)
=============================================================================
