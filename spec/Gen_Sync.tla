------------------------------ MODULE Gen_Sync ------------------------------
(***************************************************************************)
(* Behaviour generator for the sync protocol (spec -> impl): every step of *)
(* Sync.tla is recorded with what the specification says the call returns  *)
(* (the message, or None) and the sync state / document it leaves behind.   *)
(* The harness replays the steps on real Automerge documents and           *)
(* sync::State values (false positives forced through the cfg-guarded      *)
(* hook) and compares after every step.                                    *)
(***************************************************************************)
EXTENDS Sync, Json

CONSTANT Depth

VARIABLE hist
gvars == <<vars, hist>>

GInit == Init /\ hist = <<[act |-> "init", fp |-> fp]>>

DocOf(p) == [applied |-> applied'[p], queue |-> queue'[p], heads |-> HeadsOf(chg', applied'[p])]

GEdit(p) ==
  /\ Edit(p)
  /\ hist' = Append(hist, [act |-> "edit", p |-> p, id |-> Cardinality(DOMAIN chg) + 1, doc |-> DocOf(p)])

GGen(p, q) ==
  /\ Gen(p, q)
  /\ hist' = Append(hist, [act |-> "gen", p |-> p, q |-> q, msg |-> Generate(p, q, fp).msg, st |-> st'[<<p, q>>]])

GRecv(p, q) ==
  /\ Recv(p, q)
  /\ hist' = Append(hist, [act |-> "recv", p |-> p, q |-> q, doc |-> DocOf(p), st |-> st'[<<p, q>>]])

GToggle(p, q) ==
  /\ Toggle(p, q)
  /\ hist' = Append(hist, [act |-> "toggle", p |-> p, q |-> q, ro |-> st'[<<p, q>>].readOnly, st |-> st'[<<p, q>>]])

GReconnect(p, q) ==
  \E b \in BOOLEAN :
    /\ Reconnect(p, q, b)
    /\ hist' = Append(hist, [act |-> "reconnect", p |-> p, q |-> q, persisted |-> b, st |-> st'[<<p, q>>]])

(* a generate call that returns None and leaves the state alone is still a call worth replaying *)
GQuiet(p, q) ==
  /\ Generate(p, q, fp).msg = None /\ Generate(p, q, fp).st = st[<<p, q>>]
  /\ hist[Len(hist)].act # "quiet"
  /\ hist' = Append(hist, [act |-> "quiet", p |-> p, q |-> q])
  /\ UNCHANGED vars

GNext ==
  /\ Len(hist) <= Depth
  /\ \E l \in Links : GEdit(l[1]) \/ GGen(l[1], l[2]) \/ GRecv(l[1], l[2]) \/ GToggle(l[1], l[2]) \/ GQuiet(l[1], l[2]) \/ GReconnect(l[1], l[2])

GSpec == GInit /\ [][GNext]_gvars

Finished ==
  \/ Len(hist) = Depth + 1
  \/ /\ ChannelsEmpty /\ AllQuiet /\ Cardinality(DOMAIN chg) = MaxChanges /\ budget = 0 /\ drops = 0
     /\ hist[Len(hist)].act = "quiet"
Emit == Finished => PrintT(<<"REPLAY", ToJson(hist)>>)
LastAct == [x \in DOMAIN hist[Len(hist)] \ {"st", "doc", "msg"} |-> hist[Len(hist)][x]]
TransitionView == <<vars, LastAct>>
EmitAll == Len(hist) > 1 => PrintT(<<"REPLAY", ToJson(hist)>>)
=============================================================================
