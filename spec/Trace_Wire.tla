----------------------------- MODULE Trace_Wire ------------------------------
(***************************************************************************)
(* Trace specification for encodings and untrusted input.                  *)
(*                                                                         *)
(*  bloomvec  (spec -> impl): a filter built from a TLC-enumerated field   *)
(*            vector of Wire.tla; the parser must decide as Wire!Accepts   *)
(*            predicted, a query on an accepted filter must return, within *)
(*            the budget (C23, C15, C17);                                  *)
(*  bloomset  no member of a set is reported absent, before and after an   *)
(*            encode/decode round trip (C23);                              *)
(*  chgrt     raw / compressed / decoded-and-re-encoded change bytes give  *)
(*            the same change and hash (C18);                              *)
(*  idrt      object ids, cursors, actor ids, hashes survive their byte    *)
(*            and string forms (C19);                                      *)
(*  syncrt    every message of a sync session decodes to an equal message, *)
(*            re-encodes to the same bytes; State::decode(encode(s)) keeps *)
(*            the shared heads and nothing of the session (C19);           *)
(*  wire      aggregated outcomes of a mutation class (base input x entry  *)
(*            point x mutation kind): only `ok` and `err` outcomes are     *)
(*            allowed (C15);                                               *)
(*  wirebad   one offending vector, with its outcome class: a panic, an    *)
(*            abort or a hang (C15), an accepted document that does not    *)
(*            behave like a valid one (C16), a string that is not UTF-8    *)
(*            (C39), a blown allocation / time budget (C17).               *)
(***************************************************************************)
EXTENDS Naturals, Sequences, TLC, Json, IOUtils, TLCExt

CONSTANT CHECKS
Rec == ndJsonDeserialize(IOEnv.TRACE)
VARIABLE l
E == Rec[l]

On(p) == p \in CHECKS
Chk(p, name, cond) ==
  IF ~On(p) \/ cond THEN TRUE
  ELSE PrintT(<<"CHECKFAIL", p, name, l>>) /\ FALSE

Prefix(s, p) == Len(s) >= Len(p) /\ SubSeq(s, 1, Len(p)) = p
IsPanic(r) == Prefix(r, "panic")

(* C17 budget: peak heap at most 32 MiB + 64 KiB per input byte, no single request above 64 MiB, *)
(* at most 5 seconds (a fixed linear bound; inputs are a few kilobytes at most)                  *)
WithinBudget(n, peak, big, ms) == peak <= 33554432 + 65536 * n /\ big <= 67108864 /\ ms <= 5000

BloomVec ==
  /\ E.ev = "bloomvec"
  /\ (E.res # "skip") =>
       /\ Chk("C23", "decoding-any-filter-bytes-never-panics", ~IsPanic(E.res))
       /\ Chk("C15", "decoding-any-filter-bytes-never-panics", ~IsPanic(E.res))
       /\ Chk("C23", "parser-decides-as-Wire-Accepts", E.res = (IF E.vec.accept THEN "ok" ELSE "err"))
       /\ Chk("C17", "filter-parameters-cannot-blow-the-budget", WithinBudget(E.n, E.peak, E.biggest, E.ms))

BloomSet ==
  /\ E.ev = "bloomset"
  /\ Chk("C23", "no-false-negatives", E.res = "ok" /\ E.fn_built = 0)
  /\ Chk("C23", "no-false-negatives-after-encode-decode", E.fn_decoded = 0)

ChgRT ==
  /\ E.ev = "chgrt"
  /\ Chk("C18", "change-bytes-round-trip", "raw_ok" \in DOMAIN E /\ E.raw_ok /\ E.hash_ok)
  /\ Chk("C18", "compressed-change-bytes-round-trip", "comp_ok" \in DOMAIN E /\ E.comp_ok)
  /\ Chk("C18", "decode-and-re-encode-gives-the-same-hash", "reenc_ok" \in DOMAIN E /\ E.reenc_ok)

BundleRT ==
  /\ E.ev = "bundlert"
  /\ Chk("C18", "bundle-gives-back-byte-identical-changes", E.res = "ok" /\ E.mem_ok /\ E.bytes_ok)
  /\ Chk("C18", "loading-a-bundle-equals-applying-its-changes", E.res = "ok" /\ E.load_ok)

(* C20 on long histories (a common prefix of 0-43 changes, divergent suffixes of 0-50 changes by several actors,
   local edits during the first three rounds): quiet within 24 rounds, same heads, same saved document *)
SyncLong ==
  /\ E.ev = "synclong"
  /\ Chk("C20", "long-histories-go-quiet-and-converge", E.res = "ok" /\ E.quiet /\ E.converged /\ E.same)

IdRT ==
  /\ E.ev = "idrt"
  /\ Chk("C19", "ids-cursors-actors-hashes-round-trip", Len(E.bad) = 0)

SyncRT ==
  /\ E.ev = "syncrt"
  /\ Chk("C19", "sync-messages-and-states-round-trip", Len(E.bad) = 0)

WireAgg ==
  /\ E.ev = "wire"
  /\ TRUE    \* the offenders of a class are listed one by one as wirebad events

OutcomeClass(o) ==
  IF Prefix(o, "panic") \/ o \in {"abort", "timeout", "missing"} THEN "C15"
  ELSE IF Prefix(o, "bad:utf8") THEN "C39"
  ELSE IF Prefix(o, "bad:") THEN "C16"
  ELSE "none"

WireBad ==
  /\ E.ev = "wirebad"
  /\ Chk("C15", "untrusted-input-never-crashes", OutcomeClass(E.o) # "C15")
  /\ Chk("C16", "accepted-document-is-consistent", OutcomeClass(E.o) # "C16")
  /\ Chk("C39", "strings-are-valid-utf8", OutcomeClass(E.o) # "C39")
  /\ Chk("C17", "input-cannot-blow-the-budget", ~E.over /\ E.o \notin {"abort", "timeout"})

(* hexane: every load of every column type on mutated, hand-made and random bytes (C35) *)
HexBad ==
  /\ E.ev = "hexbad"
  /\ Chk("C35", "loading-arbitrary-bytes-returns-a-column-or-an-error", ~IsPanic(E.o))
  /\ Chk("C35", "a-column-that-loads-saves-to-bytes-that-load-to-the-same-values", ~Prefix(E.o, "bad:"))
HexAgg == E.ev = "hexagg"

(* C33: a JSON value of JsonGen.tla piped through the CLI: import | load+save | export *)
Cli ==
  /\ E.ev = "cli"
  /\ Chk("C33", "cli-import-and-export-succeed", E.res = "ok")
  /\ Chk("C33", "exported-json-equals-imported-json-with-number-kinds", E.same)

Other == E.ev \notin {"synclong", "bundlert", "cli", "bloomvec", "bloomset", "chgrt", "idrt", "syncrt", "wire", "wirebad", "hexbad", "hexagg"}

Step == l <= Len(Rec) /\ l' = l + 1 /\ (BloomVec \/ BloomSet \/ ChgRT \/ BundleRT \/ SyncLong \/ IdRT \/ SyncRT \/ WireAgg \/ WireBad \/ HexBad \/ HexAgg \/ Cli \/ Other)
Init == l = 1
Spec == Init /\ [][Step]_l

Accepted ==
  LET d == TLCGet("stats").diameter IN
  IF d - 1 = Len(Rec) THEN TRUE
  ELSE Print(<<"REJECTED", d, IF d <= Len(Rec) THEN Rec[d].ev ELSE "?">>, FALSE)
=============================================================================
