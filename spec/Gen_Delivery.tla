---------------------------- MODULE Gen_Delivery ----------------------------
(***************************************************************************)
(* Behaviour generator (spec -> impl): the change DAG of a real history is *)
(* given as a constant (JSON written by the harness, change ids are the    *)
(* real hashes).  TLC enumerates / samples delivery schedules -- order,    *)
(* batching, duplicates, ingestion path -- and records, after every step,  *)
(* the state the specification predicts (result class, applied, queue,     *)
(* heads, missing deps).  Every finished behaviour is printed as one       *)
(* REPLAY line; the harness replays it on the real changes and compares    *)
(* after every step.                                                       *)
(***************************************************************************)
EXTENDS Graph, Json, IOUtils

CONSTANTS Depth, MaxBatch,
          WithBundles      \* TRUE: batches may also be delivered as one bundle chunk (C18)

Dag == JsonDeserialize(IOEnv.DAG)
Defs == Dag.changes
chg == [h \in {Defs[i].hash : i \in DOMAIN Defs} |->
          LET d == Defs[CHOOSE i \in DOMAIN Defs : Defs[i].hash = h]
          IN  [actor |-> d.actor, seq |-> d.seq, startOp |-> d.startOp, nops |-> d.nops,
               deps |-> ToSet(d.deps)]]
Ids == DOMAIN chg
Vias == {"apply", "each", "loadinc"} \cup (IF WithBundles THEN {"bundle"} ELSE {})

VARIABLES applied, queue, hist
vars == <<applied, queue, hist>>

Init == applied = {} /\ queue = {} /\ hist = <<>>

RECURSIVE DeliverEach(_, _, _)
DeliverEach(A, Q, B) ==
  IF B = <<>> THEN [res |-> "ok", applied |-> A, queue |-> Q]
  ELSE LET one == DeliverResult(chg, A, Q, <<Head(B)>>)
       IN  IF one.res = "err" THEN one ELSE DeliverEach(one.applied, one.queue, Tail(B))

Step ==
  /\ Len(hist) < Depth
  /\ \E n \in 1..MaxBatch : \E B \in [1..n -> Ids] : \E via \in Vias :
       LET d == IF via = "each" THEN DeliverEach(applied, queue, B)
                ELSE DeliverResult(chg, applied, queue, B)
       IN  /\ applied' = d.applied
           /\ queue' = d.queue
           /\ hist' = Append(hist, [via |-> via, batch |-> B, res |-> d.res,
                                    applied |-> d.applied, queue |-> d.queue,
                                    heads |-> HeadsOf(chg, d.applied),
                                    missing |-> Missing(chg, d.applied, d.queue, {})])

Spec == Init /\ [][Step]_vars

(* printed once per finished behaviour *)
Emit == (Len(hist) = Depth) => PrintT(<<"REPLAY", ToJson(hist)>>)

(* the schedule-independence the specification promises (checked on every generated state) *)
QueueNotReady == Ready(chg, applied, queue) = {}
Closed == CausallyClosed(chg, applied)
=============================================================================
