---------------------------- MODULE Trace_Interp ----------------------------
(***************************************************************************)
(* Trace specification for the document layer: after every event of an     *)
(* implementation trace, the logged view of the replica must equal the     *)
(* interpretation (OpSet!Interp) of the ops of exactly the changes the     *)
(* replica reports as applied (C02); inside transactions every call must   *)
(* have its sequential effect (C03, SeqSpec); historical views at logged   *)
(* heads must equal the interpretation of the ancestors' ops (C07).        *)
(* The graph state (which changes are applied) is adopted from the log --  *)
(* Trace_Graph checks that part.                                           *)
(***************************************************************************)
EXTENDS OpSet, Json, IOUtils, TLCExt

CONSTANT CHECKS

Rec == ndJsonDeserialize(IOEnv.TRACE)

VARIABLES l, ops, deps, enc
vars == <<l, ops, deps, enc>>

On(p) == p \in CHECKS
Chk(p, name, cond) ==
  IF ~On(p) \/ cond THEN TRUE
  ELSE PrintT(<<"CHECKFAIL", p, name, l>>) /\ FALSE

E == Rec[l]
S(seq) == ToSet(seq)

OpRec(o) == [id |-> o.id, obj |-> o.obj, ismap |-> o.ismap, key |-> o.key, elem |-> o.elem,
             insert |-> o.insert, act |-> o.act, val |-> o.val, pred |-> S(o.pred),
             mname |-> o.mname, expand |-> o.expand]

OpsOf(opsTab, A) == UNION {opsTab[h] : h \in A \cap DOMAIN opsTab}

RECURSIVE AncR(_, _, _)
AncR(d, frontier, acc) ==
  IF frontier = {} THEN acc
  ELSE LET nxt == UNION {IF c \in DOMAIN d THEN d[c] ELSE {} : c \in frontier} \ acc
       IN  AncR(d, nxt, acc \cup nxt)
Anc(d, H) == AncR(d, H, H)

(* widths of the visible elements of a text object, per the specification *)
WidthsOf(O, obj) ==
  LET es == VisibleElems(O, obj) IN [i \in DOMAIN es |-> ElemWidth(O, obj, es[i], enc)]

NormView(O, view) ==
  {NormObj(view[i], LAMBDA id : WidthsOf(O, id)) : i \in DOMAIN view}

ViewMatches(O, view) == Interp(O, enc) = NormView(O, view)

(* diagnostics: which objects differ *)
ViewChk(p, name, O, view) ==
  IF ~On(p) \/ ViewMatches(O, view) THEN TRUE
  ELSE /\ PrintT(<<"CHECKFAIL", p, name, l>>)
       /\ PrintT(<<"ONLY-IN-SPEC", Interp(O, enc) \ NormView(O, view)>>)
       /\ PrintT(<<"ONLY-IN-IMPL", NormView(O, view) \ Interp(O, enc)>>)
       /\ FALSE

(* ---- rich text: marks three ways, spans, cursors (C24, C25, C26) -------- *)
HasRich(o) == "curs" \in DOMAIN o
SpanCellsOf(o) ==
  FlattenSeq([i \in DOMAIN o.spans |->
     [j \in DOMAIN o.spans[i].toks |-> [t |-> o.spans[i].t, tok |-> o.spans[i].toks[j], marks |-> ToSet(o.spans[i].marks)]]])
RichObjOK(O, o) ==
  \A es \in {VisibleElems(O, o.id)} :
  \A ws \in {SeqWidths(O, o.id, enc)} :
  \A um \in {IF {"C24", "C25"} \cap CHECKS # {} THEN UnitMarks(O, o.id, enc) ELSE <<>>} :
  \A runs \in {IF {"C24", "C25"} \cap CHECKS # {} THEN MarkRuns(um) ELSE {}} :
  \A cells \in {IF {"C24", "C25"} \cap CHECKS # {} /\ o.ty = "text" THEN SpanCells(O, o.id) ELSE <<>>} :
  LET obj == o.id
      istext == o.ty = "text"
  IN
  /\ Chk("C24", "length-equals-width-of-the-string", istext => o.len = Width(enc, o.text))
  /\ Chk("C24", "spans-concatenate-to-the-text", istext => FlattenSeq([i \in DOMAIN o.spans |-> o.spans[i].toks]) = o.text)
  /\ Chk("C24", "mark-ranges-are-in-encoding-units", ToSet(o.marks) = runs)
  /\ Chk("C24", "get-marks-index-is-in-encoding-units",
         Len(o.mat) = Len(um) /\ \A u \in DOMAIN um : ToSet(o.mat[u]) = um[u])
  /\ Chk("C25", "marks-equal-highest-id-mark-per-name", ToSet(o.marks) = runs)
  /\ Chk("C25", "get-marks-agrees-with-marks",
         Len(o.mat) = Len(um) /\ \A u \in DOMAIN um : ToSet(o.mat[u]) = um[u])
  /\ Chk("C25", "spans-agree-with-marks", istext => SpanCellsOf(o) = cells)
  /\ Chk("C24", "spans-agree-with-marks", istext => SpanCellsOf(o) = cells)
  /\ Chk("C26", "start-and-end-cursors", o.cs = 0 /\ o.ce = o.len)
  /\ Chk("C26", "cursor-round-trip",
         Len(o.curs) = SumSeq(ws) /\
         \A u \in DOMAIN o.curs :
            LET at == ElemAtUnit(ws, u - 1, 1)
                c == o.curs[u]
            IN  at.start =>
                  /\ c.ap = u - 1 /\ c.bp = u - 1 /\ c.art /\ c.brt
                  /\ HasOp(O, c.a) /\ ElemOfOp(O, c.a) = es[at.i]
                  /\ HasOp(O, c.b) /\ ElemOfOp(O, c.b) = es[at.i])
  /\ Chk("C24", "cursor-positions-are-in-encoding-units",
         Len(o.curs) = SumSeq(ws) /\
         \A u \in DOMAIN o.curs :
            LET at == ElemAtUnit(ws, u - 1, 1)
                c == o.curs[u]
            IN  at.start =>
                  /\ c.ap = u - 1 /\ c.bp = u - 1 /\ c.art /\ c.brt
                  /\ HasOp(O, c.a) /\ ElemOfOp(O, c.a) = es[at.i]
                  /\ HasOp(O, c.b) /\ ElemOfOp(O, c.b) = es[at.i])

RichOK(O, view) ==
  \A i \in DOMAIN view : HasRich(view[i]) => RichObjOK(O, view[i])

IsEv(k) == l <= Len(Rec) /\ E.ev = k /\ l' = l + 1

Reset ==
  /\ IsEv("reset")
  /\ ops' = <<>> /\ deps' = <<>> /\ enc' = E.enc

Define(d, o, dp) ==
  /\ ops' = (d.hash :> {OpRec(d.ops[i]) : i \in DOMAIN d.ops}) @@ o
  /\ deps' = (d.hash :> S(d.deps)) @@ dp

HasView == "obs" \in DOMAIN E /\ "view" \in DOMAIN E.obs

ObsOK(opsTab) ==
  HasView => /\ ViewChk("C02", "view-equals-interpretation-of-applied-ops",
                        OpsOf(opsTab, S(E.obs.applied)), E.obs.view)
             /\ RichOK(OpsOf(opsTab, S(E.obs.applied)), E.obs.view)

(* C25 expand rule: a transaction consisting of one pure insertion into a text object places its
   first new element on the side of every mark boundary that the mark's expand flag asks for *)
ExpandOK(opsTab) ==
  (/\ Len(E.iso) = 0 /\ "calls" \in DOMAIN E /\ Len(E.calls) = 1
   /\ E.calls[1].fn = "splice_text" /\ E.calls[1].res = "ok" /\ E.calls[1].del = 0
   /\ Len(E.def.ops) >= 1 /\ HasView) =>
     LET X == OpRec(E.def.ops[1])
         Ob == OpsOf(opsTab, S(E.obs.applied) \ {E.hash})
     IN  Chk("C25", "inserted-text-is-covered-as-the-expand-flags-say",
             (X.insert /\ X.act = "set") => ExpandHolds(Ob, X.obj, X.elem))

(* C29: inside transaction_at(H) the first read shows exactly the state at H; after the commit
   the document is the merge of the isolated change into the current state *)
IsoOK(opsTab) ==
  (Len(E.iso) > 0 /\ "calls" \in DOMAIN E /\ Len(E.calls) > 0 /\ "before" \in DOMAIN E.calls[1]) =>
     /\ ViewChk("C29", "isolated-reads-show-the-state-at-the-isolation-heads",
                OpsOf(ops, Anc(deps, S(E.iso[1]))), E.calls[1].before)
     /\ (HasView => ViewChk("C29", "after-commit-document-is-merge-of-isolated-change",
                             OpsOf(opsTab, S(E.obs.applied)), E.obs.view))

(* causality of the ops themselves: everything an op names (its object, the element it is keyed
   on, its predecessors) was created by the change itself or by an ancestor of its dependencies *)
RefsOK(d) ==
  \A own \in {{OpRec(d.ops[i]) : i \in DOMAIN d.ops}} :
  \A ids \in {{o.id : o \in OpsOf(ops, Anc(deps, S(d.deps)))} \cup {o.id : o \in own} \cup {ROOT}} :
    \A o \in own : ({o.obj} \cup (IF o.ismap THEN {} ELSE {o.elem}) \cup o.pred) \subseteq ids

Commit ==
  /\ IsEv("commit")
  /\ IF E.hash = "" THEN /\ ObsOK(ops) /\ UNCHANGED <<ops, deps>>
     ELSE /\ Define(E.def, ops, deps)
          /\ ObsOK(ops')
          /\ IsoOK(ops')
          /\ ExpandOK(ops')
          /\ Chk("C04", "ops-name-only-ancestors-of-the-dependencies", RefsOK(E.def))
          /\ Chk("C29", "isolated-ops-name-only-ancestors-of-the-isolation-heads", Len(E.iso) > 0 => RefsOK(E.def))
  /\ UNCHANGED enc

ChgDef ==
  /\ IsEv("chgdef")
  /\ Define(E.def, ops, deps)
  /\ UNCHANGED enc

(* historical read: view at heads H must be the interpretation of the ancestors' ops *)
(* historical reads after a save/load cycle are C11's ("the same state at every historical heads") *)
HP == IF "afterload" \in DOMAIN E THEN "C11" ELSE "C07"

ReadAt ==
  /\ IsEv("readat")
  /\ LET H == S(E.heads)
         A == Anc(deps, H)
         O == OpsOf(ops, A)
     IN  /\ ViewChk(HP, "view-at-heads-equals-interpretation-of-ancestors", O, E.view)
         /\ RichOK(O, E.view)
         /\ Chk(HP, "fork-at-succeeds", "err" \notin DOMAIN E.fork)
         /\ ("err" \notin DOMAIN E.fork) =>
               /\ Chk(HP, "fork-at-heads-are-the-given-heads", S(E.fork.heads) = H)
               /\ Chk(HP, "fork-at-holds-exactly-the-ancestors", S(E.fork.applied) = A)
               /\ ViewChk(HP, "fork-at-document-equals-interpretation-of-ancestors", O, E.fork.view)
               /\ Chk(HP, "read-at-equals-read-of-fork", E.fork.view = E.view)
  /\ UNCHANGED <<ops, deps, enc>>

(* C26: cursors taken earlier, resolved now (heads = <<>>) or at historical heads *)
Curs ==
  /\ IsEv("curs")
  /\ LET A == IF Len(E.heads) = 0 THEN S(E.obs.applied) ELSE Anc(deps, S(E.heads))
         O == OpsOf(ops, A)
     IN  \A i \in DOMAIN E.list :
            LET c == E.list[i] IN
            Chk("C26", "cursor-resolves-as-its-move-mode-specifies",
                c.pos = CursorPos(O, c.obj, enc, c.id, c.mode))
  /\ UNCHANGED <<ops, deps, enc>>

Other ==
  /\ l <= Len(Rec)
  /\ E.ev \notin {"reset", "commit", "chgdef", "readat", "curs"}
  /\ l' = l + 1
  /\ ObsOK(ops)
  /\ UNCHANGED <<ops, deps, enc>>

Init == l = 1 /\ ops = <<>> /\ deps = <<>> /\ enc = "cp"
Next == Reset \/ Commit \/ ChgDef \/ ReadAt \/ Curs \/ Other
Spec == Init /\ [][Next]_vars

Accepted ==
  LET d == TLCGet("stats").diameter IN
  IF d - 1 = Len(Rec) THEN TRUE
  ELSE Print(<<"REJECTED", d, IF d <= Len(Rec) THEN Rec[d].ev ELSE "?">>, FALSE)
=============================================================================
