---------------------------- MODULE Trace_Interp ----------------------------
(***************************************************************************)
(* Trace specification for the document layer: after every event of an     *)
(* implementation trace, the logged view of the replica must equal the     *)
(* interpretation (OpSet!Interp) of the ops of exactly the changes the     *)
(* replica reports as applied (C02); inside transactions every call must   *)
(* have its sequential effect (C03, SeqSpec); historical views at logged   *)
(* heads must equal the interpretation of the ancestors' ops (C07).        *)
(* The graph state (which changes are applied) is adopted from the log --  *)
(* Trace_Graph checks that part.                                           *)
(***************************************************************************)
EXTENDS OpSet, Json, IOUtils, TLCExt

CONSTANT CHECKS

Rec == ndJsonDeserialize(IOEnv.TRACE)

VARIABLES l, ops, deps, enc
vars == <<l, ops, deps, enc>>

On(p) == p \in CHECKS
Chk(p, name, cond) ==
  IF ~On(p) \/ cond THEN TRUE
  ELSE PrintT(<<"CHECKFAIL", p, name, l>>) /\ FALSE

E == Rec[l]
S(seq) == ToSet(seq)

OpRec(o) == [id |-> o.id, obj |-> o.obj, ismap |-> o.ismap, key |-> o.key, elem |-> o.elem,
             insert |-> o.insert, act |-> o.act, val |-> o.val, pred |-> S(o.pred),
             mname |-> o.mname, expand |-> o.expand]

OpsOf(opsTab, A) == UNION {opsTab[h] : h \in A \cap DOMAIN opsTab}

RECURSIVE AncR(_, _, _)
AncR(d, frontier, acc) ==
  IF frontier = {} THEN acc
  ELSE LET nxt == UNION {IF c \in DOMAIN d THEN d[c] ELSE {} : c \in frontier} \ acc
       IN  AncR(d, nxt, acc \cup nxt)
Anc(d, H) == AncR(d, H, H)

(* widths of the visible elements of a text object, per the specification *)
WidthsOf(O, obj) ==
  LET es == VisibleElems(O, obj) IN [i \in DOMAIN es |-> ElemWidth(O, obj, es[i], enc)]

NormView(O, view) ==
  {NormObj(view[i], LAMBDA id : WidthsOf(O, id)) : i \in DOMAIN view}

ViewMatches(O, view) == Interp(O, enc) = NormView(O, view)

(* diagnostics: which objects differ *)
ViewChk(p, name, O, view) ==
  IF ~On(p) \/ ViewMatches(O, view) THEN TRUE
  ELSE /\ PrintT(<<"CHECKFAIL", p, name, l>>)
       /\ PrintT(<<"ONLY-IN-SPEC", Interp(O, enc) \ NormView(O, view)>>)
       /\ PrintT(<<"ONLY-IN-IMPL", NormView(O, view) \ Interp(O, enc)>>)
       /\ FALSE

(* ---- rich text: marks three ways, spans, cursors (C24, C25, C26) -------- *)
HasRich(o) == "curs" \in DOMAIN o
SpanCellsOf(o) ==
  FlattenSeq([i \in DOMAIN o.spans |->
     [j \in DOMAIN o.spans[i].toks |-> [t |-> o.spans[i].t, tok |-> o.spans[i].toks[j], marks |-> ToSet(o.spans[i].marks)]]])
RichObjOK(O, o, rp) ==
  \A es \in {VisibleElems(O, o.id)} :
  \A ws \in {SeqWidths(O, o.id, enc)} :
  \A um \in {IF {"C24", "C25"} \cap CHECKS # {} THEN UnitMarks(O, o.id, enc) ELSE <<>>} :
  \A runs \in {IF {"C24", "C25"} \cap CHECKS # {} THEN MarkRuns(um) ELSE {}} :
  \A cells \in {IF {"C24", "C25"} \cap CHECKS # {} /\ o.ty = "text" THEN SpanCells(O, o.id) ELSE <<>>} :
  LET obj == o.id
      istext == o.ty = "text"
  IN
  /\ \A want \in {[i \in DOMAIN es |->
                      LET R == ElemReg(O, obj, es[i])
                          w == CHOOSE x \in R : x.id = MaxId({y.id : y \in R})
                      IN  [i |-> SumSeq(SubSeq(ws, 1, i - 1)), id |-> w.id, v |-> Shown(O, w), c |-> Cardinality(R) > 1]]} :
       /\ Chk(rp, "list-range-yields-the-elements-with-their-indexes", o.lr = want)
       /\ Chk("C24", "list-range-indexes-are-in-encoding-units", o.lr = want)
       /\ Chk(rp, "values-yields-the-winning-values-in-order",
              o.vs = [i \in DOMAIN want |-> [id |-> want[i].id, v |-> want[i].v]])
  /\ Chk("C24", "length-equals-width-of-the-string", istext => o.len = Width(enc, o.text))
  /\ Chk("C24", "spans-concatenate-to-the-text", istext => FlattenSeq([i \in DOMAIN o.spans |-> o.spans[i].toks]) = o.text)
  /\ Chk("C24", "mark-ranges-are-in-encoding-units", ToSet(o.marks) = runs)
  /\ Chk("C24", "get-marks-index-is-in-encoding-units",
         Len(o.mat) = Len(um) /\ \A u \in DOMAIN um : ToSet(o.mat[u]) = um[u])
  /\ Chk("C25", "marks-equal-highest-id-mark-per-name", ToSet(o.marks) = runs)
  /\ Chk("C25", "get-marks-agrees-with-marks",
         Len(o.mat) = Len(um) /\ \A u \in DOMAIN um : ToSet(o.mat[u]) = um[u])
  /\ Chk("C25", "spans-agree-with-marks", istext => SpanCellsOf(o) = cells)
  /\ Chk("C24", "spans-agree-with-marks", istext => SpanCellsOf(o) = cells)
  /\ Chk("C26", "start-and-end-cursors", o.cs = 0 /\ o.ce = o.len)
  /\ Chk("C26", "cursor-round-trip",
         Len(o.curs) = SumSeq(ws) /\
         \A u \in DOMAIN o.curs :
            LET at == ElemAtUnit(ws, u - 1, 1)
                c == o.curs[u]
            IN  at.start =>
                  /\ c.ap = u - 1 /\ c.bp = u - 1 /\ c.art /\ c.brt
                  /\ HasOp(O, c.a) /\ ElemOfOp(O, c.a) = es[at.i]
                  /\ HasOp(O, c.b) /\ ElemOfOp(O, c.b) = es[at.i])
  /\ Chk("C24", "cursor-positions-are-in-encoding-units",
         Len(o.curs) = SumSeq(ws) /\
         \A u \in DOMAIN o.curs :
            LET at == ElemAtUnit(ws, u - 1, 1)
                c == o.curs[u]
            IN  at.start =>
                  /\ c.ap = u - 1 /\ c.bp = u - 1 /\ c.art /\ c.brt
                  /\ HasOp(O, c.a) /\ ElemOfOp(O, c.a) = es[at.i]
                  /\ HasOp(O, c.b) /\ ElemOfOp(O, c.b) = es[at.i])

RichMapOK(O, o, rp) ==
  \A want \in {{LET R == MapReg(O, o.id, k)
                     w == CHOOSE x \in R : x.id = MaxId({y.id : y \in R})
                 IN  [k |-> k, id |-> w.id, v |-> Shown(O, w), c |-> Cardinality(R) > 1] : k \in MapKeys(O, o.id)}} :
    /\ Chk(rp, "map-range-yields-the-winning-entries", Len(o.mr) = Cardinality(want) /\ ToSet(o.mr) = want)
    /\ Chk(rp, "values-yields-the-winning-values",
           Len(o.vs) = Cardinality(want) /\ ToSet(o.vs) = {[id |-> x.id, v |-> x.v] : x \in want})

RichOK(O, view, rp) ==
  \A i \in DOMAIN view :
     /\ HasRich(view[i]) => RichObjOK(O, view[i], rp)
     /\ ("mr" \in DOMAIN view[i]) => RichMapOK(O, view[i], rp)

IsEv(k) == l <= Len(Rec) /\ E.ev = k /\ l' = l + 1

Reset ==
  /\ IsEv("reset")
  /\ ops' = <<>> /\ deps' = <<>> /\ enc' = E.enc

Define(d, o, dp) ==
  /\ ops' = (d.hash :> {OpRec(d.ops[i]) : i \in DOMAIN d.ops}) @@ o
  /\ deps' = (d.hash :> S(d.deps)) @@ dp

HasView == "obs" \in DOMAIN E /\ "view" \in DOMAIN E.obs

(* hydrate() and parents() agree with the reads the view is projected from (keys / get / length / text): the harness
   compares them on the same reader and logs the first disagreement ("" = none) *)
HydOK(rec, p) == Chk(p, "hydrate-and-parents-agree-with-the-other-reads", "hyd" \in DOMAIN rec => rec.hyd = "")

ObsOK(opsTab) ==
  HasView => /\ ViewChk("C02", "view-equals-interpretation-of-applied-ops",
                        OpsOf(opsTab, S(E.obs.applied)), E.obs.view)
             /\ RichOK(OpsOf(opsTab, S(E.obs.applied)), E.obs.view, "C02")
             /\ HydOK(E.obs, "C02")

(* C25 expand rule: a transaction consisting of one pure insertion into a text object places its
   first new element on the side of every mark boundary that the mark's expand flag asks for *)
ExpandOK(opsTab) ==
  (/\ Len(E.iso) = 0 /\ "calls" \in DOMAIN E /\ Len(E.calls) = 1
   /\ E.calls[1].fn = "splice_text" /\ E.calls[1].res = "ok" /\ E.calls[1].del = 0
   /\ Len(E.def.ops) >= 1 /\ HasView) =>
     LET X == OpRec(E.def.ops[1])
         Ob == OpsOf(opsTab, S(E.obs.applied) \ {E.hash})
     IN  Chk("C25", "inserted-text-is-covered-as-the-expand-flags-say",
             (X.insert /\ X.act = "set") => ExpandHolds(Ob, X.obj, X.elem))

(* C29: inside transaction_at(H) the first read shows exactly the state at H; after the commit
   the document is the merge of the isolated change into the current state *)
IsoOK(opsTab) ==
  (Len(E.iso) > 0 /\ "calls" \in DOMAIN E /\ Len(E.calls) > 0 /\ "before" \in DOMAIN E.calls[1]) =>
     /\ ViewChk("C29", "isolated-reads-show-the-state-at-the-isolation-heads",
                OpsOf(ops, Anc(deps, S(E.iso[1]))), E.calls[1].before)
     /\ \A ci \in DOMAIN E.calls : HydOK(E.calls[ci], "C29")
     /\ (HasView => /\ ViewChk("C29", "after-commit-document-is-merge-of-isolated-change",
                                OpsOf(opsTab, S(E.obs.applied)), E.obs.view)
                     /\ RichOK(OpsOf(opsTab, S(E.obs.applied)), E.obs.view, "C29"))

(* causality of the ops themselves: everything an op names (its object, the element it is keyed
   on, its predecessors) was created by the change itself or by an ancestor of its dependencies *)
RefsOK(d) ==
  \A own \in {{OpRec(d.ops[i]) : i \in DOMAIN d.ops}} :
  \A ids \in {{o.id : o \in OpsOf(ops, Anc(deps, S(d.deps)))} \cup {o.id : o \in own} \cup {ROOT}} :
    \A o \in own : ({o.obj} \cup (IF o.ismap THEN {} ELSE {o.elem}) \cup o.pred) \subseteq ids

Commit ==
  /\ IsEv("commit")
  /\ IF E.hash = "" THEN /\ ObsOK(ops) /\ UNCHANGED <<ops, deps>>
     ELSE /\ Define(E.def, ops, deps)
          /\ ObsOK(ops')
          /\ IsoOK(ops')
          /\ ExpandOK(ops')
          /\ Chk("C04", "ops-name-only-ancestors-of-the-dependencies", RefsOK(E.def))
          /\ Chk("C29", "isolated-ops-name-only-ancestors-of-the-isolation-heads", Len(E.iso) > 0 => RefsOK(E.def))
  /\ UNCHANGED enc

ChgDef ==
  /\ IsEv("chgdef")
  /\ Define(E.def, ops, deps)
  /\ UNCHANGED enc

(* historical read: view at heads H must be the interpretation of the ancestors' ops *)
(* historical reads after a save/load cycle are C11's ("the same state at every historical heads") *)
HP == IF "afterload" \in DOMAIN E THEN "C11" ELSE "C07"

ReadAt ==
  /\ IsEv("readat")
  /\ LET H == S(E.heads)
         A == Anc(deps, H)
         O == OpsOf(ops, A)
     IN  /\ ViewChk(HP, "view-at-heads-equals-interpretation-of-ancestors", O, E.view)
         /\ RichOK(O, E.view, HP)
         /\ HydOK(E, HP)
         /\ Chk(HP, "fork-at-succeeds", "err" \notin DOMAIN E.fork)
         /\ ("err" \notin DOMAIN E.fork) =>
               /\ Chk(HP, "fork-at-heads-are-the-given-heads", S(E.fork.heads) = H)
               /\ Chk(HP, "fork-at-holds-exactly-the-ancestors", S(E.fork.applied) = A)
               /\ ViewChk(HP, "fork-at-document-equals-interpretation-of-ancestors", O, E.fork.view)
               /\ Chk(HP, "read-at-equals-read-of-fork", E.fork.view = E.view)
  /\ UNCHANGED <<ops, deps, enc>>

(* C26: cursors taken earlier, resolved now (heads = <<>>) or at historical heads *)
Curs ==
  /\ IsEv("curs")
  /\ LET A == IF Len(E.heads) = 0 THEN S(E.obs.applied) ELSE Anc(deps, S(E.heads))
         O == OpsOf(ops, A)
     IN  \A i \in DOMAIN E.list :
            LET c == E.list[i] IN
            Chk("C26", "cursor-resolves-as-its-move-mode-specifies",
                c.pos = CursorPos(O, c.obj, enc, c.id, c.mode))
  /\ UNCHANGED <<ops, deps, enc>>

(* C30: ids captured earlier (possibly on another replica, under another actor table) used here *)
IdSummary(O, id) ==
  IF id # ROOT /\ ~(\E o \in O : o.id = id /\ o.act = "make")
  THEN [ty |-> "err", keys |-> {}, len |-> 0, text |-> <<>>]
  ELSE LET ty == ObjTypeOf(O, id) IN
       IF ty \in {"map", "table"} THEN [ty |-> ty, keys |-> MapKeys(O, id), len |-> 0, text |-> <<>>]
       ELSE Let1(VisibleElems(O, id), LAMBDA es :
              IF ty = "list" THEN [ty |-> ty, keys |-> {}, len |-> Len(es), text |-> <<>>]
              ELSE [ty |-> ty, keys |-> {}, len |-> SumSeq([i \in DOMAIN es |-> ElemWidth(O, id, es[i], enc)]),
                    text |-> FlattenSeq([i \in DOMAIN es |-> ElemToks(O, id, es[i])])])
SumOf(x) == [ty |-> x.ty, keys |-> S(x.keys), len |-> x.len, text |-> x.text]
AfterEdit(sm) ==
  IF sm.ty = "err" THEN sm
  ELSE IF sm.ty \in {"map", "table"} THEN [sm EXCEPT !.keys = @ \cup {"zz"}]
  ELSE IF sm.ty = "list" THEN [sm EXCEPT !.len = @ + 1]
  ELSE [sm EXCEPT !.len = @ + 1, !.text = <<"z">> \o @]
IdProbe ==
  /\ IsEv("idprobe")
  /\ \A O \in {OpsOf(ops, S(E.obs.applied))} :
     \A i \in DOMAIN E.list :
       \A sm \in {IdSummary(O, E.list[i].id)} :
       \A j \in DOMAIN E.list[i].results :
         LET x == E.list[i].results[j] IN
         /\ Chk("C30", "id-reads-the-same-object-or-nothing", SumOf(x) = sm)
         /\ Chk("C30", "id-edits-the-same-object-or-fails",
                (x.edit = "ok") = (sm.ty # "err") /\ SumOf(x.after) = AfterEdit(sm))
  /\ UNCHANGED <<ops, deps, enc>>

(* C40: load with StringMigration::ConvertToText *)
StrOps(R) == {o \in R : o.act = "set" /\ o.val.k = "str"}
IsMapLike(O, obj) == ObjTypeOf(O, obj) \in {"map", "table"}
(* registers of a map or list object, as [k, e] handles *)
RegHandles(O, obj) ==
  IF IsMapLike(O, obj) THEN {[map |-> TRUE, k |-> k, e |-> HEAD] : k \in MapKeys(O, obj)}
  ELSE IF ObjTypeOf(O, obj) = "list" THEN {[map |-> FALSE, k |-> "", e |-> e] : e \in ToSet(VisibleElems(O, obj))}
  ELSE {}
RegOps(O, obj, h) == IF h.map THEN MapReg(O, obj, h.k) ELSE ElemReg(O, obj, h.e)
TextToksOf(O, id) == Let1(VisibleElems(O, id), LAMBDA es : FlattenSeq([i \in DOMAIN es |-> ElemToks(O, id, es[i])]))
HasVisibleString(O) ==
  \E obj \in Reachable(O) : \E h \in RegHandles(O, obj) : StrOps(RegOps(O, obj, h)) # {}

Migrate ==
  /\ IsEv("migrate")
  /\ Chk("C40", "migrating-load-succeeds", E.res = "ok")
  /\ (E.res = "ok") =>
     \A O \in {OpsOf(ops, S(E.obs.applied))} :
     \A N \in {UNION {{OpRec(E.added[i].ops[j]) : j \in DOMAIN E.added[i].ops} : i \in DOMAIN E.added}} :
     \A O2 \in {O \cup N} :
       /\ Chk("C40", "at-most-one-added-change-on-top-of-the-history",
              Len(E.added) <= 1 /\ S(E.mapplied) = S(E.obs.applied) \cup {E.added[i].hash : i \in DOMAIN E.added}
              /\ \A i \in DOMAIN E.added : S(E.added[i].deps) = S(E.obs.heads))
       /\ Chk("C40", "no-visible-string-means-no-added-change", ~HasVisibleString(O) => Len(E.added) = 0)
       /\ ViewChk("C40", "migrated-document-is-the-interpretation-of-history-plus-added-change", O2, E.mview)
       /\ Chk("C40", "no-visible-string-left", ~HasVisibleString(O2))
       /\ \A obj \in Reachable(O) :
            \A h \in RegHandles(O, obj) :
              \A R \in {RegOps(O, obj, h)} : \A R2 \in {RegOps(O2, obj, h)} :
                IF StrOps(R) = {}
                THEN Chk("C40", "register-without-string-keeps-its-values", R2 = R)
                ELSE Chk("C40", "register-with-strings-holds-text-of-the-highest-id-string",
                         /\ Cardinality(R2) = 1
                         /\ \A t \in R2 : /\ t.act = "make" /\ t.val.s = "text"
                                           /\ TextToksOf(O2, t.id) =
                                                (CHOOSE o \in StrOps(R) : o.id = MaxId({p.id : p \in StrOps(R)})).val.toks)
  /\ UNCHANGED <<ops, deps, enc>>

(* C31: anonymization.  Both change graphs are logged in the documents' own order with dependencies as     *)
(* indexes.  The signature of a change is its (seq, nops, actor class pattern, signatures of its            *)
(* dependencies); two graphs are isomorphic (as far as the property speaks: same changes, dependency        *)
(* structure, op counts) iff they have the same bag of signatures, and changes of one actor correspond to  *)
(* changes of one actor.  Every change of the original must have a counterpart with the same signature and *)
(* the same document shape at its heads.                                                                    *)
RECURSIVE SigOf(_, _)
SigOf(G, i) == [seq |-> G[i].seq, nops |-> G[i].nops, deps |-> {SigOf(G, d) : d \in S(G[i].deps)},
                ndeps |-> Len(G[i].deps)]
SigBag(G) == {[sig |-> sg, n |-> Cardinality({i \in DOMAIN G : SigOf(G, i) = sg})] : sg \in {SigOf(G, i) : i \in DOMAIN G}}
(* the partition of the changes into actors, as a set of sets of signatures-with-position *)
ActorBags(G) == {{[sig |-> SigOf(G, i), seq |-> G[i].seq] : i \in {j \in DOMAIN G : G[j].actor = a}} : a \in {G[i].actor : i \in DOMAIN G}}
Anon ==
  /\ IsEv("anon")
  /\ Chk("C31", "anonymize-succeeds", E.res = "ok")
  /\ (E.res = "ok") =>
       /\ Chk("C31", "same-number-of-changes", Len(E.orig.changes) = Len(E.anon.changes))
       /\ \A G \in {E.orig.changes} : \A H \in {E.anon.changes} :
            /\ Chk("C31", "change-graphs-are-isomorphic", SigBag(G) = SigBag(H))
            /\ Chk("C31", "actors-partition-the-changes-alike", ActorBags(G) = ActorBags(H))
            /\ Chk("C31", "same-shape-at-every-change",
                   \A i \in DOMAIN G : \E j \in DOMAIN H : SigOf(H, j) = SigOf(G, i) /\ H[j].shape = G[i].shape)
       /\ Chk("C31", "same-shape-at-the-current-heads", E.orig.shape = E.anon.shape /\ E.orig.nheads = E.anon.nheads)
       /\ Chk("C31", "anonymized-document-saves-and-reloads", E.reload)
  /\ UNCHANGED <<ops, deps, enc>>

(* C32: the serde image of the current state: winners only, text as strings, nested *)
NumStr(v) == IF v.k = "counter" THEN (IF v.s = "" THEN ToString(v.n) ELSE v.s) ELSE v.s
ScalarImage(v) ==
  CASE v.k = "str" -> [t |-> "str", toks |-> v.toks]
    [] v.k \in {"int", "uint", "counter", "ts"} -> [t |-> "num", s |-> NumStr(v)]
    [] v.k = "bool" -> [t |-> "bool", s |-> v.s]
    [] v.k = "null" -> [t |-> "null"]
    [] OTHER -> [t |-> "other", s |-> v.k]
RegWinner(R) == CHOOSE o \in R : o.id = MaxId({p.id : p \in R})
RECURSIVE ImageOfObj(_, _)
ImageOfOp(O, w) ==
  IF w.act = "make" THEN ImageOfObj(O, w.id) ELSE ScalarImage(Shown(O, w))
ImageOfObj(O, obj) ==
  LET ty == ObjTypeOf(O, obj) IN
  IF ty \in {"map", "table"} THEN
    [t |-> "map", ents |-> {[k |-> k, v |-> ImageOfOp(O, RegWinner(MapReg(O, obj, k)))] : k \in MapKeys(O, obj)}]
  ELSE IF ty = "list" THEN
    Let1(VisibleElems(O, obj), LAMBDA es :
      [t |-> "seq", items |-> [i \in DOMAIN es |-> ImageOfOp(O, RegWinner(ElemReg(O, obj, es[i])))]])
  ELSE [t |-> "str", toks |-> TextToksOf(O, obj)]
(* the logged JSON, with the arrays that stand for sets turned into sets *)
RECURSIVE NormImage(_)
NormImage(j) ==
  IF j.t = "map" THEN [t |-> "map", ents |-> {[k |-> j.ents[i].k, v |-> NormImage(j.ents[i].v)] : i \in DOMAIN j.ents}]
  ELSE IF j.t = "seq" THEN [t |-> "seq", items |-> [i \in DOMAIN j.items |-> NormImage(j.items[i])]]
  ELSE j
Serde ==
  /\ IsEv("serde")
  /\ Chk("C32", "serialising-succeeds", E.res = "ok")
  /\ (E.res = "ok") =>
       /\ Chk("C32", "containers-announce-their-true-length", E.strict = "ok")
       /\ \A O \in {OpsOf(ops, S(E.obs.applied))} :
            Chk("C32", "serde-image-equals-the-current-state", NormImage(E.json) = ImageOfObj(O, ROOT))
  /\ UNCHANGED <<ops, deps, enc>>

Other ==
  /\ l <= Len(Rec)
  /\ E.ev \notin {"reset", "commit", "chgdef", "readat", "curs", "idprobe", "migrate", "serde", "anon"}
  /\ l' = l + 1
  /\ ObsOK(ops)
  /\ UNCHANGED <<ops, deps, enc>>

Init == l = 1 /\ ops = <<>> /\ deps = <<>> /\ enc = "cp"
Next == Reset \/ Commit \/ ChgDef \/ ReadAt \/ Curs \/ IdProbe \/ Migrate \/ Serde \/ Anon \/ Other
Spec == Init /\ [][Next]_vars

Accepted ==
  LET d == TLCGet("stats").diameter IN
  IF d - 1 = Len(Rec) THEN TRUE
  ELSE Print(<<"REJECTED", d, IF d <= Len(Rec) THEN Rec[d].ev ELSE "?">>, FALSE)
=============================================================================
