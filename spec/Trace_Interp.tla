---------------------------- MODULE Trace_Interp ----------------------------
(***************************************************************************)
(* Trace specification for the document layer: after every event of an     *)
(* implementation trace, the logged view of the replica must equal the     *)
(* interpretation (OpSet!Interp) of the ops of exactly the changes the     *)
(* replica reports as applied (C02); inside transactions every call must   *)
(* have its sequential effect (C03, SeqSpec); historical views at logged   *)
(* heads must equal the interpretation of the ancestors' ops (C07).        *)
(* The graph state (which changes are applied) is adopted from the log --  *)
(* Trace_Graph checks that part.                                           *)
(***************************************************************************)
EXTENDS OpSet, Json, IOUtils, TLCExt

CONSTANT CHECKS

Rec == ndJsonDeserialize(IOEnv.TRACE)

VARIABLES l, ops, deps, enc
vars == <<l, ops, deps, enc>>

On(p) == p \in CHECKS
Chk(p, name, cond) ==
  IF ~On(p) \/ cond THEN TRUE
  ELSE PrintT(<<"CHECKFAIL", p, name, l>>) /\ FALSE

E == Rec[l]
S(seq) == ToSet(seq)

OpRec(o) == [id |-> o.id, obj |-> o.obj, ismap |-> o.ismap, key |-> o.key, elem |-> o.elem,
             insert |-> o.insert, act |-> o.act, val |-> o.val, pred |-> S(o.pred),
             mname |-> o.mname, expand |-> o.expand]

OpsOf(opsTab, A) == UNION {opsTab[h] : h \in A \cap DOMAIN opsTab}

RECURSIVE AncR(_, _, _)
AncR(d, frontier, acc) ==
  IF frontier = {} THEN acc
  ELSE LET nxt == UNION {IF c \in DOMAIN d THEN d[c] ELSE {} : c \in frontier} \ acc
       IN  AncR(d, nxt, acc \cup nxt)
Anc(d, H) == AncR(d, H, H)

(* widths of the visible elements of a text object, per the specification *)
WidthsOf(O, obj) ==
  LET es == VisibleElems(O, obj) IN [i \in DOMAIN es |-> ElemWidth(O, obj, es[i], enc)]

NormView(O, view) ==
  {NormObj(view[i], LAMBDA id : WidthsOf(O, id)) : i \in DOMAIN view}

ViewMatches(O, view) == Interp(O, enc) = NormView(O, view)

(* diagnostics: which objects differ *)
ViewChk(p, name, O, view) ==
  IF ~On(p) \/ ViewMatches(O, view) THEN TRUE
  ELSE /\ PrintT(<<"CHECKFAIL", p, name, l>>)
       /\ PrintT(<<"ONLY-IN-SPEC", Interp(O, enc) \ NormView(O, view)>>)
       /\ PrintT(<<"ONLY-IN-IMPL", NormView(O, view) \ Interp(O, enc)>>)
       /\ FALSE

IsEv(k) == l <= Len(Rec) /\ E.ev = k /\ l' = l + 1

Reset ==
  /\ IsEv("reset")
  /\ ops' = <<>> /\ deps' = <<>> /\ enc' = E.enc

Define(d, o, dp) ==
  /\ ops' = (d.hash :> {OpRec(d.ops[i]) : i \in DOMAIN d.ops}) @@ o
  /\ deps' = (d.hash :> S(d.deps)) @@ dp

HasView == "obs" \in DOMAIN E /\ "view" \in DOMAIN E.obs

ObsOK(opsTab) ==
  HasView => ViewChk("C02", "view-equals-interpretation-of-applied-ops",
                     OpsOf(opsTab, S(E.obs.applied)), E.obs.view)

(* C29: inside transaction_at(H) the first read shows exactly the state at H; after the commit
   the document is the merge of the isolated change into the current state *)
IsoOK(opsTab) ==
  (Len(E.iso) > 0 /\ "calls" \in DOMAIN E /\ Len(E.calls) > 0 /\ "before" \in DOMAIN E.calls[1]) =>
     /\ ViewChk("C29", "isolated-reads-show-the-state-at-the-isolation-heads",
                OpsOf(ops, Anc(deps, S(E.iso[1]))), E.calls[1].before)
     /\ (HasView => ViewChk("C29", "after-commit-document-is-merge-of-isolated-change",
                             OpsOf(opsTab, S(E.obs.applied)), E.obs.view))

Commit ==
  /\ IsEv("commit")
  /\ IF E.hash = "" THEN /\ ObsOK(ops) /\ UNCHANGED <<ops, deps>>
     ELSE /\ Define(E.def, ops, deps)
          /\ ObsOK(ops')
          /\ IsoOK(ops')
  /\ UNCHANGED enc

ChgDef ==
  /\ IsEv("chgdef")
  /\ Define(E.def, ops, deps)
  /\ UNCHANGED enc

(* historical read: view at heads H must be the interpretation of the ancestors' ops *)
(* historical reads after a save/load cycle are C11's ("the same state at every historical heads") *)
HP == IF "afterload" \in DOMAIN E THEN "C11" ELSE "C07"

ReadAt ==
  /\ IsEv("readat")
  /\ LET H == S(E.heads)
         A == Anc(deps, H)
         O == OpsOf(ops, A)
     IN  /\ ViewChk(HP, "view-at-heads-equals-interpretation-of-ancestors", O, E.view)
         /\ Chk(HP, "fork-at-succeeds", "err" \notin DOMAIN E.fork)
         /\ ("err" \notin DOMAIN E.fork) =>
               /\ Chk(HP, "fork-at-heads-are-the-given-heads", S(E.fork.heads) = H)
               /\ Chk(HP, "fork-at-holds-exactly-the-ancestors", S(E.fork.applied) = A)
               /\ ViewChk(HP, "fork-at-document-equals-interpretation-of-ancestors", O, E.fork.view)
               /\ Chk(HP, "read-at-equals-read-of-fork", E.fork.view = E.view)
  /\ UNCHANGED <<ops, deps, enc>>

Other ==
  /\ l <= Len(Rec)
  /\ E.ev \notin {"reset", "commit", "chgdef", "readat"}
  /\ l' = l + 1
  /\ ObsOK(ops)
  /\ UNCHANGED <<ops, deps, enc>>

Init == l = 1 /\ ops = <<>> /\ deps = <<>> /\ enc = "cp"
Next == Reset \/ Commit \/ ChgDef \/ ReadAt \/ Other
Spec == Init /\ [][Next]_vars

Accepted ==
  LET d == TLCGet("stats").diameter IN
  IF d - 1 = Len(Rec) THEN TRUE
  ELSE Print(<<"REJECTED", d, IF d <= Len(Rec) THEN Rec[d].ev ELSE "?">>, FALSE)
=============================================================================
