SPECIFICATION Spec
CONSTANTS
  Replicas = {1, 2}
  Actors = {1, 2}
  MaxChanges = 3
  MaxBatch = 2
INVARIANTS TypeOK AppliedCausallyClosed QueueDisjoint QueueNotReady HeadsApplied UniqueActorSeq
           SeqContiguous OwnHistoryInDeps StartOpAboveAncestors Commutes MissingExact
PROPERTY ErrorKeepsApplied
CHECK_DEADLOCK FALSE
