----------------------------- MODULE Trace_Args -----------------------------
(***************************************************************************)
(* C37: the contract of calls whose arguments are invalid, stale, foreign  *)
(* or extreme.  The harness (badargs.rs) performs a catalogue of such      *)
(* calls on replicas reached by ordinary programs and logs one `badcall`   *)
(* event per call with the class of the argument as the GENERATOR knows it: *)
(*   "invalid": the argument names nothing in this document (unknown        *)
(*              object, index past the end, unknown heads, wrong kind):     *)
(*              the call must return an error or an empty result;           *)
(*   "valid":   a boundary value that is legal: must not fail by panic and, *)
(*              for values the library produced itself (patches), must be   *)
(*              accepted;                                                   *)
(*   "any":     only "does not panic, leaves a loadable document".          *)
(* Every other event of the trace (the ordinary program that built the     *)
(* state) must not have panicked either.                                   *)
(***************************************************************************)
EXTENDS Naturals, Sequences, TLC, Json, IOUtils, TLCExt

CONSTANT CHECKS
Rec == ndJsonDeserialize(IOEnv.TRACE)
VARIABLE l
E == Rec[l]

On(p) == p \in CHECKS
Chk(p, name, cond) ==
  IF ~On(p) \/ cond THEN TRUE
  ELSE PrintT(<<"CHECKFAIL", p, name, l>>) /\ FALSE

Prefix(s, p) == Len(s) >= Len(p) /\ SubSeq(s, 1, Len(p)) = p
IsPanic(r) == Prefix(r, "panic") \/ Prefix(r, "obs-panic")
IsErr(r) == Prefix(r, "err")

BadCall ==
  /\ l <= Len(Rec) /\ E.ev = "badcall" /\ l' = l + 1
  /\ Chk("C37", "no-panic", ~IsPanic(E.res))
  /\ Chk("C37", "invalid-argument-gives-an-error-or-an-empty-result",
         E.cls = "invalid" => (IsErr(E.res) \/ E.empty))
  /\ Chk("C37", "document-still-saves-and-loads", "reload" \in DOMAIN E => E.reload)
  /\ Chk("C37", "own-patches-are-accepted",
         E.api = "apply_own_patches" => E.res \in {"ok", "ok:different"})
  /\ Chk("C08", "own-patches-transform-the-hydrated-value", E.api = "apply_own_patches" => E.res = "ok")
  /\ Chk("C37", "isolation-at-odd-heads-leaves-a-loadable-document", E.res # "err:UnloadableAfter")

Other ==
  /\ l <= Len(Rec) /\ E.ev # "badcall" /\ l' = l + 1
  /\ Chk("C37", "no-panic", "res" \in DOMAIN E => ~IsPanic(E.res))

Init == l = 1
Spec == Init /\ [][BadCall \/ Other]_l

Accepted ==
  LET d == TLCGet("stats").diameter IN
  IF d - 1 = Len(Rec) THEN TRUE
  ELSE Print(<<"REJECTED", d, IF d <= Len(Rec) THEN Rec[d].ev ELSE "?">>, FALSE)
=============================================================================
