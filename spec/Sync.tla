-------------------------------- MODULE Sync --------------------------------
(***************************************************************************)
(* The Bloom-filter sync protocol (C20 - C23), transcribed action by       *)
(* action from sync.rs (generate_sync_message, receive_sync_message_inner, *)
(* get_hashes_to_send, advance_heads) and sync/state.rs (set_read_only,    *)
(* encode/decode).  Peers hold documents as in Graph.tla (applied set +    *)
(* pending queue); messages travel over reliable FIFO links.               *)
(*                                                                         *)
(* Bloom filters are abstracted to [lastSync, members]; a filter built     *)
(* from a non-empty set may additionally answer "present" for the hashes   *)
(* in fp (false positives).  There are no false negatives: that is C23's   *)
(* contract and the only property of the filter the protocol relies on.    *)
(*                                                                         *)
(* Option values: <<>> is None, <<x>> is Some(x).                          *)
(***************************************************************************)
EXTENDS Graph

CONSTANTS Peers,        \* e.g. {1, 2}
          MaxChanges,   \* total number of changes ever created
          MaxFP,        \* size bound of the false-positive set
          ROToggles,    \* how many set_read_only calls may happen
          Drops         \* how many times a link may drop (losing in-flight messages) and reconnect

VARIABLES chg, applied, queue, st, chan, fp, budget, drops
vars == <<chg, applied, queue, st, chan, fp, budget, drops>>

None == <<>>
Some(x) == <<x>>
IsSome(o) == o # <<>>
Get(o) == o[1]

Links == {pq \in Peers \X Peers : pq[1] # pq[2]}

InitState == [sharedHeads |-> {}, lastSentHeads |-> {}, theirHeads |-> None, theirNeed |-> None,
              theirHave |-> None, sentHashes |-> {}, inFlight |-> FALSE, haveResponded |-> FALSE,
              caps |-> None, readOnly |-> FALSE, peerReadOnly |-> FALSE, needsReset |-> FALSE]

(* State::decode(State::encode(s)): only the shared heads survive *)
Persisted(s) == [InitState EXCEPT !.sharedHeads = s.sharedHeads, !.theirHave = Some(<<>>)]

HeadsP(p) == HeadsOf(chg, applied[p])
Has(p, h) == h \in applied[p]

(* changes that are not ancestors of the (known part of) hs *)
NotAnc(p, hs) == applied[p] \ Anc(chg, hs \cap applied[p])

MakeHave(p, lastSync) == [lastSync |-> lastSync, members |-> NotAnc(p, lastSync)]

BloomHas(b, h, fps) == b.members # {} /\ (h \in b.members \/ h \in fps)

RECURSIVE DependentsClosure(_, _, _)
DependentsClosure(pool, S, acc) ==
  LET more == {c \in pool \ acc : chg[c].deps \cap acc # {}}
  IN  IF more = {} THEN acc ELSE DependentsClosure(pool, S, acc \cup more)

HashesToSend(p, have, need, fps) ==
  LET needK == need \cap applied[p] IN
  IF have = <<>> THEN needK
  ELSE LET ls == UNION {have[i].lastSync : i \in DOMAIN have}
           hashes == NotAnc(p, ls)
           direct == {h \in hashes : \A i \in DOMAIN have : ~BloomHas(have[i], h, fps)}
           send == DependentsClosure(hashes, direct, direct)
       IN  needK \cup send

SupportsV2(s) == IsSome(s.caps) /\ "v2" \in Get(s.caps)
SupportsReset(s) == IsSome(s.caps) /\ "reset" \in Get(s.caps)

(* what a generate call would put into the message: [hashes (recorded as sent), carried (in the bytes)] *)
Payload(p, s, fps) ==
  LET doc == [hashes |-> applied[p], carried |-> applied[p] \cup queue[p], v |-> 2]
      none == [hashes |-> {}, carried |-> {}, v |-> IF SupportsV2(s) THEN 2 ELSE 1]
  IN
  IF s.peerReadOnly THEN none
  ELSE IF IsSome(s.theirHave) /\ IsSome(s.theirNeed) THEN
         IF s.theirHeads = Some({}) /\ SupportsV2(s) THEN doc
         ELSE LET hs == HashesToSend(p, Get(s.theirHave), Get(s.theirNeed), fps) \ s.sentHashes IN
              IF Cardinality(hs) > Cardinality(applied[p]) \div 3 /\ SupportsV2(s) THEN doc
              ELSE [hashes |-> hs, carried |-> hs, v |-> IF SupportsV2(s) THEN 2 ELSE 1]
  ELSE none

ResetNeeded(p, s) ==
  /\ IsSome(s.theirHave) /\ Get(s.theirHave) # <<>>
  /\ ~(Get(s.theirHave)[1].lastSync \subseteq applied[p])

(* The outcome of generate_sync_message(p -> q): [msg : Option, st : new state] *)
Generate(p, q, fps) ==
  LET s == st[<<p, q>>]
      ourHeads == HeadsP(p)
      theirs == IF IsSome(s.theirHeads) THEN Get(s.theirHeads) ELSE {}
      ourNeed == IF s.readOnly THEN {} ELSE MissingFrom(chg, applied[p], queue[p], theirs)
      ourHave == IF ourNeed \subseteq theirs THEN <<MakeHave(p, s.sharedHeads)>> ELSE <<>>
      pl == Payload(p, s, fps)
      headsUnchanged == s.lastSentHeads = ourHeads
      headsEqual == s.theirHeads = Some(ourHeads)
      quiet == /\ headsUnchanged /\ s.haveResponded
               /\ (((headsEqual \/ s.readOnly) /\ pl.hashes = {}) \/ s.inFlight)
      resetFlag == s.needsReset /\ SupportsReset(s)
      headsToSend == IF s.needsReset /\ ~SupportsReset(s) THEN {} ELSE ourHeads
      flags == {"supports_reset"} \cup (IF s.readOnly THEN {"read_only"} ELSE {})
                                  \cup (IF resetFlag THEN {"sync_reset"} ELSE {})
  IN
  IF ResetNeeded(p, s)
  THEN [msg |-> Some([heads |-> ourHeads, need |-> {}, have |-> <<[lastSync |-> {}, members |-> {}]>>,
                      hashes |-> {}, carried |-> {}, flags |-> {"supports_reset"}, v |-> 1, kind |-> "reset"]),
        st |-> s]
  ELSE IF quiet THEN [msg |-> None, st |-> s]
  ELSE [msg |-> Some([heads |-> headsToSend, need |-> ourNeed, have |-> ourHave,
                      hashes |-> pl.hashes, carried |-> pl.carried, flags |-> flags, v |-> pl.v, kind |-> "sync"]),
        st |-> [s EXCEPT !.haveResponded = TRUE, !.lastSentHeads = ourHeads,
                         !.sentHashes = @ \cup pl.hashes, !.needsReset = FALSE, !.inFlight = TRUE]]

(* receive_sync_message(p <- q, m): [applied, queue, st] *)
Receive(p, q, m) ==
  LET s0 == st[<<p, q>>]
      before == HeadsP(p)
      s1 == [s0 EXCEPT !.inFlight = FALSE,
                       !.caps = Some({"v2"} \cup (IF "supports_reset" \in m.flags THEN {"reset"} ELSE {})),
                       !.sentHashes = IF "sync_reset" \in m.flags THEN {} ELSE @,
                       !.peerReadOnly = "read_only" \in m.flags]
      apply == m.carried # {} /\ ~s0.readOnly
      d == IF apply THEN DeliverResult(chg, applied[p], queue[p], SetToSeq(m.carried))
           ELSE [res |-> "ok", applied |-> applied[p], queue |-> queue[p]]
      after == HeadsOf(chg, d.applied)
      s2 == IF apply THEN [s1 EXCEPT !.sharedHeads = (after \ before) \cup (@ \cap after)] ELSE s1
      s3 == [s2 EXCEPT !.sentHashes = @ \ Anc(chg, m.heads \cap d.applied)]
      s4 == IF m.carried = {} /\ m.heads = before THEN [s3 EXCEPT !.lastSentHeads = m.heads] ELSE s3
      known == m.heads \cap d.applied
      s5 == IF known = m.heads
            THEN IF m.heads = {} THEN [s4 EXCEPT !.sharedHeads = {}, !.lastSentHeads = {}, !.sentHashes = {}]
                 ELSE [s4 EXCEPT !.sharedHeads = m.heads]
            ELSE [s4 EXCEPT !.sharedHeads = @ \cup known]
      s6 == [s5 EXCEPT !.theirHave = Some(m.have), !.theirHeads = Some(m.heads), !.theirNeed = Some(m.need)]
  IN  [applied |-> d.applied, queue |-> d.queue, st |-> s6]

SetRO(s, b) ==
  IF s.readOnly = b THEN s
  ELSE IF ~b THEN [InitState EXCEPT !.caps = s.caps, !.needsReset = TRUE]
  ELSE [s EXCEPT !.readOnly = TRUE, !.inFlight = FALSE, !.haveResponded = FALSE]

-----------------------------------------------------------------------------
Init ==
  /\ chg = <<>>
  /\ applied = [p \in Peers |-> {}]
  /\ queue = [p \in Peers |-> {}]
  /\ st = [l \in Links |-> InitState]
  /\ chan = [l \in Links |-> <<>>]
  /\ fp \in {S \in SUBSET (1..MaxChanges) : Cardinality(S) <= MaxFP}
  /\ budget = ROToggles
  /\ drops = Drops

Edit(p) ==
  /\ Cardinality(DOMAIN chg) < MaxChanges
  /\ LET c == Cardinality(DOMAIN chg) + 1
         m == CommitMeta(chg, applied[p], p, <<>>)
     IN  /\ chg' = chg @@ (c :> [actor |-> p, seq |-> m.seq, startOp |-> m.startOp, nops |-> 1, deps |-> m.deps])
         /\ applied' = [applied EXCEPT ![p] = @ \cup {c}]
         /\ queue' = [queue EXCEPT ![p] = PruneBranch(chg, @, p, m.seq)]
  /\ UNCHANGED <<st, chan, fp, budget, drops>>

Gen(p, q) ==
  LET g == Generate(p, q, fp) IN
  /\ g.msg # None \/ g.st # st[<<p, q>>]
  /\ st' = [st EXCEPT ![<<p, q>>] = g.st]
  /\ chan' = IF IsSome(g.msg) THEN [chan EXCEPT ![<<p, q>>] = Append(@, Get(g.msg))] ELSE chan
  /\ UNCHANGED <<chg, applied, queue, fp, budget, drops>>

Recv(p, q) ==      \* p receives the oldest message q sent to it
  /\ chan[<<q, p>>] # <<>>
  /\ LET r == Receive(p, q, Head(chan[<<q, p>>])) IN
     /\ applied' = [applied EXCEPT ![p] = r.applied]
     /\ queue' = [queue EXCEPT ![p] = r.queue]
     /\ st' = [st EXCEPT ![<<p, q>>] = r.st]
  /\ chan' = [chan EXCEPT ![<<q, p>>] = Tail(@)]
  /\ UNCHANGED <<chg, fp, budget, drops>>

Toggle(p, q) ==
  /\ budget > 0
  /\ budget' = budget - 1
  /\ st' = [st EXCEPT ![<<p, q>>] = SetRO(@, ~@.readOnly)]
  /\ UNCHANGED <<chg, applied, queue, chan, fp, drops>>

(* The connection between p and q drops: messages in flight in both directions are lost.  Both  *)
(* ends then reconnect, either with a fresh sync::State or with the state they had persisted     *)
(* with State::encode and restored with State::decode (only the shared heads survive).           *)
Reconnect(p, q, persisted) ==
  /\ drops > 0 /\ p < q
  /\ drops' = drops - 1
  /\ chan' = [chan EXCEPT ![<<p, q>>] = <<>>, ![<<q, p>>] = <<>>]
  /\ st' = [st EXCEPT ![<<p, q>>] = IF persisted THEN Persisted(@) ELSE InitState,
                      ![<<q, p>>] = IF persisted THEN Persisted(@) ELSE InitState]
  /\ UNCHANGED <<chg, applied, queue, fp, budget>>

Next == \E l \in Links : \/ Edit(l[1]) \/ Gen(l[1], l[2]) \/ Recv(l[1], l[2]) \/ Toggle(l[1], l[2])
                         \/ \E b \in BOOLEAN : Reconnect(l[1], l[2], b)

Spec == Init /\ [][Next]_vars
FairSpec == Spec /\ \A l \in Links : WF_vars(Gen(l[1], l[2])) /\ WF_vars(Recv(l[1], l[2]))

-----------------------------------------------------------------------------
ChannelsEmpty == \A l \in Links : chan[l] = <<>>
AllQuiet == \A l \in Links : Generate(l[1], l[2], fp).msg = None
AnyRO == \E l \in Links : st[l].readOnly
Converged == \A p \in Peers : \A q \in Peers : applied[p] = applied[q]

(* C20: when nothing is in flight and nobody has anything to say, the peers agree. *)
NoStuck == (ChannelsEmpty /\ AllQuiet /\ ~AnyRO) => Converged

(* C22: a read-only peer never applies what it receives (action property) *)
ReadOnlyNeverApplies ==
  [][\A l \in Links : (st[l].readOnly /\ chan[<<l[2], l[1]>>] # <<>> /\ chan'[<<l[2], l[1]>>] = Tail(chan[<<l[2], l[1]>>])
                       /\ Cardinality(Peers) = 2)
        => applied'[l[1]] = applied[l[1]] /\ queue'[l[1]] = queue[l[1]]]_vars

(* C22: ... and with every link read-write again and everything quiet, every peer holds everything *)
(* covered by NoStuck (no link read-only). *)

(* C23 contract as used by the protocol: a change the peer really has is never sent because of the filter alone *)
TypeOK == \A l \in Links : st[l].sentHashes \subseteq DOMAIN chg

ChanBound == \A l \in Links : Len(chan[l]) <= 2

(* C20/C22 liveness: eventually quiet and converged (after the budgets are spent) *)
EventuallyConverged == <>[](ChannelsEmpty /\ AllQuiet /\ (~AnyRO => Converged))
=============================================================================
