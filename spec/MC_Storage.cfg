SPECIFICATION Spec
CONSTANTS
  MaxChanges = 5
  ChunkLen = 3
INVARIANTS CrashPrefix Compose
CHECK_DEADLOCK FALSE
