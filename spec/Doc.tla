-------------------------------- MODULE Doc --------------------------------
(***************************************************************************)
(* Replicas editing one document through the public editing calls, each    *)
(* call committed as its own change, with merges in between.  The state of *)
(* a replica is the set of ops it has applied; what it shows is            *)
(* OpSet!Interp of that set.  Local calls generate ops by the rules of     *)
(* TransactionInner::local_map_op / local_list_op / insert:                *)
(*   - the new op's id is <<1 + greatest op counter applied, actor>>;      *)
(*   - pred = ids of ALL visible ops of the register;                      *)
(*   - put of the value the single visible op already holds: no op;        *)
(*   - put of the winner's value under a conflict: a delete naming the     *)
(*     losers only (conflict resolution);                                  *)
(*   - delete of an empty map register: no op; of a bad list index: error; *)
(*   - increment needs a visible counter, else MissingCounter;             *)
(*   - insert at index i keys on the visible element at i-1 (HEAD for 0).  *)
(*                                                                         *)
(* The module is both a design-level model (invariants LocalEffect,        *)
(* Convergence, checked by TLC) and a behaviour generator: hist records    *)
(* every step with the view the specification expects, and finished        *)
(* behaviours are printed as REPLAY lines for the harness.                 *)
(***************************************************************************)
EXTENDS OpSet, Json

CONSTANTS Replicas,      \* actor numbers, e.g. {1, 2}
          Depth,         \* number of steps per behaviour
          Keys,          \* map keys of the root object that are edited
          WithList,      \* TRUE: the base document holds a list at key "l"
          WithInserts,       \* TRUE: list inserts are part of the programs
          WithRollback,      \* TRUE: programs contain rolled-back (possibly isolated) transactions
          WithIso,           \* TRUE: programs contain committed transactions isolated at earlier heads (C29)
          WithConflict3,     \* TRUE: the base document has three concurrent values (counter, int, int) by three
                             \* actors at key "k1", known to every replica
          WithText,          \* TRUE: the base document holds a text object "a e-acute" at key "t" (instead of the list)
          Enc,               \* text encoding of the documents: "cp", "u8" or "u16"
          WithHist           \* TRUE: finished behaviours also carry the expected views at every
                             \* set of historical heads (all antichains) of the acting replica

IntV(n) == [k |-> "int", s |-> ToString(n), n |-> 0, toks |-> <<>>]
CtrV(n) == [k |-> "counter", s |-> "", n |-> n, toks |-> <<>>]
NoneV == [k |-> "none", s |-> "", n |-> 0, toks |-> <<>>]
ListV == [k |-> "obj", s |-> "list", n |-> 0, toks |-> <<>>]
PutVals == {IntV(1), IntV(2), CtrV(5)}

MkOp(id, obj, ismap, key, elem, insert, act, val, pred) ==
  [id |-> id, obj |-> obj, ismap |-> ismap, key |-> key, elem |-> elem, insert |-> insert,
   act |-> act, val |-> val, pred |-> pred, mname |-> "", expand |-> FALSE]

LIST == <<1, 1>>
TEXT == <<1, 1>>
TextV == [k |-> "obj", s |-> "text", n |-> 0, toks |-> <<>>]
StrV(tok) == [k |-> "str", s |-> IF tok = "grin" THEN "\\u{1f600}" ELSE IF tok = "eacute" THEN "\\u{e9}" ELSE tok, n |-> 0, toks |-> <<tok>>]
(* base document, made by actor 1 in one transaction and merged everywhere *)
BaseOps ==
  IF WithConflict3 THEN
    {MkOp(<<1, 1>>, ROOT, TRUE, "k1", HEAD, FALSE, "set", CtrV(5), {}),
     MkOp(<<1, 2>>, ROOT, TRUE, "k1", HEAD, FALSE, "set", IntV(1), {}),
     MkOp(<<1, 3>>, ROOT, TRUE, "k1", HEAD, FALSE, "set", IntV(2), {})}
  ELSE IF WithText THEN
    {MkOp(<<1, 1>>, ROOT, TRUE, "t", HEAD, FALSE, "make", TextV, {}),
     MkOp(<<2, 1>>, TEXT, FALSE, "", HEAD, TRUE, "set", StrV("a"), {}),
     MkOp(<<3, 1>>, TEXT, FALSE, "", <<2, 1>>, TRUE, "set", StrV("eacute"), {})}
  ELSE IF WithList THEN
    {MkOp(<<1, 1>>, ROOT, TRUE, "l", HEAD, FALSE, "make", ListV, {}),
     MkOp(<<2, 1>>, LIST, FALSE, "", HEAD, TRUE, "set", CtrV(1), {}),
     MkOp(<<3, 1>>, LIST, FALSE, "", <<2, 1>>, TRUE, "set", IntV(7), {})}
  ELSE {}

(* chgs: change id (= id of its first op) -> [ops : set of op ids, deps : set of change ids].
   Every call is committed as its own change; the base document is one change. *)
VARIABLES known, hist, chgs
vars == <<known, hist, chgs>>

Have(r) == {c \in DOMAIN chgs : chgs[c].ops \subseteq {o.id : o \in known[r]}}
HeadsC(C) == {c \in C : \A d \in C : c \notin chgs[d].deps}
RECURSIVE AncCR(_, _)
AncCR(frontier, acc) ==
  IF frontier = {} THEN acc
  ELSE LET nxt == UNION {chgs[c].deps : c \in frontier} \ acc IN AncCR(nxt, acc \cup nxt)
AncC(H) == AncCR(H, H)
AntichainsC(C) == {H \in SUBSET C : H # {} /\ \A x \in H : \A y \in H : x # y => x \notin AncC({y})}
OpsAt(r, H) == {o \in known[r] : \E c \in AncC(H) : o.id \in chgs[c].ops}

MaxCtr(O) == IF O = {} THEN 0 ELSE Max({o.id[1] : o \in O})
NextId(r) == <<MaxCtr(known[r]) + 1, r>>

View(r) == Interp(known[r], Enc)

(* ---- local op generation --------------------------------------------- *)
(* R: the visible ops of the target register (possibly empty) *)
Winner(R) == CHOOSE o \in R : o.id = MaxId({p.id : p \in R})

(* result of a put/delete/increment against register R, target described   *)
(* by (obj, ismap, key, elem):  [res, ops]                                  *)
GenUpdateId(id, R, obj, ismap, key, elem, kind, v) ==
  LET ids == {o.id : o \in R}
  IN
  CASE kind = "put" ->
         IF R # {} /\ Winner(R).act = "set" /\ Winner(R).val = v
         THEN IF Cardinality(R) = 1 THEN [res |-> "ok", ops |-> {}]
              ELSE [res |-> "ok",
                    ops |-> {MkOp(id, obj, ismap, key, elem, FALSE, "del", NoneV, ids \ {Winner(R).id})}]
         ELSE [res |-> "ok", ops |-> {MkOp(id, obj, ismap, key, elem, FALSE, "set", v, ids)}]
    [] kind = "del" ->
         IF R = {} THEN [res |-> "ok", ops |-> {}]
         ELSE [res |-> "ok", ops |-> {MkOp(id, obj, ismap, key, elem, FALSE, "del", NoneV, ids)}]
    [] kind = "inc" ->
         IF \A o \in R : ~IsCtr(o) THEN [res |-> "err", ops |-> {}]
         ELSE [res |-> "ok", ops |-> {MkOp(id, obj, ismap, key, elem, FALSE, "inc", v, ids)}]

GenUpdate(r, R, obj, ismap, key, elem, kind, v) == GenUpdateId(NextId(r), R, obj, ismap, key, elem, kind, v)

(* puts that would compare a counter with a counter are left out: whether   *)
(* they count as "the same value" depends on the increments (not modelled)  *)
PutAllowed(R, v) == ~(v.k = "counter" /\ R # {} /\ IsCtr(Winner(R)))

Record(r, call, res, newops) ==
  /\ known' = [known EXCEPT ![r] = @ \cup newops]
  /\ chgs' = IF newops = {} THEN chgs
             ELSE LET o == CHOOSE x \in newops : TRUE IN
                  (o.id :> [ops |-> {o.id}, deps |-> HeadsC(Have(r))]) @@ chgs
  /\ hist' = Append(hist, [r |-> r, call |-> call, res |-> res,
                           exp |-> Interp(known[r] \cup newops, Enc)])

MapCall(r) ==
  \E k \in Keys : \E kind \in {"put", "del", "inc"} : \E v \in PutVals :
    LET R == MapReg(known[r], ROOT, k)
        val == IF kind = "inc" THEN IntV(0) ELSE v
        g == GenUpdate(r, R, ROOT, TRUE, k, HEAD, kind, IF kind = "inc" THEN [IntV(0) EXCEPT !.n = 2, !.s = ""] ELSE v)
        call == IF kind = "put" THEN [fn |-> "put", obj |-> ROOT, key |-> k, val |-> v]
                ELSE IF kind = "del" THEN [fn |-> "delete", obj |-> ROOT, key |-> k]
                ELSE [fn |-> "increment", obj |-> ROOT, key |-> k, by |-> 2]
    IN  /\ (kind # "put" => v = IntV(1))          \* v only matters for put
        /\ (kind = "put" => PutAllowed(R, v))
        /\ Record(r, call, g.res, g.ops)

ListCall(r) ==
  /\ WithList
  /\ LIST \in Reachable(known[r])
  /\ LET es == VisibleElems(known[r], LIST) IN
     \/ \E i \in 1..Len(es) : \E kind \in {"put", "del", "inc"} : \E v \in PutVals :
          LET R == ElemReg(known[r], LIST, es[i])
              g == GenUpdate(r, R, LIST, FALSE, "", es[i], kind, IF kind = "inc" THEN [IntV(0) EXCEPT !.n = 2, !.s = ""] ELSE v)
              call == IF kind = "put" THEN [fn |-> "put", obj |-> LIST, idx |-> i - 1, val |-> v]
                      ELSE IF kind = "del" THEN [fn |-> "delete", obj |-> LIST, idx |-> i - 1]
                      ELSE [fn |-> "increment", obj |-> LIST, idx |-> i - 1, by |-> 2]
          IN  /\ (kind # "put" => v = IntV(1))
              /\ (kind = "put" => PutAllowed(R, v))
              /\ Record(r, call, g.res, g.ops)
     \/ \E i \in 0..Len(es) : \E v \in {IntV(1), CtrV(5)} :
          /\ WithInserts /\ Len(es) < 4
          /\ LET ref == IF i = 0 THEN HEAD ELSE es[i]
                 op == MkOp(NextId(r), LIST, FALSE, "", ref, TRUE, "set", v, {})
             IN  Record(r, [fn |-> "insert", obj |-> LIST, idx |-> i, val |-> v], "ok", {op})

(* Text (C24): single characters are overwritten with put(text, i, "c") -- which makes conflicted *)
(* characters whose values have different widths -- deleted, and inserted with splice_text; every  *)
(* index is the offset of the element in units of Enc.                                              *)
TextCall(r) ==
  /\ WithText
  /\ TEXT \in Reachable(known[r])
  /\ LET es == VisibleElems(known[r], TEXT)
         unit(i) == SumSeq([j \in 1..(i - 1) |-> ElemWidth(known[r], TEXT, es[j], Enc)])
     IN
     \/ \E i \in 1..Len(es) : \E kind \in {"put", "del"} : \E v \in {StrV("x"), StrV("grin")} :
          LET R == ElemReg(known[r], TEXT, es[i])
              g == GenUpdate(r, R, TEXT, FALSE, "", es[i], kind, v)
              call == IF kind = "put" THEN [fn |-> "put", obj |-> TEXT, idx |-> unit(i), val |-> v]
                      ELSE [fn |-> "delete", obj |-> TEXT, idx |-> unit(i)]
          IN  /\ (kind # "put" => v = StrV("x"))
              /\ Record(r, call, g.res, g.ops)
     \/ \E i \in 0..Len(es) : \E tok \in {"b", "grin"} :
          /\ WithInserts /\ Len(es) < 4
          /\ LET ref == IF i = 0 THEN HEAD ELSE es[i]
                 op == MkOp(NextId(r), TEXT, FALSE, "", ref, TRUE, "set", StrV(tok), {})
             IN  Record(r, [fn |-> "splice_text", obj |-> TEXT, idx |-> unit(i + 1), del |-> 0, toks |-> <<tok>>], "ok", {op})

Merge(r) ==
  \E s \in Replicas \ {r} :
    /\ ~(known[s] \subseteq known[r])
    /\ known' = [known EXCEPT ![r] = @ \cup known[s]]
    /\ UNCHANGED chgs
    /\ hist' = Append(hist, [r |-> r, merge |-> s, res |-> "ok", got |-> {o.id : o \in known[s] \ known[r]},
                             exp |-> Interp(known[r] \cup known[s], Enc)])

(* C28: a transaction of one call, opened on the current state or isolated at an antichain H of  *)
(* the replica's changes, and rolled back: the replica's op set -- hence everything it shows --  *)
(* is unchanged.  The call is generated against the isolated op set; whether it succeeds or     *)
(* fails is irrelevant after the rollback.                                                       *)
RolledBack(r) ==
  /\ WithRollback
  /\ IF hist = <<>> THEN TRUE ELSE "rolledback" \notin DOMAIN hist[Len(hist)]
  /\ \E k \in Keys : \E kind \in {"put", "del", "inc"} : \E v \in PutVals :
     \E H \in {{}} \cup AntichainsC(Have(r)) :
       /\ (kind # "put" => v = IntV(1))
       /\ hist' = Append(hist, [r |-> r, rolledback |-> TRUE, iso |-> H,
                                call |-> IF kind = "put" THEN [fn |-> "put", obj |-> ROOT, key |-> k, val |-> v]
                                         ELSE IF kind = "del" THEN [fn |-> "delete", obj |-> ROOT, key |-> k]
                                         ELSE [fn |-> "increment", obj |-> ROOT, key |-> k, by |-> 2],
                                res |-> "any", exp |-> Interp(known[r], Enc)])
       /\ UNCHANGED <<known, chgs>>

(* C29: one call committed in a transaction isolated at an antichain H of the replica's changes.    *)
(* The call is generated against the ops of H's ancestors only; the op's counter is still one above  *)
(* everything the replica has; the actor is the first of r, 256+r, 512+r, ... whose latest change    *)
(* is an ancestor of H (or which has no change yet); the change depends on exactly H.  Afterwards    *)
(* the document is the interpretation of everything the replica has (the isolated change merged in). *)
IsoActor(r, H) ==
  LET anc == AncC(H)
      ok(a) == \A c \in Have(r) : c[2] = a => c \in anc
  IN  IF ok(r) THEN r ELSE IF ok(256 + r) THEN 256 + r ELSE IF ok(512 + r) THEN 512 + r ELSE 768 + r
IsoCall(r) ==
  /\ WithIso
  /\ \E H \in AntichainsC(Have(r)) : \E k \in Keys : \E kind \in {"put", "del", "inc"} : \E v \in PutVals :
       LET O == OpsAt(r, H)
           R == MapReg(O, ROOT, k)
           id == <<MaxCtr(known[r]) + 1, IsoActor(r, H)>>
           g == GenUpdateId(id, R, ROOT, TRUE, k, HEAD, kind, IF kind = "inc" THEN [IntV(0) EXCEPT !.n = 2, !.s = ""] ELSE v)
           call == IF kind = "put" THEN [fn |-> "put", obj |-> ROOT, key |-> k, val |-> v]
                   ELSE IF kind = "del" THEN [fn |-> "delete", obj |-> ROOT, key |-> k]
                   ELSE [fn |-> "increment", obj |-> ROOT, key |-> k, by |-> 2]
       IN  /\ H # HeadsC(Have(r))
           /\ (kind # "put" => v = IntV(1))
           /\ (kind = "put" => PutAllowed(R, v))
           /\ known' = [known EXCEPT ![r] = @ \cup g.ops]
           /\ chgs' = IF g.ops = {} THEN chgs ELSE (id :> [ops |-> {id}, deps |-> H]) @@ chgs
           /\ hist' = Append(hist, [r |-> r, call |-> call, isoat |-> H, res |-> g.res,
                                    inside |-> Interp(O \cup g.ops, Enc),
                                    exp |-> Interp(known[r] \cup g.ops, Enc)])

Init ==
  /\ known = [r \in Replicas |-> BaseOps]
  /\ hist = <<>>
  /\ chgs = IF BaseOps = {} THEN <<>>
            ELSE IF WithConflict3 THEN [c \in {o.id : o \in BaseOps} |-> [ops |-> {c}, deps |-> {}]]
            ELSE (<<1, 1>> :> [ops |-> {o.id : o \in BaseOps}, deps |-> {}])

Next == Len(hist) < Depth /\ \E r \in Replicas : MapCall(r) \/ ListCall(r) \/ TextCall(r) \/ IsoCall(r) \/ Merge(r) \/ RolledBack(r)

Spec == Init /\ [][Next]_vars

-----------------------------------------------------------------------------
(* C03 at design level: the op generation rules have the documented         *)
(* sequential effect on every reachable state.                               *)
RegAfter(view, call) ==   \* the register the call addressed, in a view
  LET o == CHOOSE x \in view : x.id = call.obj IN
  IF "key" \in DOMAIN call
  THEN IF \E e \in o.ents : e.k = call.key THEN (CHOOSE e \in o.ents : e.k = call.key).vals ELSE {}
  ELSE IF call.fn = "insert" THEN o.elems[call.idx + 1].vals
  ELSE IF call.fn = "delete" THEN {}   \* element gone; checked through the length
  ELSE o.elems[call.idx + 1].vals

LocalEffect ==
  hist # <<>> =>
    LET h == hist[Len(hist)] IN
    ("call" \in DOMAIN h /\ h.res = "ok" /\ "rolledback" \notin DOMAIN h /\ ~WithText) =>
      \* an isolated call has its sequential effect on the isolated state (C29)
      LET after == RegAfter(IF "isoat" \in DOMAIN h THEN h.inside ELSE h.exp, h.call) IN
      CASE h.call.fn \in {"put", "insert"} ->
             /\ Cardinality(after) = 1
             /\ \A x \in after : x.v.k = h.call.val.k /\ (x.v.k # "counter" => x.v = h.call.val)
        [] h.call.fn = "delete" -> "key" \in DOMAIN h.call => after = {}
        [] h.call.fn = "increment" -> after # {} /\ \A x \in after : x.v.k = "counter"
        [] OTHER -> TRUE

(* C01 at design level: equal op sets show equal documents (Interp is a function of the set) *)
Convergence ==
  \A r \in Replicas : \A s \in Replicas : known[r] = known[s] => View(r) = View(s)

(* C07 at design level and as replay data: reads at historical heads H are the interpretation
   of the ops of H's ancestors. *)
HistReads(r) == {[heads |-> H, exp |-> Interp(OpsAt(r, H), Enc)] : H \in AntichainsC(Have(r))}
Out == IF WithHist /\ hist # <<>>
       THEN Append(hist, [r |-> hist[Len(hist)].r, hreads |-> HistReads(hist[Len(hist)].r)])
       ELSE hist
Emit == (Len(hist) = Depth) => PrintT(<<"REPLAY", ToJson(Out)>>)

(* Transition coverage: with this VIEW TLC identifies states that agree on the replicas' op   *)
(* sets and on the last step taken, so exhaustive search visits every (state, incoming        *)
(* transition) pair once, each with one (shortest) history; EmitAll prints that history.      *)
LastStep == IF hist = <<>> THEN <<>> ELSE <<[x \in DOMAIN hist[Len(hist)] \ {"exp"} |-> hist[Len(hist)][x]]>>
TransitionView == <<known, LastStep>>
(* state coverage: one (shortest) history per distinct vector of replica op sets; used for the
   historical-read replays, whose expected results depend on the state only *)
(* delivery-path coverage: states are also distinguished by WHICH ops each merge delivered to each  *)
(* replica, in order -- effects that depend on how a set of changes was split over deliveries      *)
(* (e.g. a conflict that exists only between two merges) are not identified with the one-shot path *)
MergePath(r) == LET ms == SelectSeq(hist, LAMBDA h : "merge" \in DOMAIN h /\ h.r = r) IN [i \in DOMAIN ms |-> ms[i].got]
PathView == <<known, LastStep, [r \in Replicas |-> MergePath(r)]>>
StateView == <<known, IF hist = <<>> THEN 0 ELSE hist[Len(hist)].r>>
EmitAll == hist # <<>> => PrintT(<<"REPLAY", ToJson(Out)>>)
=============================================================================
