----------------------------- MODULE HexColumn ------------------------------
(***************************************************************************)
(* A hexane column is a sequence (C34).  Values are tokens of a tiny       *)
(* alphabet chosen to force run merging and splitting: "N" (null), "0",   *)
(* "1", "5"; a program is a sequence of edits; after every edit the column    *)
(* must equal the sequence, and the derived reads are functions of it:     *)
(*   pre[i]   exclusive prefix sum before index i (nulls count 0),         *)
(*   ift[t]   index-for-total: index of the first item whose inclusive     *)
(*            running sum reaches t (0 for t = 0, Len when never reached), *)
(*   pos[v]   the set of indexes holding value v.                          *)
(* SaveLoad is the identity (C35).  The harness replays every program on   *)
(* each column type with max_segments 2..4 so that slabs split and merge,  *)
(* mapping the tokens to the type's values ("N" only for nullable types).  *)
(***************************************************************************)
EXTENDS Naturals, Sequences, FiniteSets, TLC, Json, SequencesExt

CONSTANTS Depth, MaxLen, Vals

VARIABLES col, hist
vars == <<col, hist>>

Num(v) == CASE v = "1" -> 1 [] v = "5" -> 5 [] OTHER -> 0
RECURSIVE Sum(_)
Sum(s) == IF s = <<>> THEN 0 ELSE Num(Head(s)) + Sum(Tail(s))

Pre(s) == [i \in 1..(Len(s) + 1) |-> Sum(SubSeq(s, 1, i - 1))]          \* pre[i] = prefix before 0-based index i-1
IndexForTotal(s, t) ==
  IF t = 0 THEN 0
  ELSE LET hit == {i \in 1..Len(s) : Sum(SubSeq(s, 1, i)) >= t}
       IN  IF hit = {} THEN Len(s) ELSE (CHOOSE i \in hit : \A j \in hit : i <= j) - 1
Ift(s) == [t \in 1..(Sum(s) + 2) |-> IndexForTotal(s, t - 1)]
Positions(s) == [v \in Vals |-> {i - 1 : i \in {j \in 1..Len(s) : s[j] = v}}]

Exp(s) == [col |-> s, pre |-> Pre(s), ift |-> Ift(s),
           pos |-> Positions(s)]

Ins(s, i, vs) == SubSeq(s, 1, i) \o vs \o SubSeq(s, i + 1, Len(s))       \* insert before 0-based index i
Del(s, i, n) == SubSeq(s, 1, i) \o SubSeq(s, i + n + 1, Len(s))

Record(op, s) == /\ col' = s /\ hist' = Append(hist, [op |-> op, exp |-> Exp(s)])

Run3(v) == <<v, v, v>>

Step ==
  /\ Len(hist) < Depth
  /\ \/ \E i \in 0..Len(col) : \E v \in Vals :
          Len(col) < MaxLen /\ Record([f |-> "insert", i |-> i, vs |-> <<v>>], Ins(col, i, <<v>>))
     \/ \E v \in Vals : Len(col) < MaxLen /\ Record([f |-> "push", i |-> 0, vs |-> <<v>>], Ins(col, Len(col), <<v>>))
     \/ \E i \in 0..Len(col) : \E v \in Vals :
          Len(col) + 3 <= MaxLen /\ Record([f |-> "splice", i |-> i, del |-> 0, vs |-> Run3(v)], Ins(col, i, Run3(v)))
     \/ \E i \in 0..(Len(col) - 1) : Record([f |-> "remove", i |-> i, vs |-> <<>>], Del(col, i, 1))
     \/ \E i \in 0..(Len(col) - 1) : \E n \in 1..(Len(col) - i) :
          n <= 3 /\ Record([f |-> "remove_n", i |-> i, n |-> n, vs |-> <<>>], Del(col, i, n))
     \/ \E i \in 0..Len(col) : \E n \in 0..(Len(col) - i) : \E v \in Vals : \E w \in Vals :
          n <= 2 /\ Len(col) - n + 2 <= MaxLen /\
          Record([f |-> "splice", i |-> i, del |-> n, vs |-> <<v, w>>], Ins(Del(col, i, n), i, <<v, w>>))
     \/ \E k \in 0..Len(col) : k < Len(col) /\ Record([f |-> "truncate", i |-> k, vs |-> <<>>], SubSeq(col, 1, k))
     \/ col # <<>> /\ Record([f |-> "clear", i |-> 0, vs |-> <<>>], <<>>)
     \/ Record([f |-> "saveload", i |-> 0, vs |-> <<>>], col)

Init == col = <<>> /\ hist = <<>>
Spec == Init /\ [][Step]_vars

(* a sequence stays a sequence: the derived reads are consistent with each other *)
PrefixMonotone == LET p == Pre(col) IN \A i \in 1..Len(col) : p[i] <= p[i + 1]
IftInverse == \A t \in 1..Sum(col) : LET i == IndexForTotal(col, t) IN
                 i < Len(col) /\ Sum(SubSeq(col, 1, i + 1)) >= t /\ Sum(SubSeq(col, 1, i)) < t

Emit == (Len(hist) = Depth) => PrintT(<<"REPLAY", ToJson(hist)>>)
=============================================================================
