---------------------------- MODULE ChangeGraph ----------------------------
(***************************************************************************)
(* Design-level state machine of the change DAG, heads and causal-delivery *)
(* queue of a set of replicas (C04, C05, C38, graph part of C01/C06).      *)
(* Changes are abstract naturals here; one action per public entry point:  *)
(*   Commit / CommitIso  (transaction, transaction_at / isolate)           *)
(*   Deliver             (apply_changes, load_incremental, sync receive)   *)
(*   Merge, ForkInto, SetActor                                             *)
(* All rules come from Graph.tla, which the trace specification shares.    *)
(***************************************************************************)
EXTENDS Graph

CONSTANTS Replicas, Actors, MaxChanges, MaxBatch

VARIABLES chg, applied, queue, actor, lastRes
vars == <<chg, applied, queue, actor, lastRes>>

Ids == DOMAIN chg
NextId == Cardinality(DOMAIN chg) + 1

Init ==
  /\ chg = <<>>
  /\ applied = [r \in Replicas |-> {}]
  /\ queue = [r \in Replicas |-> {}]
  /\ actor \in [Replicas -> Actors]
  /\ lastRes = "ok"

Antichains(A) == {H \in SUBSET A : H # {} /\ \A x \in H : \A y \in H : x # y => x \notin Anc(chg, {y})}

(* actor numbers: bytes below 0x20 are themselves and their isolation actors 256*level + byte sort
   after them; bytes from 0x20 on are 100000 + byte and their isolation actors 256*level + byte sort
   before them (harness/src/enc.rs actor_num) *)
IsoBase(a) == IF a >= 100000 THEN a - 100000 ELSE a
IsoCands(a) == <<a, 256 + IsoBase(a), 512 + IsoBase(a), 768 + IsoBase(a), 1024 + IsoBase(a)>>

NewChange(r, a, iso, nops) ==
  LET m == CommitMeta(chg, applied[r], a, iso)
      c == NextId
  IN  /\ NextId <= MaxChanges
      /\ chg' = chg @@ (c :> [actor |-> a, seq |-> m.seq, startOp |-> m.startOp, nops |-> nops, deps |-> m.deps])
      /\ applied' = [applied EXCEPT ![r] = @ \cup {c}]
      /\ queue' = [queue EXCEPT ![r] = PruneBranch(chg, @, a, m.seq)]
      /\ lastRes' = "ok"
      /\ UNCHANGED actor

Commit(r) == \E nops \in {0, 2} : NewChange(r, actor[r], <<>>, nops)

CommitIso(r) ==
  \E H \in Antichains(applied[r]) :
     NewChange(r, IsolatedActor(chg, applied[r], IsoCands(actor[r]), H), <<H>>, 1)

(* An open transaction that ends without ops still claimed the sequence    *)
(* number and pruned the queue (transaction_args runs at begin).           *)
BeginOnly(r) ==
  /\ queue' = [queue EXCEPT ![r] = PruneBranch(chg, @, actor[r], ActorSeq(chg, applied[r], actor[r]) + 1)]
  /\ lastRes' = "ok"
  /\ UNCHANGED <<chg, applied, actor>>

Deliver(r) ==
  \E B \in UNION {[1..n -> Ids] : n \in 1..MaxBatch} :
     LET d == DeliverResult(chg, applied[r], queue[r], B) IN
     /\ applied' = [applied EXCEPT ![r] = d.applied]
     /\ queue' = [queue EXCEPT ![r] = d.queue]
     /\ lastRes' = d.res
     /\ UNCHANGED <<chg, actor>>

Merge(r, s) ==
  /\ r # s
  /\ \E B \in {b \in UNION {[1..n -> Ids] : n \in 0..Cardinality(applied[s] \ applied[r])} :
                  ToSet(b) = applied[s] \ applied[r] /\ Len(b) = Cardinality(ToSet(b))} :
       LET d == DeliverResult(chg, applied[r], queue[r], B) IN
       /\ applied' = [applied EXCEPT ![r] = d.applied]
       /\ queue' = [queue EXCEPT ![r] = d.queue]
       /\ lastRes' = d.res
  /\ UNCHANGED <<chg, actor>>

(* fork(): a fresh replica becomes a copy (document and queue) of another, *)
(* possibly keeping an actor id that is in use elsewhere.                  *)
ForkInto(r, s) ==
  /\ r # s /\ applied[r] = {} /\ queue[r] = {} /\ applied[s] # {}
  /\ applied' = [applied EXCEPT ![r] = applied[s]]
  /\ queue' = [queue EXCEPT ![r] = queue[s]]
  /\ \E a \in Actors : actor' = [actor EXCEPT ![r] = a]
  /\ lastRes' = "ok"
  /\ UNCHANGED chg

SetActor(r) ==
  /\ \E a \in Actors : actor' = [actor EXCEPT ![r] = a]
  /\ lastRes' = "ok"
  /\ UNCHANGED <<chg, applied, queue>>

Next ==
  \E r \in Replicas :
     \/ Commit(r) \/ CommitIso(r) \/ BeginOnly(r) \/ Deliver(r) \/ SetActor(r)
     \/ \E s \in Replicas : Merge(r, s) \/ ForkInto(r, s)

Spec == Init /\ [][Next]_vars

-----------------------------------------------------------------------------
(* Invariants *)
TypeOK ==
  /\ \A r \in Replicas : applied[r] \subseteq Ids /\ queue[r] \subseteq Ids

AppliedCausallyClosed == \A r \in Replicas : CausallyClosed(chg, applied[r])

QueueDisjoint == \A r \in Replicas : applied[r] \cap queue[r] = {}

(* C05: nothing that could be applied is ever left in the queue. *)
QueueNotReady == \A r \in Replicas : Ready(chg, applied[r], queue[r]) = {}

(* C05: held changes are not heads and heads are exactly the maximal applied changes. *)
HeadsApplied == \A r \in Replicas : HeadsOf(chg, applied[r]) \subseteq applied[r]
                                   /\ (applied[r] # {} => HeadsOf(chg, applied[r]) # {})

(* C38: no two different changes with the same (actor, seq) in one document (applied or held). *)
UniqueActorSeq ==
  \A r \in Replicas : \A x \in applied[r] \cup queue[r] : \A y \in applied[r] \cup queue[r] :
     x # y => ~(chg[x].actor = chg[y].actor /\ chg[x].seq = chg[y].seq)

(* C04/C38: an applied change's predecessor in its actor's sequence is applied too. *)
SeqContiguous ==
  \A r \in Replicas : \A x \in applied[r] :
     chg[x].seq > 1 => \E y \in applied[r] : chg[y].actor = chg[x].actor /\ chg[y].seq + 1 = chg[x].seq

(* C04: every change depends (transitively) on its actor's previous change, so causal     *)
(* delivery alone guarantees SeqContiguous at every receiver.                              *)
OwnHistoryInDeps ==
  \A x \in Ids : chg[x].seq > 1 =>
     \E y \in Anc(chg, chg[x].deps) : chg[y].actor = chg[x].actor /\ chg[y].seq + 1 = chg[x].seq

(* C04: start op above every op of every ancestor. *)
StartOpAboveAncestors ==
  \A x \in Ids : \A y \in Anc(chg, chg[x].deps) \cap Ids :
     chg[x].startOp > chg[y].startOp + chg[y].nops - 1

(* C05/C01: delivering two fresh changes in either order, or together, gives the same    *)
(* document whenever none of the deliveries is rejected.                                   *)
Commutes ==
  \A r \in Replicas : \A x \in Ids : \A y \in Ids :
     LET A == applied[r]  Q == queue[r]
         xy == DeliverResult(chg, A, Q, <<x, y>>)
         x1 == DeliverResult(chg, A, Q, <<x>>)
         x2 == DeliverResult(chg, x1.applied, x1.queue, <<y>>)
         y1 == DeliverResult(chg, A, Q, <<y>>)
         y2 == DeliverResult(chg, y1.applied, y1.queue, <<x>>)
     IN  (xy.res = "ok" /\ x1.res = "ok" /\ x2.res = "ok" /\ y1.res = "ok" /\ y2.res = "ok")
           => (xy.applied = x2.applied /\ xy.queue = x2.queue /\ x2.applied = y2.applied /\ x2.queue = y2.queue)

(* C05: get_missing_deps reports exactly what is neither applied nor held but needed. *)
MissingExact ==
  \A r \in Replicas :
     LET m == Missing(chg, applied[r], queue[r], {}) IN
     /\ m \cap (applied[r] \cup queue[r]) = {}
     /\ \A c \in queue[r] : \A d \in chg[c].deps : d \in applied[r] \cup queue[r] \cup m
     /\ \A d \in m : \E c \in queue[r] : d \in chg[c].deps

(* C06 (named deviation F9): a rejected delivery never changes the applied set. *)
ErrorKeepsApplied == [][lastRes' = "err" => applied' = applied]_vars

(* Vacuity witnesses: these are expected to be VIOLATED (reachability). *)
W_NoQueue == \A r \in Replicas : queue[r] = {}
W_NoErr == lastRes = "ok"
=============================================================================
