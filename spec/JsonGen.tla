------------------------------- MODULE JsonGen -------------------------------
(***************************************************************************)
(* C33: the JSON values the CLI round trip is exercised with, and the      *)
(* contract.  A value is a tagged record; numbers and strings are symbolic *)
(* tokens that the harness expands (TLC integers are 32 bit):              *)
(*   numbers  0, -1, 15, i64min, i64max, i64max+1, u64max, 2^53+1, 1.5,    *)
(*            1e300, -0.0, 15.0, 1e-7                                      *)
(*   strings  "", "k", "e-acute grin", "a.b", a quote and a backslash,     *)
(*            a newline, "null"                                            *)
(* Import(v) is the editing program "put / insert recursively" of Doc.tla: *)
(* objects become maps, arrays lists, strings string scalars, numbers the  *)
(* narrowest of int / uint / float; Export is the winners-only image of    *)
(* the document (Trace_Interp!ImageOfObj).  For a document built by one    *)
(* actor without conflicts the image of the imported document is the value *)
(* itself, hence the contract  Export(Load(Save(Import(v)))) = v  with     *)
(* number kinds preserved.                                                 *)
(***************************************************************************)
EXTENDS Naturals, Sequences, FiniteSets, TLC, Json, SequencesExt

NumToks == {"0", "-1", "15", "i64min", "i64max", "i64max+1", "u64max", "2p53p1", "1.5", "1e300", "-0.0", "15.0", "1e-7"}
StrToks == {"empty", "k", "unicode", "dotted", "quote", "newline", "nullword"}
Keys == {"empty", "k", "unicode", "dotted"}

Null == [t |-> "null"]
Bool(b) == [t |-> "bool", s |-> b]
Num(n) == [t |-> "num", s |-> n]
Str(x) == [t |-> "str", s |-> x]
Scalars == {Null, Bool("true"), Bool("false")} \cup {Num(n) : n \in NumToks} \cup {Str(x) : x \in StrToks}

Arr(items) == [t |-> "seq", items |-> items]
Obj(ents) == [t |-> "map", ents |-> ents]          \* ents: sequence of [k, v] with distinct keys

(* values one level below the top *)
Inner ==
  Scalars
  \cup {Arr(<<>>), Obj(<<>>)}
  \cup {Arr(<<a>>) : a \in Scalars}
  \cup {Arr(<<a, Str("k")>>) : a \in Scalars}
  \cup {Arr(<<Arr(<<a>>), Obj(<<[k |-> "k", v |-> a]>>)>>) : a \in {Num(n) : n \in NumToks}}
  \cup {Obj(<<[k |-> k, v |-> a]>>) : k \in Keys, a \in Scalars}

(* top level: objects (the CLI requires one) *)
Values ==
  {Obj(<<>>)}
  \cup {Obj(<<[k |-> k, v |-> v]>>) : k \in Keys, v \in Inner}
  \cup {Obj(<<[k |-> "k", v |-> v], [k |-> "unicode", v |-> Arr(<<v, v>>)], [k |-> "empty", v |-> Obj(<<[k |-> "dotted", v |-> v]>>)]>>) : v \in Scalars}

VARIABLE done
Init == done = FALSE
Next == ~done /\ done' = TRUE /\ PrintT(<<"REPLAY", ToJson(SetToSeq(Values))>>)
Spec == Init /\ [][Next]_done

(* design-level sanity: every generated top-level value is an object with distinct keys *)
RECURSIVE WellFormed(_)
WellFormed(v) ==
  CASE v.t = "map" -> /\ \A i, j \in DOMAIN v.ents : i # j => v.ents[i].k # v.ents[j].k
                      /\ \A i \in DOMAIN v.ents : WellFormed(v.ents[i].v)
    [] v.t = "seq" -> \A i \in DOMAIN v.items : WellFormed(v.items[i])
    [] OTHER -> TRUE
AllWellFormed == \A v \in Values : v.t = "map" /\ WellFormed(v)
=============================================================================
