------------------------------- MODULE OpSet -------------------------------
(***************************************************************************)
(* The interpretation of a set of operations: the op-based CRDT reading of *)
(* a history (C02).  Written from the property statement:                  *)
(*  - every map key and list element is a multi-value register whose       *)
(*    values are the ops not named as predecessor by a later delete,       *)
(*    overwrite or non-counter increment; greatest (counter, actor) wins;  *)
(*  - list/text order is RGA: each insert is a child of the element it was *)
(*    inserted after, siblings in descending id order, depth first;        *)
(*  - a counter reads as its initial value plus every increment naming it. *)
(*                                                                         *)
(* An op is a record                                                       *)
(*   [id, obj, ismap, key, elem, insert, act, val, pred, mname, expand]    *)
(* ids/obj/elem are <<counter, actor>> pairs, ROOT = HEAD = <<0,0>>,       *)
(* act \in {"set","make","del","inc","mark","markend"}, val is a record    *)
(* [k, s, n, toks], pred is a set of ids.                                  *)
(***************************************************************************)
EXTENDS Naturals, Integers, Sequences, FiniteSets, TLC, FiniteSetsExt, SequencesExt, Functions

ROOT == <<0, 0>>
HEAD == <<0, 0>>
NOID == <<-1, -1>>

IdLess(a, b) == a[1] < b[1] \/ (a[1] = b[1] /\ a[2] < b[2])
IdLeq(a, b) == a = b \/ IdLess(a, b)
MaxId(S) == CHOOSE x \in S : \A y \in S : IdLeq(y, x)

(* ids of a set, as a sequence in descending order *)
RECURSIVE DescSeq(_)
DescSeq(S) == IF S = {} THEN <<>> ELSE LET m == MaxId(S) IN <<m>> \o DescSeq(S \ {m})

-----------------------------------------------------------------------------
Succ(O, o) == {p \in O : o.id \in p.pred}
IsCtr(o) == o.act = "set" /\ o.val.k = "counter"
(* an increment of a non-counter acts as an overwrite *)
Overwrites(p, o) == ~(p.act = "inc" /\ IsCtr(o))
Visible(O, o) == /\ o.act \in {"set", "make"}
                 /\ \A p \in Succ(O, o) : ~Overwrites(p, o)

RECURSIVE SumN(_)
SumN(S) == IF S = {} THEN 0 ELSE LET p == CHOOSE x \in S : TRUE IN p.val.n + SumN(S \ {p})

CtrValue(O, o) == o.val.n + SumN({p \in Succ(O, o) : p.act = "inc"})

(* the value a visible op shows *)
Shown(O, o) == IF IsCtr(o) THEN [k |-> "counter", s |-> o.val.s, n |-> CtrValue(O, o), toks |-> <<>>]
               ELSE o.val

ValRec(O, o) == [id |-> o.id, v |-> Shown(O, o)]

-----------------------------------------------------------------------------
(* Maps *)
MapOps(O, obj) == {o \in O : o.obj = obj /\ o.ismap}
MapKeys(O, obj) == {o.key : o \in {p \in MapOps(O, obj) : Visible(O, p)}}
MapReg(O, obj, k) == {o \in MapOps(O, obj) : o.key = k /\ Visible(O, o)}

RegView(O, R) == [win |-> MaxId({o.id : o \in R}), vals |-> {ValRec(O, o) : o \in R}]

-----------------------------------------------------------------------------
(* Sequences: RGA *)
Inserts(O, obj) == {o \in O : o.obj = obj /\ o.insert}

RECURSIVE Walk(_, _, _)
Walk(O, obj, ref) ==
  LET kids == DescSeq({o.id : o \in {p \in Inserts(O, obj) : p.elem = ref}})
  IN  FlattenSeq([i \in 1..Len(kids) |-> <<kids[i]>> \o Walk(O, obj, kids[i])])

(* all element ids (including mark anchors) in document order *)
RGA(O, obj) == Walk(O, obj, HEAD)

(* the visible ops of element e: its insert op and the updates keyed on it *)
ElemReg(O, obj, e) ==
  {o \in O : /\ o.obj = obj /\ ~o.ismap
             /\ ((o.insert /\ o.id = e) \/ (~o.insert /\ o.elem = e))
             /\ Visible(O, o)}

VisibleElems(O, obj) == SelectSeq(RGA(O, obj), LAMBDA e : ElemReg(O, obj, e) # {})

-----------------------------------------------------------------------------
(* Text widths.  Tokens are names of code points; the table below is the    *)
(* specification's own definition of width per encoding.                    *)
TokU8(t) ==
  CASE t \in {"eacute", "cacute"} -> 2
    [] t \in {"euro", "zwj", "vs16", "objrepl"} -> 3
    [] t \in {"grin", "woman", "laptop"} -> 4
    [] OTHER -> 1
TokU16(t) == IF t \in {"grin", "woman", "laptop"} THEN 2 ELSE 1
IsExtend(t) == t \in {"cacute", "vs16", "zwj"}
IsPict(t) == t \in {"grin", "woman", "laptop"}

RECURSIVE SumSeq(_)
SumSeq(s) == IF s = <<>> THEN 0 ELSE Head(s) + SumSeq(Tail(s))

(* UAX #29 restricted to the alphabet: GB9 (x Extend|ZWJ), GB11 (Pict Extend* ZWJ x Pict) *)
RECURSIVE PictBefore(_, _)
PictBefore(toks, i) ==   \* is toks[1..i] of the form ... Pict Extend* (ending at i)
  IF i = 0 THEN FALSE
  ELSE IF IsPict(toks[i]) THEN TRUE
  ELSE IF toks[i] \in {"cacute", "vs16"} THEN PictBefore(toks, i - 1)
  ELSE FALSE
NoBreakBefore(toks, i) ==   \* no cluster boundary between toks[i-1] and toks[i]
  /\ i > 1
  /\ \/ IsExtend(toks[i])
     \/ (IsPict(toks[i]) /\ toks[i-1] = "zwj" /\ PictBefore(toks, i - 2))
Clusters(toks) == Cardinality({i \in DOMAIN toks : ~NoBreakBefore(toks, i)})

Width(enc, toks) ==
  CASE enc = "cp" -> Len(toks)
    [] enc = "u8" -> SumSeq([i \in DOMAIN toks |-> TokU8(toks[i])])
    [] enc = "u16" -> SumSeq([i \in DOMAIN toks |-> TokU16(toks[i])])
    [] enc = "gr" -> Clusters(toks)

(* how an element renders in text(): the winner's string, or U+FFFC *)
ElemToks(O, obj, e) ==
  LET R == ElemReg(O, obj, e)
      w == CHOOSE o \in R : o.id = MaxId({p.id : p \in R})
  IN  IF w.act = "set" /\ w.val.k = "str" THEN w.val.toks ELSE <<"objrepl">>

ElemWidth(O, obj, e, enc) == Width(enc, ElemToks(O, obj, e))


-----------------------------------------------------------------------------
(* Objects *)
MakeOp(O, id) == CHOOSE o \in O : o.id = id
ObjTypeOf(O, id) == IF id = ROOT THEN "map" ELSE MakeOp(O, id).val.s

(* children (visible make ops) of an object *)
ChildIds(O, obj) == {o.id : o \in {p \in O : p.obj = obj /\ p.act = "make" /\ Visible(O, p)}}

RECURSIVE ReachR(_, _, _)
ReachR(O, frontier, acc) ==
  IF frontier = {} THEN acc
  ELSE LET nxt == UNION {ChildIds(O, x) : x \in frontier} \ acc
       IN  ReachR(O, nxt, acc \cup nxt)
Reachable(O) == ReachR(O, {ROOT}, {ROOT})

EmptyObj(id, ty) == [id |-> id, ty |-> ty, ents |-> {}, len |-> 0, elems |-> <<>>, text |-> <<>>]

ObjView(O, obj, enc) ==
  LET ty == ObjTypeOf(O, obj) IN
  IF ty \in {"map", "table"} THEN
     [EmptyObj(obj, ty) EXCEPT
        !.ents = {[k |-> k] @@ RegView(O, MapReg(O, obj, k)) : k \in MapKeys(O, obj)}]
  ELSE LET es == VisibleElems(O, obj)
           regs == [i \in DOMAIN es |-> RegView(O, ElemReg(O, obj, es[i]))]
       IN  IF ty = "list" THEN [EmptyObj(obj, ty) EXCEPT !.len = Len(es), !.elems = regs]
           ELSE [EmptyObj(obj, ty) EXCEPT
                   !.len = SumSeq([i \in DOMAIN es |-> ElemWidth(O, obj, es[i], enc)]),
                   !.elems = regs,
                   !.text = FlattenSeq([i \in DOMAIN es |-> ElemToks(O, obj, es[i])])]

(* The document: one record per object reachable from the root. *)
Interp(O, enc) == {ObjView(O, obj, enc) : obj \in Reachable(O)}

-----------------------------------------------------------------------------
(* Rich text (C24-C26): marks, spans, cursors.                              *)
(* A mark is a pair of zero-width insert ops: "mark" (begin; name, value,   *)
(* expand = expand-before) and "markend" whose id is the begin's id + 1     *)
(* (expand = expand-after).  Walking the RGA left to right a begin adds its *)
(* id to the active set and the matching end removes it.  At an element the *)
(* value of a name is the value of the greatest active id of that name; a   *)
(* null value means unmarked (Peritext).                                    *)
(* TLC re-evaluates a LET definition at every use inside quantifiers; binding the value with a  *)
(* quantifier over a singleton evaluates it once.                                                *)
Let1(e, F(_)) == CHOOSE r \in {F(x) : x \in {e}} : TRUE

OpById(O, id) == CHOOSE o \in O : o.id = id
HasOp(O, id) == \E o \in O : o.id = id
MarkStep(O, active, id) ==
  LET o == OpById(O, id) IN
  IF o.act = "mark" THEN active \cup {id}
  ELSE IF o.act = "markend" THEN active \ {<<id[1] - 1, id[2]>>}
  ELSE active

(* active sets at the visible elements, in document order *)
RECURSIVE MarkWalk(_, _, _, _, _)
MarkWalk(O, obj, rga, i, active) ==
  IF i > Len(rga) THEN <<>>
  ELSE LET a2 == MarkStep(O, active, rga[i]) IN
       IF ElemReg(O, obj, rga[i]) # {} THEN <<a2>> \o MarkWalk(O, obj, rga, i + 1, a2)
       ELSE MarkWalk(O, obj, rga, i + 1, a2)
ElemActive(O, obj) == MarkWalk(O, obj, RGA(O, obj), 1, {})

MarkVals(O, active) ==
  LET names == {OpById(O, b).mname : b \in active} IN
  {[name |-> n, v |-> OpById(O, MaxId({b \in active : OpById(O, b).mname = n})).val] : n \in names}
ShownMarks(O, active) == {m \in MarkVals(O, active) : m.v.k # "null"}

(* per visible element: the marks a reader sees *)
ElemMarks(O, obj) == Let1(ElemActive(O, obj), LAMBDA a : [i \in DOMAIN a |-> ShownMarks(O, a[i])])

SeqWidths(O, obj, enc) ==
  Let1(VisibleElems(O, obj), LAMBDA es :
       [i \in DOMAIN es |-> IF ObjTypeOf(O, obj) = "text" THEN ElemWidth(O, obj, es[i], enc) ELSE 1])

RECURSIVE Repeat(_, _)
Repeat(x, n) == IF n <= 0 THEN <<>> ELSE <<x>> \o Repeat(x, n - 1)

(* marks per unit index (0-based index u is entry u+1) *)
UnitMarks(O, obj, enc) ==
  Let1(ElemMarks(O, obj), LAMBDA em : Let1(SeqWidths(O, obj, enc), LAMBDA ws :
       FlattenSeq([i \in DOMAIN em |-> Repeat(em[i], ws[i])])))

(* marks(): maximal runs of units carrying the same (name, value) *)
MarkRuns(um) ==
  LET n == Len(um) IN
  {[name |-> m.name, v |-> m.v, s |-> r[1] - 1, e |-> r[2]] :
     <<r, m>> \in {<<r, m>> \in ((1..n) \X (1..n)) \X (UNION {um[i] : i \in 1..n}) :
                     /\ r[1] <= r[2]
                     /\ \A j \in r[1]..r[2] : m \in um[j]
                     /\ (r[1] = 1 \/ m \notin um[r[1] - 1])
                     /\ (r[2] = n \/ m \notin um[r[2] + 1])}}
MarksList(O, obj, enc) == MarkRuns(UnitMarks(O, obj, enc))

(* spans(), flattened to one entry per code point so that how runs are cut does not matter *)
ElemIsBlock(O, obj, e) ==
  LET R == ElemReg(O, obj, e)
      w == CHOOSE o \in R : o.id = MaxId({p.id : p \in R})
  IN  w.act = "make" /\ w.val.s = "map"
SpanCells(O, obj) ==
  Let1(VisibleElems(O, obj), LAMBDA es : Let1(ElemMarks(O, obj), LAMBDA em :
       FlattenSeq([i \in DOMAIN es |->
        IF ElemIsBlock(O, obj, es[i]) THEN <<[t |-> "block", tok |-> "objrepl", marks |-> {}]>>
        ELSE Let1(ElemToks(O, obj, es[i]), LAMBDA tk : [j \in DOMAIN tk |-> [t |-> "text", tok |-> tk[j], marks |-> em[i]]])])))

(* ---- cursors ---- *)
ElemOfOp(O, id) == LET o == OpById(O, id) IN IF o.insert THEN o.id ELSE o.elem
(* sum of the widths of the visible elements strictly before element e in document order *)
IndexBefore(O, obj, enc, e) ==
  Let1(RGA(O, obj), LAMBDA rga :
    Let1(CHOOSE i \in DOMAIN rga : rga[i] = e, LAMBDA p :
      Let1({i \in 1..(p - 1) : ElemReg(O, obj, rga[i]) # {}}, LAMBDA vis :
        IF ObjTypeOf(O, obj) = "text"
        THEN SumSeq([k \in 1..(p - 1) |-> IF k \in vis THEN ElemWidth(O, obj, rga[k], enc) ELSE 0])
        ELSE Cardinality(vis))))
RECURSIVE BeforeWalk(_, _, _, _)
BeforeWalk(O, obj, enc, e) ==
  IF e = HEAD THEN 0
  ELSE IF ElemReg(O, obj, e) # {} THEN IndexBefore(O, obj, enc, e)
  ELSE BeforeWalk(O, obj, enc, OpById(O, e).elem)
(* mode "a": After, "b": Before; -1 = the cursor names nothing in this object *)
CursorPos(O, obj, enc, id, mode) ==
  IF ~(\E o \in O : o.id = id /\ o.obj = obj /\ ~o.ismap) THEN -1
  ELSE LET e == ElemOfOp(O, id) IN
       IF mode = "a" \/ ElemReg(O, obj, e) # {} THEN IndexBefore(O, obj, enc, e)
       ELSE BeforeWalk(O, obj, enc, OpById(O, e).elem)

(* the element covering unit index u (0-based), and whether u is its first unit *)
RECURSIVE ElemAtUnit(_, _, _)
ElemAtUnit(ws, u, i) ==   \* [i, start]
  IF i > Len(ws) THEN [i |-> 0, start |-> FALSE]
  ELSE IF u < ws[i] THEN [i |-> i, start |-> u = 0]
  ELSE ElemAtUnit(ws, u - ws[i], i + 1)

(* ---- expand rule (C25) -------------------------------------------------- *)
(* X: a new insert op keyed on ref in obj; Ob: the ops before.  The gap is   *)
(* the stretch of the RGA between the visible elements around ref.  Each     *)
(* mark anchor in the gap whose partner lies outside the gap constrains the  *)
(* side the new element must be on.                                          *)
ExpandHolds(Ob, obj, ref) ==
  \A rga \in {RGA(Ob, obj)} :
  \A vis \in {{i \in DOMAIN rga : ElemReg(Ob, obj, rga[i]) # {}}} :
  \A acts \in {[i \in DOMAIN rga |-> OpById(Ob, rga[i])]} :
  LET n == Len(rga)
      p == IF ref = HEAD THEN 0 ELSE CHOOSE i \in 1..n : rga[i] = ref
      lo == IF \E i \in 1..p : i \in vis THEN Max({i \in 1..p : i \in vis}) ELSE 0
      hi == IF \E i \in (p + 1)..n : i \in vis THEN Min({i \in (p + 1)..n : i \in vis}) ELSE n + 1
      gap == (lo + 1)..(hi - 1)
      posOf(id) == IF \E i \in 1..n : rga[i] = id THEN CHOOSE i \in 1..n : rga[i] = id ELSE 0
      isB(q) == acts[q].act = "mark"
      isE(q) == acts[q].act = "markend"
      partner(q) == IF isB(q) THEN posOf(<<rga[q][1] + 1, rga[q][2]>>) ELSE posOf(<<rga[q][1] - 1, rga[q][2]>>)
      \* an unmark (a mark with a null value) only matters where a mark of the same name with a value spans the
      \* whole gap: elsewhere "covered by the unmark" and "not covered" both read as unmarked (not observable)
      beginOf(q) == IF isB(q) THEN acts[q] ELSE OpById(Ob, <<rga[q][1] - 1, rga[q][2]>>)
      isNull(q) == beginOf(q).val.k = "null"
      spannedByValue(q) ==
        \E b \in 1..n : /\ acts[b].act = "mark" /\ acts[b].mname = beginOf(q).mname /\ acts[b].val.k # "null"
                         /\ b <= lo /\ posOf(<<rga[b][1] + 1, rga[b][2]>>) >= hi
      anchors == {q \in gap : (isB(q) \/ isE(q)) /\ partner(q) \notin gap /\ (isNull(q) => spannedByValue(q))}
      mustBefore == {q \in anchors : (isB(q) /\ acts[q].expand) \/ (isE(q) /\ ~acts[q].expand)}
      mustAfter == anchors \ mustBefore
      satisfiable == \A a \in mustBefore : \A b \in mustAfter : a < b
  IN  satisfiable => (\A q \in mustBefore : q <= p) /\ (\A q \in mustAfter : q > p)

-----------------------------------------------------------------------------
(* Normalisation of the logged projection (JSON arrays -> sets where order  *)
(* carries no meaning) into the same shape.                                  *)
NormReg(r) == [win |-> r.win, vals |-> ToSet(r.vals)]

(* for text the harness logs one register per unit index; keep those at element starts *)
RECURSIVE Starts(_, _, _)
Starts(units, widths, pos) ==
  IF widths = <<>> THEN <<>>
  ELSE <<NormReg(units[pos + 1])>> \o Starts(units, Tail(widths), pos + Head(widths))

NormObj(o, widthsOf(_)) ==
  IF o.ty \in {"map", "table"} THEN
     \* keys() must list every key once: a duplicate makes the object differ from any interpretation
     IF Cardinality({o.ents[i].k : i \in DOMAIN o.ents}) # Len(o.ents)
     THEN [EmptyObj(o.id, o.ty) EXCEPT !.text = <<"duplicate-keys">>]
     ELSE [EmptyObj(o.id, o.ty) EXCEPT !.ents = {[k |-> e.k] @@ NormReg(e) : e \in ToSet(o.ents)}]
  ELSE IF o.ty = "list" THEN
     [EmptyObj(o.id, o.ty) EXCEPT !.len = o.len, !.elems = [i \in DOMAIN o.elems |-> NormReg(o.elems[i])]]
  ELSE LET ws == widthsOf(o.id) IN
     [EmptyObj(o.id, o.ty) EXCEPT !.len = o.len, !.text = o.text,
         !.elems = IF SumSeq(ws) = o.len /\ Len(o.units) = o.len THEN Starts(o.units, ws, 0) ELSE <<"bad-length">>]

=============================================================================
