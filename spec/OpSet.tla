------------------------------- MODULE OpSet -------------------------------
(***************************************************************************)
(* The interpretation of a set of operations: the op-based CRDT reading of *)
(* a history (C02).  Written from the property statement:                  *)
(*  - every map key and list element is a multi-value register whose       *)
(*    values are the ops not named as predecessor by a later delete,       *)
(*    overwrite or non-counter increment; greatest (counter, actor) wins;  *)
(*  - list/text order is RGA: each insert is a child of the element it was *)
(*    inserted after, siblings in descending id order, depth first;        *)
(*  - a counter reads as its initial value plus every increment naming it. *)
(*                                                                         *)
(* An op is a record                                                       *)
(*   [id, obj, ismap, key, elem, insert, act, val, pred, mname, expand]    *)
(* ids/obj/elem are <<counter, actor>> pairs, ROOT = HEAD = <<0,0>>,       *)
(* act \in {"set","make","del","inc","mark","markend"}, val is a record    *)
(* [k, s, n, toks], pred is a set of ids.                                  *)
(***************************************************************************)
EXTENDS Naturals, Integers, Sequences, FiniteSets, TLC, FiniteSetsExt, SequencesExt, Functions

ROOT == <<0, 0>>
HEAD == <<0, 0>>
NOID == <<-1, -1>>

IdLess(a, b) == a[1] < b[1] \/ (a[1] = b[1] /\ a[2] < b[2])
IdLeq(a, b) == a = b \/ IdLess(a, b)
MaxId(S) == CHOOSE x \in S : \A y \in S : IdLeq(y, x)

(* ids of a set, as a sequence in descending order *)
RECURSIVE DescSeq(_)
DescSeq(S) == IF S = {} THEN <<>> ELSE LET m == MaxId(S) IN <<m>> \o DescSeq(S \ {m})

-----------------------------------------------------------------------------
Succ(O, o) == {p \in O : o.id \in p.pred}
IsCtr(o) == o.act = "set" /\ o.val.k = "counter"
(* an increment of a non-counter acts as an overwrite *)
Overwrites(p, o) == ~(p.act = "inc" /\ IsCtr(o))
Visible(O, o) == /\ o.act \in {"set", "make"}
                 /\ \A p \in Succ(O, o) : ~Overwrites(p, o)

RECURSIVE SumN(_)
SumN(S) == IF S = {} THEN 0 ELSE LET p == CHOOSE x \in S : TRUE IN p.val.n + SumN(S \ {p})

CtrValue(O, o) == o.val.n + SumN({p \in Succ(O, o) : p.act = "inc"})

(* the value a visible op shows *)
Shown(O, o) == IF IsCtr(o) THEN [k |-> "counter", s |-> o.val.s, n |-> CtrValue(O, o), toks |-> <<>>]
               ELSE o.val

ValRec(O, o) == [id |-> o.id, v |-> Shown(O, o)]

-----------------------------------------------------------------------------
(* Maps *)
MapOps(O, obj) == {o \in O : o.obj = obj /\ o.ismap}
MapKeys(O, obj) == {o.key : o \in {p \in MapOps(O, obj) : Visible(O, p)}}
MapReg(O, obj, k) == {o \in MapOps(O, obj) : o.key = k /\ Visible(O, o)}

RegView(O, R) == [win |-> MaxId({o.id : o \in R}), vals |-> {ValRec(O, o) : o \in R}]

-----------------------------------------------------------------------------
(* Sequences: RGA *)
Inserts(O, obj) == {o \in O : o.obj = obj /\ o.insert}

RECURSIVE Walk(_, _, _)
Walk(O, obj, ref) ==
  LET kids == DescSeq({o.id : o \in {p \in Inserts(O, obj) : p.elem = ref}})
  IN  FlattenSeq([i \in 1..Len(kids) |-> <<kids[i]>> \o Walk(O, obj, kids[i])])

(* all element ids (including mark anchors) in document order *)
RGA(O, obj) == Walk(O, obj, HEAD)

(* the visible ops of element e: its insert op and the updates keyed on it *)
ElemReg(O, obj, e) ==
  {o \in O : /\ o.obj = obj /\ ~o.ismap
             /\ ((o.insert /\ o.id = e) \/ (~o.insert /\ o.elem = e))
             /\ Visible(O, o)}

VisibleElems(O, obj) == SelectSeq(RGA(O, obj), LAMBDA e : ElemReg(O, obj, e) # {})

-----------------------------------------------------------------------------
(* Text widths.  Tokens are names of code points; the table below is the    *)
(* specification's own definition of width per encoding.                    *)
TokU8(t) ==
  CASE t \in {"eacute", "cacute"} -> 2
    [] t \in {"euro", "zwj", "vs16", "objrepl"} -> 3
    [] t \in {"grin", "woman", "laptop"} -> 4
    [] OTHER -> 1
TokU16(t) == IF t \in {"grin", "woman", "laptop"} THEN 2 ELSE 1
IsExtend(t) == t \in {"cacute", "vs16", "zwj"}
IsPict(t) == t \in {"grin", "woman", "laptop"}

RECURSIVE SumSeq(_)
SumSeq(s) == IF s = <<>> THEN 0 ELSE Head(s) + SumSeq(Tail(s))

(* UAX #29 restricted to the alphabet: GB9 (x Extend|ZWJ), GB11 (Pict Extend* ZWJ x Pict) *)
RECURSIVE PictBefore(_, _)
PictBefore(toks, i) ==   \* is toks[1..i] of the form ... Pict Extend* (ending at i)
  IF i = 0 THEN FALSE
  ELSE IF IsPict(toks[i]) THEN TRUE
  ELSE IF toks[i] \in {"cacute", "vs16"} THEN PictBefore(toks, i - 1)
  ELSE FALSE
NoBreakBefore(toks, i) ==   \* no cluster boundary between toks[i-1] and toks[i]
  /\ i > 1
  /\ \/ IsExtend(toks[i])
     \/ (IsPict(toks[i]) /\ toks[i-1] = "zwj" /\ PictBefore(toks, i - 2))
Clusters(toks) == Cardinality({i \in DOMAIN toks : ~NoBreakBefore(toks, i)})

Width(enc, toks) ==
  CASE enc = "cp" -> Len(toks)
    [] enc = "u8" -> SumSeq([i \in DOMAIN toks |-> TokU8(toks[i])])
    [] enc = "u16" -> SumSeq([i \in DOMAIN toks |-> TokU16(toks[i])])
    [] enc = "gr" -> Clusters(toks)

(* how an element renders in text(): the winner's string, or U+FFFC *)
ElemToks(O, obj, e) ==
  LET R == ElemReg(O, obj, e)
      w == CHOOSE o \in R : o.id = MaxId({p.id : p \in R})
  IN  IF w.act = "set" /\ w.val.k = "str" THEN w.val.toks ELSE <<"objrepl">>

ElemWidth(O, obj, e, enc) == Width(enc, ElemToks(O, obj, e))

-----------------------------------------------------------------------------
(* Objects *)
MakeOp(O, id) == CHOOSE o \in O : o.id = id
ObjTypeOf(O, id) == IF id = ROOT THEN "map" ELSE MakeOp(O, id).val.s

(* children (visible make ops) of an object *)
ChildIds(O, obj) == {o.id : o \in {p \in O : p.obj = obj /\ p.act = "make" /\ Visible(O, p)}}

RECURSIVE ReachR(_, _, _)
ReachR(O, frontier, acc) ==
  IF frontier = {} THEN acc
  ELSE LET nxt == UNION {ChildIds(O, x) : x \in frontier} \ acc
       IN  ReachR(O, nxt, acc \cup nxt)
Reachable(O) == ReachR(O, {ROOT}, {ROOT})

EmptyObj(id, ty) == [id |-> id, ty |-> ty, ents |-> {}, len |-> 0, elems |-> <<>>, text |-> <<>>]

ObjView(O, obj, enc) ==
  LET ty == ObjTypeOf(O, obj) IN
  IF ty \in {"map", "table"} THEN
     [EmptyObj(obj, ty) EXCEPT
        !.ents = {[k |-> k] @@ RegView(O, MapReg(O, obj, k)) : k \in MapKeys(O, obj)}]
  ELSE LET es == VisibleElems(O, obj)
           regs == [i \in DOMAIN es |-> RegView(O, ElemReg(O, obj, es[i]))]
       IN  IF ty = "list" THEN [EmptyObj(obj, ty) EXCEPT !.len = Len(es), !.elems = regs]
           ELSE [EmptyObj(obj, ty) EXCEPT
                   !.len = SumSeq([i \in DOMAIN es |-> ElemWidth(O, obj, es[i], enc)]),
                   !.elems = regs,
                   !.text = FlattenSeq([i \in DOMAIN es |-> ElemToks(O, obj, es[i])])]

(* The document: one record per object reachable from the root. *)
Interp(O, enc) == {ObjView(O, obj, enc) : obj \in Reachable(O)}

-----------------------------------------------------------------------------
(* Normalisation of the logged projection (JSON arrays -> sets where order  *)
(* carries no meaning) into the same shape.                                  *)
NormReg(r) == [win |-> r.win, vals |-> ToSet(r.vals)]

(* for text the harness logs one register per unit index; keep those at element starts *)
RECURSIVE Starts(_, _, _)
Starts(units, widths, pos) ==
  IF widths = <<>> THEN <<>>
  ELSE <<NormReg(units[pos + 1])>> \o Starts(units, Tail(widths), pos + Head(widths))

NormObj(o, widthsOf(_)) ==
  IF o.ty \in {"map", "table"} THEN
     [EmptyObj(o.id, o.ty) EXCEPT !.ents = {[k |-> e.k] @@ NormReg(e) : e \in ToSet(o.ents)}]
  ELSE IF o.ty = "list" THEN
     [EmptyObj(o.id, o.ty) EXCEPT !.len = o.len, !.elems = [i \in DOMAIN o.elems |-> NormReg(o.elems[i])]]
  ELSE LET ws == widthsOf(o.id) IN
     [EmptyObj(o.id, o.ty) EXCEPT !.len = o.len, !.text = o.text,
         !.elems = IF SumSeq(ws) = o.len /\ Len(o.units) = o.len THEN Starts(o.units, ws, 0) ELSE <<"bad-length">>]

=============================================================================
