--------------------------- MODULE Trace_Storage ----------------------------
(***************************************************************************)
(* Trace specification for storage (C11 layout, C12, C13, C14): the file   *)
(* written by the real writer is described chunk by chunk in the log; the  *)
(* outcome of loading the whole file, of loading every byte prefix, of     *)
(* feeding pieces to a reader in any order and of every single-bit flip    *)
(* must be what Storage.tla predicts from that layout.                     *)
(***************************************************************************)
EXTENDS StorageOps, Json, IOUtils, TLCExt

CONSTANT CHECKS

Rec == ndJsonDeserialize(IOEnv.TRACE)

VARIABLES l, ch, chunks, pieces, seen, wsaved, rapplied, rqueue
tvars == <<l, ch, chunks, pieces, seen, wsaved, rapplied, rqueue>>

On(p) == p \in CHECKS
Chk(p, name, cond) ==
  IF ~On(p) \/ cond THEN TRUE
  ELSE PrintT(<<"CHECKFAIL", p, name, l>>) /\ FALSE
ChkX(p, name, x, cond) ==
  IF ~On(p) \/ cond THEN TRUE
  ELSE PrintT(<<"CHECKFAIL", p, name, l>>) /\ PrintT(<<"DETAIL", x>>) /\ FALSE

E == Rec[l]
S(seq) == ToSet(seq)

DefRec(d) == [actor |-> d.actor, seq |-> d.seq, startOp |-> d.startOp, nops |-> d.nops, deps |-> S(d.deps)]
ChunkRec(c) == [kind |-> c.kind, changes |-> S(c.changes), len |-> c.len]

See(tab, o) == IF "vd" \in DOMAIN o THEN (S(o.applied) :> o.vd) @@ tab ELSE tab

IsEv(k) == l <= Len(Rec) /\ E.ev = k /\ l' = l + 1

Reset ==
  /\ IsEv("reset")
  /\ ch' = <<>> /\ chunks' = <<>> /\ pieces' = <<>> /\ seen' = <<>> /\ wsaved' = {}
  /\ rapplied' = {} /\ rqueue' = {}

Commit ==
  /\ IsEv("commit")
  /\ ch' = IF E.hash = "" THEN ch ELSE (E.hash :> DefRec(E.def)) @@ ch
  /\ seen' = See(seen, E.obs)
  /\ UNCHANGED <<chunks, pieces, wsaved, rapplied, rqueue>>

Passive ==
  /\ l <= Len(Rec) /\ E.ev \in {"newrep", "merge", "deliver", "fork", "setactor", "saveload", "getchanges", "missing", "rollback"}
  /\ l' = l + 1
  /\ seen' = IF "obs" \in DOMAIN E THEN See(seen, E.obs) ELSE seen
  /\ UNCHANGED <<ch, chunks, pieces, wsaved, rapplied, rqueue>>

Piece ==
  /\ IsEv("piece")
  /\ LET cs == [i \in DOMAIN E.chunks |-> ChunkRec(E.chunks[i])]
         wa == S(E.w.applied)
         all == UNION {cs[i].changes : i \in DOMAIN cs}
     IN  /\ Chk("C11", "full-save-is-one-document-chunk-holding-every-change",
                E.kind = "full" => (Len(cs) >= 1 /\ cs[1].kind = "doc" /\ cs[1].changes = wa))
         /\ Chk("C12", "incremental-save-holds-exactly-the-changes-since-the-cursor",
                E.kind = "after" => (all = wa \ Anc(ch, S(E.since))
                                     /\ \A i \in DOMAIN cs : cs[i].kind = "chg" /\ Cardinality(cs[i].changes) = 1))
         /\ Chk("C12", "piece-length-is-sum-of-chunks", TotalLen(cs) = E.len)
         /\ chunks' = chunks \o cs
         /\ pieces' = Append(pieces, cs)
         /\ wsaved' = wa
         /\ seen' = See(seen, E.w)
  /\ UNCHANGED <<ch, rapplied, rqueue>>

SameDoc(o, r) == S(o.applied) = r.applied /\ S(o.queued) = r.queue /\ S(o.heads) = HeadsOf(ch, r.applied)
VdOK(o) == S(o.applied) \in DOMAIN seen => seen[S(o.applied)] = o.vd

Load ==
  /\ IsEv("load")
  /\ LET exp == LoadResult(ch, chunks, E.cut, E.mode = "strict") IN
     /\ Chk("C12", "whole-file-loads", E.res = "ok")
     /\ E.res = "ok" =>
          /\ Chk("C12", "concatenation-loads-to-the-writer-document", SameDoc(E, exp) /\ S(E.applied) = wsaved)
          /\ Chk("C12", "concatenation-shows-the-writer-state", VdOK(E))
  /\ UNCHANGED <<ch, chunks, pieces, seen, wsaved, rapplied, rqueue>>

(* outcome of loading the first cut bytes, from precomputed chunk end offsets and per-k results *)
ResAt(offs, byK, cut, strict) ==
  LET k == Cardinality({i \in DOMAIN offs : offs[i] <= cut})
      boundary == cut = 0 \/ \E i \in DOMAIN offs : offs[i] = cut
  IN  IF cut = 0 THEN [res |-> "ok", applied |-> {}, queue |-> {}]
      ELSE IF k = 0 THEN [res |-> "err", applied |-> {}, queue |-> {}]
      ELSE IF strict /\ ~boundary THEN [res |-> "err", applied |-> {}, queue |-> {}]
      ELSE [res |-> "ok", applied |-> byK[k].applied, queue |-> byK[k].queue]

CutOK(c, offs, byK) ==
  LET p == ResAt(offs, byK, c.c, FALSE)
      s == ResAt(offs, byK, c.c, TRUE)
      got == E.sets[c.pi]
  IN  /\ ChkX("C13", "no-panic", c, c.s # "panic" /\ c.p # "panic")
      /\ ChkX("C13", "strict-load-succeeds-only-at-chunk-boundaries", c, c.s = s.res)
      /\ ChkX("C13", "partial-load-result", c, c.p = p.res)
      /\ (c.p = "ok" /\ p.res = "ok") =>
            /\ ChkX("C13", "partial-load-gives-the-document-as-of-the-last-complete-chunk", c, SameDoc(got, p))
            /\ ChkX("C13", "partial-load-shows-that-document", c, VdOK(got))

Crash ==
  /\ IsEv("crash")
  /\ Chk("C13", "file-length", E.total = TotalLen(chunks))
  /\ LET offs == Offsets(chunks, 0)
         byK == [k \in 1..Len(chunks) |->
                   LET all == ChangesOf(chunks, k)
                       rdy == Ready(ch, {}, all)
                   IN  [applied |-> rdy, queue |-> all \ rdy]]
     IN  \* ResAt agrees with the specification's LoadResult (spot check at the end of the file)
         /\ ResAt(offs, byK, E.total, TRUE) = LoadResult(ch, chunks, E.total, TRUE)
         /\ \A i \in DOMAIN E.cuts : CutOK(E.cuts[i], offs, byK)
  /\ UNCHANGED <<ch, chunks, pieces, seen, wsaved, rapplied, rqueue>>

FeedStart ==
  /\ IsEv("feedstart")
  /\ LET cs == FlattenSeq([i \in 1..(E.upto + 1) |-> pieces[i]])
         exp == LoadResult(ch, cs, TotalLen(cs), TRUE)
     IN  /\ Chk("C12", "reader-start", SameDoc(E.d, exp))
         /\ rapplied' = S(E.d.applied) /\ rqueue' = S(E.d.queued)
  /\ UNCHANGED <<ch, chunks, pieces, seen, wsaved>>

RECURSIVE ChunkBatch(_)
ChunkBatch(cs) ==   \* the changes of a piece in file order (doc chunk: any order, its set is closed)
  IF cs = <<>> THEN <<>> ELSE SetToSeq(Head(cs).changes) \o ChunkBatch(Tail(cs))

Feed ==
  /\ IsEv("feed")
  /\ LET d == DeliverResult(ch, rapplied, rqueue, ChunkBatch(pieces[E.i + 1])) IN
     /\ Chk("C12", "feeding-a-piece-succeeds", E.res = "ok")
     /\ Chk("C12", "feeding-a-piece-delivers-its-changes",
            S(E.d.applied) = d.applied /\ S(E.d.queued) = d.queue /\ S(E.d.heads) = HeadsOf(ch, d.applied))
     /\ Chk("C12", "fed-reader-shows-the-same-state-as-any-replica-with-those-changes", VdOK(E.d))
     /\ rapplied' = S(E.d.applied) /\ rqueue' = S(E.d.queued)
  /\ UNCHANGED <<ch, chunks, pieces, seen, wsaved>>

Refeed ==
  /\ IsEv("refeed")
  /\ Chk("C12", "reader-became-equal-to-writer", S(E.before.applied) = wsaved /\ E.before.queued = <<>> /\ VdOK(E.before))
  /\ Chk("C12", "feeding-again-has-no-effect", E.before = E.after /\ E.sbefore = E.safter)
  /\ UNCHANGED <<ch, chunks, pieces, seen, wsaved, rapplied, rqueue>>

Flips ==
  /\ IsEv("flips")
  /\ ChkX("C14", "every-single-bit-flip-is-rejected", E.bad, E.bad = <<>>)
  /\ UNCHANGED <<ch, chunks, pieces, seen, wsaved, rapplied, rqueue>>

TInit == l = 1 /\ ch = <<>> /\ chunks = <<>> /\ pieces = <<>> /\ seen = <<>> /\ wsaved = {} /\ rapplied = {} /\ rqueue = {}
TNext == Reset \/ Commit \/ Passive \/ Piece \/ Load \/ Crash \/ FeedStart \/ Feed \/ Refeed \/ Flips
TSpec == TInit /\ [][TNext]_tvars

Accepted ==
  LET d == TLCGet("stats").diameter IN
  IF d - 1 = Len(Rec) THEN TRUE
  ELSE Print(<<"REJECTED", d, IF d <= Len(Rec) THEN Rec[d].ev ELSE "?">>, FALSE)
=============================================================================
