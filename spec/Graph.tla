------------------------------- MODULE Graph -------------------------------
(***************************************************************************)
(* Pure operators over a change DAG.  A change table `chg` is a function   *)
(* from change ids (abstract naturals in the MC instances, hash strings in *)
(* trace validation) to records                                            *)
(*    [actor, seq, startOp, nops, deps]                                    *)
(* where deps is a set of change ids (possibly not in DOMAIN chg: a queued *)
(* change may name a dependency nobody has seen yet).                      *)
(*                                                                         *)
(* Everything the specification says about causality (heads, readiness,    *)
(* missing dependencies, duplicate sequence numbers, local-commit          *)
(* metadata) is defined here once and used both by the state machine       *)
(* ChangeGraph.tla and by the trace specifications.                        *)
(*                                                                         *)
(* Anchors: automerge.rs transaction_args / isolate_actor /                *)
(* missing_deps_from, op_set2/change/batch.rs apply_changes_batch,         *)
(* change_queue.rs.                                                        *)
(***************************************************************************)
EXTENDS Naturals, Sequences, FiniteSets, TLC, FiniteSetsExt, SequencesExt

Known(chg, S) == S \cap DOMAIN chg

DepsOf(chg, c) == IF c \in DOMAIN chg THEN chg[c].deps ELSE {}

(* All ancestors of S (S included) that are in the table. *)
RECURSIVE AncR(_, _, _)
AncR(chg, frontier, acc) ==
  IF frontier = {} THEN acc
  ELSE LET nxt == UNION {DepsOf(chg, c) : c \in frontier} \ acc
       IN  AncR(chg, nxt, acc \cup nxt)
Anc(chg, S) == AncR(chg, S, S)

(* Heads: applied changes no other applied change depends on. *)
HeadsOf(chg, A) == {c \in A : \A d \in A : c \notin chg[d].deps}

MaxS(S) == IF S = {} THEN 0 ELSE Max(S)

(* Largest op counter among applied changes. *)
MaxOp(chg, A) == MaxS({chg[c].startOp + chg[c].nops - 1 : c \in A})

(* Highest sequence number of actor a among A. *)
ActorSeq(chg, A, a) == MaxS({chg[c].seq : c \in {d \in A : chg[d].actor = a}})

LastOf(chg, A, a) == {c \in A : chg[c].actor = a /\ chg[c].seq = ActorSeq(chg, A, a)}

(* Highest op counter of actor a among A (0 if none). *)
MaxOpOfActor(chg, A, a) ==
  MaxS({chg[c].startOp + chg[c].nops - 1 : c \in {d \in A : chg[d].actor = a}})

CausallyClosed(chg, A) == \A c \in A : chg[c].deps \subseteq A

(* The changes of pool Q that can be applied on top of A (in some order):  *)
(* least fixpoint of "all deps applied or already released".               *)
RECURSIVE ReadyR(_, _, _, _)
ReadyR(chg, A, Q, R) ==
  LET more == {c \in Q \ R : chg[c].deps \subseteq (A \cup R)}
  IN  IF more = {} THEN R ELSE ReadyR(chg, A, Q, R \cup more)
Ready(chg, A, Q) == ReadyR(chg, A, Q, {})

(* get_missing_deps(hs): walk back from the queued changes and hs through  *)
(* queued changes; report what is neither applied nor queued.              *)
RECURSIVE MissingR(_, _, _, _, _, _)
MissingR(chg, A, Q, frontier, seen, miss) ==
  IF frontier = {} THEN miss
  ELSE LET fresh == (frontier \ A) \ seen
           viaQ  == fresh \cap Q
           gone  == fresh \ Q
           nxt   == UNION {chg[c].deps : c \in viaQ}
       IN  MissingR(chg, A, Q, nxt, seen \cup fresh, miss \cup gone)
Missing(chg, A, Q, hs) == MissingR(chg, A, Q, Q \cup hs, {}, {})
(* the same walk started from the given hashes only (sync: what is needed to reach the peer's heads) *)
MissingFrom(chg, A, Q, start) == MissingR(chg, A, Q, start, {}, {})

(* remove_actor_branch_from: queued changes of actor a with seq >= s and   *)
(* everything queued that transitively depends on them.                    *)
RECURSIVE DependentsR(_, _, _)
DependentsR(chg, Q, R) ==
  LET more == {c \in Q \ R : chg[c].deps \cap R # {}}
  IN  IF more = {} THEN R ELSE DependentsR(chg, Q, R \cup more)
PruneBranch(chg, Q, a, s) ==
  Q \ DependentsR(chg, Q, {c \in Q : chg[c].actor = a /\ chg[c].seq >= s})

-----------------------------------------------------------------------------
(* Delivery of a batch B (a sequence of change ids, duplicates allowed).   *)
(* Result: [res, applied, queue].  Mirrors apply_changes_batch_log_patches:*)
(*  - changes already applied or queued are skipped;                       *)
(*  - scanning in batch order, the first change whose (actor, seq) is      *)
(*    already applied  => error, queued branch of that actor from seq+1    *)
(*    pruned (named deviation F9: a failing call that changes the queue);  *)
(*    already queued or earlier in this batch => error, nothing changes;   *)
(*  - otherwise queue := queue + batch, the ready part is applied.         *)
Fresh(A, Q, B) == SelectSeq(B, LAMBDA c : c \notin A /\ c \notin Q)

DupApplied(chg, A, c) == ActorSeq(chg, A, chg[c].actor) >= chg[c].seq
DupQueued(chg, Q, c)  == \E d \in Q : d # c /\ chg[d].actor = chg[c].actor /\ chg[d].seq = chg[c].seq
DupInBatch(chg, F, i) == \E j \in 1..(i-1) : F[j] # F[i] /\ chg[F[j]].actor = chg[F[i]].actor
                                             /\ chg[F[j]].seq = chg[F[i]].seq

Offends(chg, A, Q, F, i) == DupApplied(chg, A, F[i]) \/ DupQueued(chg, Q, F[i]) \/ DupInBatch(chg, F, i)

DeliverResult(chg, A, Q, B) ==
  LET F   == Fresh(A, Q, B)
      bad == {i \in DOMAIN F : Offends(chg, A, Q, F, i)}
  IN  IF bad # {}
      THEN LET i == Min(bad) IN
           IF DupApplied(chg, A, F[i])
           THEN [res |-> "err", applied |-> A,
                 queue |-> PruneBranch(chg, Q, chg[F[i]].actor, chg[F[i]].seq + 1)]
           ELSE [res |-> "err", applied |-> A, queue |-> Q]
      ELSE LET pool == Q \cup ToSet(F)
               rdy  == Ready(chg, A, pool)
           IN  [res |-> "ok", applied |-> A \cup rdy, queue |-> pool \ rdy]

-----------------------------------------------------------------------------
(* Metadata a locally created change must carry (transaction_args).        *)
(* iso = {} for an ordinary transaction; iso = <<H>> (a 1-tuple holding    *)
(* the isolation heads) for an isolated one.  `a` is the actor the         *)
(* document ends up using (for isolation: see IsolatedActorOk).            *)
CommitMeta(chg, A, a, iso) ==
  LET hs == IF iso = <<>> THEN HeadsOf(chg, A) ELSE iso[1]
      prev == IF iso = <<>> THEN LastOf(chg, A, a) ELSE {}
  IN  [seq     |-> ActorSeq(chg, A, a) + 1,
       startOp |-> MaxOp(chg, A) + 1,
       deps    |-> hs \cup prev]

(* isolate_actor: the first of base, base(1), base(2), ... whose every     *)
(* change is an ancestor of the isolation heads.  `cands` is that sequence *)
(* of candidate actors; the chosen actor is the first acceptable one.      *)
ActorCoveredBy(chg, A, a, H) ==
  {c \in A : chg[c].actor = a} \subseteq Anc(chg, H)
IsolatedActor(chg, A, cands, H) ==
  cands[Min({i \in DOMAIN cands : ActorCoveredBy(chg, A, cands[i], H)})]

=============================================================================
