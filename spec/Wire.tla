-------------------------------- MODULE Wire --------------------------------
(***************************************************************************)
(* Small wire formats as field vectors (C23, C15, C17).                    *)
(*                                                                         *)
(* Bloom filter bytes (sync/bloom.rs): three unsigned LEB128 fields        *)
(*   numEntries, numBitsPerEntry, numProbes                                *)
(* followed by ceil(numEntries * numBitsPerEntry / 8) bytes of bits; the   *)
(* empty input is the empty filter.  Field values are symbolic tokens (TLC *)
(* integers are 32 bit): small numerals, "max32" = 2^32-1, "over32" = 2^32 *)
(* (does not fit the u32 the parser reads).  The harness expands tokens,   *)
(* builds the bytes and runs BloomFilter::try_from and contains_hash.      *)
(*                                                                         *)
(* Accepts is the decision the parser is specified to take:                *)
(*   - each field fits a u32;                                              *)
(*   - the bits are all there;                                             *)
(*   - the probe count is bounded: at most 2^16 and at most one probe per  *)
(*     bit of the filter (a filter without bits has nothing to probe).     *)
(* For every accepted filter any query returns a boolean, within a budget  *)
(* that is linear in the input (checked by Trace_Wire on the replies).     *)
(***************************************************************************)
EXTENDS Naturals, Sequences, FiniteSets, TLC, Json, SequencesExt

Toks == {"0", "1", "2", "7", "8", "10", "300", "65536", "max32", "over32"}
Num(t) == CASE t = "0" -> 0 [] t = "1" -> 1 [] t = "2" -> 2 [] t = "7" -> 7 [] t = "8" -> 8
            [] t = "10" -> 10 [] t = "300" -> 300 [] t = "65536" -> 65536 [] OTHER -> 1000000
IsSmall(t) == t \in {"0", "1", "2", "7", "8", "10", "300"}
Over(t) == t = "over32"

(* capacity class of the bit array in bytes *)
CapClass(ne, bpe) ==
  IF (ne = "0" /\ ~Over(bpe)) \/ (bpe = "0" /\ ~Over(ne)) THEN "zero"
  ELSE IF IsSmall(ne) /\ IsSmall(bpe) THEN "small"
  ELSE "huge"
CapBytes(ne, bpe) == (Num(ne) * Num(bpe) + 7) \div 8      \* meaningful for "zero" / "small"

Avails == {"none", "exact", "long", "short", "some"}

(* what the harness is able to construct *)
Feasible(v) ==
  LET cc == CapClass(v.ne, v.bpe) IN
  CASE v.avail = "none" -> TRUE
    [] v.avail \in {"exact", "long"} -> cc \in {"zero", "small"}
    [] v.avail = "short" -> cc = "small"
    [] v.avail = "some" -> cc = "huge"

EnoughBytes(v) ==
  LET cc == CapClass(v.ne, v.bpe) IN
  CASE cc = "zero" -> TRUE
    [] cc = "small" -> v.avail \in {"exact", "long"}
    [] OTHER -> FALSE

ProbesOK(v) ==
  /\ v.np \notin {"max32", "over32"}
  /\ Num(v.np) <= 65536
  /\ (CapClass(v.ne, v.bpe) = "small" => Num(v.np) <= 8 * CapBytes(v.ne, v.bpe))

Accepts(v) ==
  /\ ~Over(v.ne) /\ ~Over(v.bpe) /\ ~Over(v.np)
  /\ EnoughBytes(v)
  /\ ProbesOK(v)

Vectors ==
  {v \in [ne : Toks, bpe : Toks, np : Toks, avail : Avails] : Feasible(v)}

WithVerdict(v) == [ne |-> v.ne, bpe |-> v.bpe, np |-> v.np, avail |-> v.avail,
                   accept |-> Accepts(v),
                   capzero |-> CapClass(v.ne, v.bpe) = "zero"]

(* a one-step "behaviour" whose only purpose is to hand the vectors to the harness *)
VARIABLE done
Init == done = FALSE
Next == /\ ~done /\ done' = TRUE
        /\ PrintT(<<"REPLAY", ToJson(SetToSeq({WithVerdict(v) : v \in Vectors}))>>)
Spec == Init /\ [][Next]_done

(* design-level sanity: acceptance never depends on bytes beyond the capacity, and a filter
   without bits is accepted only with a bounded probe count *)
AcceptMonotone ==
  \A v \in Vectors : \A w \in Vectors :
     (v.ne = w.ne /\ v.bpe = w.bpe /\ v.np = w.np /\ v.avail = "exact" /\ w.avail = "long") => (Accepts(v) = Accepts(w))
=============================================================================
