---------------------------- MODULE Trace_Graph ----------------------------
(***************************************************************************)
(* Trace specification for the change-graph layer (C04, C05, C38, C10,     *)
(* graph part of C06).  It consumes the ndjson log written by the harness  *)
(* (one event per public call, with arguments, result and the projected    *)
(* graph state: heads, applied, queued, missing) and demands that each     *)
(* event is the corresponding step of the specification in Graph.tla.      *)
(*                                                                         *)
(* CHECKS selects which property's predicates are enforced; predicates of  *)
(* other properties are "adopted" (state bound from the log) so that each  *)
(* run blames exactly one property.                                        *)
(***************************************************************************)
EXTENDS Graph, Json, IOUtils, TLCExt

CONSTANT CHECKS

Rec == ndJsonDeserialize(IOEnv.TRACE)

VARIABLES l, chg, applied, queue, actor, digests
vars == <<l, chg, applied, queue, actor, digests>>

On(p) == p \in CHECKS

(* A failed predicate prints which one and where, then blocks the step. *)
Chk(p, name, cond) ==
  IF ~On(p) \/ cond THEN TRUE
  ELSE PrintT(<<"CHECKFAIL", p, name, l>>) /\ FALSE

E == Rec[l]
S(seq) == ToSet(seq)

DefRec(d) == [actor |-> d.actor, seq |-> d.seq, startOp |-> d.startOp, nops |-> d.nops,
              deps |-> S(d.deps)]

(* Observation of replica r after the step, against the specification state. *)
ObsOK(r, A, Q, c) ==
  /\ Chk("C04", "heads-are-maximal-applied", S(E.obs.heads) = HeadsOf(c, A))
  /\ Chk("C05", "applied-set", S(E.obs.applied) = A)
  /\ Chk("C05", "queued-set", S(E.obs.queued) = Q)
  /\ Chk("C05", "missing-deps", S(E.obs.missing) = Missing(c, A, Q, {}))
  /\ Chk("C05", "held-not-in-heads", S(E.obs.heads) \cap Q = {})
  /\ Chk("C38", "unique-actor-seq",
         \A x \in S(E.obs.applied) \cup S(E.obs.queued) : \A y \in S(E.obs.applied) \cup S(E.obs.queued) :
            (x \in DOMAIN c /\ y \in DOMAIN c /\ x # y) =>
               ~(c[x].actor = c[y].actor /\ c[x].seq = c[y].seq))
  /\ Chk("C38", "seq-contiguous",
         \A x \in S(E.obs.applied) : x \in DOMAIN c =>
            (c[x].seq = 1 \/ \E y \in S(E.obs.applied) : y \in DOMAIN c /\ c[y].actor = c[x].actor /\ c[y].seq + 1 = c[x].seq))

(* Bind the state from the log (adopt), whatever the spec predicted. *)
Adopt(r) ==
  /\ applied' = (r :> S(E.obs.applied)) @@ applied
  /\ queue'   = (r :> S(E.obs.queued)) @@ queue

IsEv(k) == l <= Len(Rec) /\ E.ev = k /\ l' = l + 1

Reset ==
  /\ IsEv("reset")
  /\ chg' = <<>> /\ applied' = <<>> /\ queue' = <<>> /\ actor' = <<>> /\ digests' = <<>>

NewRep ==
  /\ IsEv("newrep")
  /\ ObsOK(E.r, {}, {}, chg)
  /\ Adopt(E.r)
  /\ actor' = (E.r :> E.actor) @@ actor
  /\ UNCHANGED <<chg, digests>>

(* actor numbers: bytes below 0x20 are themselves and their isolation actors 256*level + byte sort
   after them; bytes from 0x20 on are 100000 + byte and their isolation actors 256*level + byte sort
   before them (harness/src/enc.rs actor_num) *)
IsoBase(a) == IF a >= 100000 THEN a - 100000 ELSE a
IsoCands(a) == <<a, 256 + IsoBase(a), 512 + IsoBase(a), 768 + IsoBase(a), 1024 + IsoBase(a)>>

Commit ==
  /\ IsEv("commit")
  /\ E.res = "ok"
  /\ LET r    == E.r
         A    == applied[r]
         iso  == IF Len(E.iso) = 0 THEN <<>> ELSE <<S(E.iso[1])>>
         a    == IF iso = <<>> THEN actor[r] ELSE IsolatedActor(chg, A, IsoCands(actor[r]), iso[1])
         m    == CommitMeta(chg, A, a, iso)
         Qp   == PruneBranch(chg, queue[r], a, m.seq)
     IN  IF E.hash = ""
         THEN /\ ObsOK(r, A, Qp, chg)
              /\ Chk("C04", "no-change-without-ops", E.pending = 0)
              /\ Adopt(r)
              /\ UNCHANGED <<chg, actor, digests>>
         ELSE LET d == E.def
                  h == E.hash
                  c2 == (h :> DefRec(d)) @@ chg
              IN  /\ Chk("C04", "change-actor", iso = <<>> => d.actor = a)
                  /\ Chk("C29", "isolated-actor-continues-its-own-history", iso # <<>> => d.actor = a)
                  /\ Chk("C04", "next-seq", d.seq = m.seq)
                  /\ Chk("C04", "start-op-above-all-applied", d.startOp = m.startOp)
                  /\ Chk("C04", "deps-are-heads-plus-own-previous", S(d.deps) = m.deps)
                  /\ Chk("C04", "op-count", d.nops = E.pending)
                  /\ Chk("C29", "isolated-change-depends-only-on-the-isolation-heads",
                         iso # <<>> => S(d.deps) = iso[1])
                  /\ Chk("C38", "fresh-actor-seq",
                         \A x \in A \cup Qp : ~(chg[x].actor = d.actor /\ chg[x].seq = d.seq))
                  \* content addressing: a hash seen before names the same change (two replicas that share an actor id
                  \* can commit byte-identical changes) - it is never reused for a different one
                  /\ Chk("C10", "hash-is-new-or-names-the-same-change",
                         h \in DOMAIN chg => (chg[h] = DefRec(d) /\ digests[h] = d.digest /\ h \notin A))
                  /\ ObsOK(r, A \cup {h}, Qp, c2)
                  /\ chg' = c2
                  /\ digests' = (h :> d.digest) @@ digests
                  /\ Adopt(r)
                  /\ UNCHANGED actor

(* one call per change, stopping at the first failure; preA/preQ = the state entering the last call *)
RECURSIVE DeliverEach(_, _, _, _)
DeliverEach(c, A, Q, B) ==
  IF B = <<>> THEN [res |-> "ok", applied |-> A, queue |-> Q, preA |-> A, preQ |-> Q]
  ELSE LET one == DeliverResult(c, A, Q, <<Head(B)>>)
       IN  IF one.res = "err" THEN [res |-> "err", applied |-> one.applied, queue |-> one.queue, preA |-> A, preQ |-> Q]
           ELSE DeliverEach(c, one.applied, one.queue, Tail(B))

ResClass(s) == IF s = "ok" THEN "ok" ELSE IF Len(s) >= 4 /\ SubSeq(s, 1, 4) = "err:" THEN "err" ELSE "panic"

Deliver ==
  /\ IsEv("deliver")
  /\ LET r == E.r
         d == IF E.via = "each" THEN DeliverEach(chg, applied[r], queue[r], E.batch)
              ELSE DeliverResult(chg, applied[r], queue[r], E.batch) @@ [preA |-> applied[r], preQ |-> queue[r]]
     IN  /\ Chk("C38", "duplicate-seq-rejected", d.res = "err" => ResClass(E.res) = "err")
         /\ Chk("C05", "delivery-result", ResClass(E.res) = d.res)
         \* C06: a failing call leaves the document as it was when the call was made
         /\ Chk("C06", "error-leaves-applied", ResClass(E.res) = "err" => S(E.obs.applied) = d.preA)
         \* the named deviation (KNOWN_FINDINGS: the rejected actor's queued branch is pruned) touches nothing
         \* else; evaluated first, so that a failure of "error-leaves-queue" alone means exactly that deviation
         /\ Chk("C06", "error-prunes-at-most-the-rejected-actors-branch",
                ResClass(E.res) = "err" => S(E.obs.queued) = d.queue)
         /\ Chk("C06", "error-leaves-queue", ResClass(E.res) = "err" => S(E.obs.queued) = d.preQ)
         /\ ObsOK(r, d.applied, d.queue, chg)
         /\ Adopt(r)
         /\ UNCHANGED <<chg, actor, digests>>

Merge ==
  /\ IsEv("merge")
  /\ LET r == E.r
         s == E.from
         d == DeliverResult(chg, applied[r], queue[r], E.added)
     IN  /\ Chk("C10", "changes-added-set", S(E.added) = applied[s] \ applied[r])
         /\ Chk("C05", "delivery-result", ResClass(E.res) = d.res)
         /\ Chk("C06", "error-leaves-applied", ResClass(E.res) = "err" => S(E.obs.applied) = applied[r])
         /\ Chk("C06", "error-prunes-at-most-the-rejected-actors-branch",
                ResClass(E.res) = "err" => S(E.obs.queued) = d.queue)
         /\ Chk("C06", "error-leaves-queue", ResClass(E.res) = "err" => S(E.obs.queued) = queue[r])
         /\ ObsOK(r, d.applied, d.queue, chg)
         /\ Adopt(r)
         /\ UNCHANGED <<chg, actor, digests>>

Fork ==
  /\ IsEv("fork")
  /\ ObsOK(E.r, applied[E.from], queue[E.from], chg)
  /\ Adopt(E.r)
  /\ actor' = (E.r :> E.actor) @@ actor
  /\ UNCHANGED <<chg, digests>>

ForkAt ==
  /\ IsEv("forkat")
  /\ LET H == S(E.heads) IN
     /\ Chk("C04", "forkat-heads", S(E.obs.heads) = H)
     /\ ObsOK(E.r, Anc(chg, H), {}, chg)
  /\ Adopt(E.r)
  /\ actor' = (E.r :> E.actor) @@ actor
  /\ UNCHANGED <<chg, digests>>

ForkAtErr ==
  /\ IsEv("forkat_err")
  /\ Chk("C04", "forkat-unknown-heads", ~(S(E.heads) \subseteq applied[E.r]))
  /\ ObsOK(E.r, applied[E.r], queue[E.r], chg)
  /\ UNCHANGED <<chg, applied, queue, actor, digests>>

SetActor ==
  /\ IsEv("setactor")
  /\ ObsOK(E.r, applied[E.r], queue[E.r], chg)
  /\ actor' = (E.r :> E.actor) @@ actor
  /\ UNCHANGED <<chg, applied, queue, digests>>

SaveLoad ==
  /\ IsEv("saveload")
  /\ Chk("C11", "save-loads", E.res = "ok")
  /\ Chk("C06", "document-still-saves-and-loads", E.res = "ok")
  /\ IF E.res = "ok"
     THEN /\ ObsOK(E.r, applied[E.r], IF E.retain THEN queue[E.r] ELSE {}, chg)
          /\ Chk("C11", "resave-identical", E.digest = E.redigest)
          /\ Adopt(E.r)
     ELSE UNCHANGED <<applied, queue>>
  /\ UNCHANGED <<chg, actor, digests>>

MissingProbe ==
  /\ IsEv("missing")
  /\ Chk("C05", "missing-deps-of-heads",
         S(E.result) = Missing(chg, applied[E.r], queue[E.r], S(E.hs)))
  /\ UNCHANGED <<chg, applied, queue, actor, digests>>

(* Retrieval of changes: C10.  have = set of hashes, got = list of [hash, digest]. *)
GetChanges ==
  /\ IsEv("getchanges")
  /\ LET r == E.r
         have == S(E.have) \cap applied[r]
         want == applied[r] \ Anc(chg, have)
         got  == E.got
     IN  /\ Chk("C10", "get-changes-set", {got[i].hash : i \in DOMAIN got} = want)
         /\ Chk("C10", "get-changes-no-dups", Cardinality({got[i].hash : i \in DOMAIN got}) = Len(got))
         /\ Chk("C10", "get-changes-after-deps",
                \A i \in DOMAIN got : \A j \in DOMAIN got :
                   (got[j].hash \in chg[got[i].hash].deps) => j < i)
         /\ Chk("C10", "bytes-immutable",
                \A i \in DOMAIN got : got[i].hash \in DOMAIN digests => digests[got[i].hash] = got[i].digest)
         /\ Chk("C10", "hash-is-sha256-of-chunk", \A i \in DOMAIN got : got[i].hashok)
         /\ Chk("C11", "change-bytes-survive-save-and-load",
                \A i \in DOMAIN got : got[i].hash \in DOMAIN digests => digests[got[i].hash] = got[i].digest)
         /\ Chk("C11", "changes-survive-save-and-load", {got[i].hash : i \in DOMAIN got} = want)
  /\ UNCHANGED <<chg, applied, queue, actor, digests>>

ChgDef ==
  /\ IsEv("chgdef")
  /\ chg' = (E.def.hash :> DefRec(E.def)) @@ chg
  /\ digests' = (E.def.hash :> E.def.digest) @@ digests
  /\ UNCHANGED <<applied, queue, actor>>

(* C28: a rolled back transaction leaves no trace *)
Rollback ==
  /\ IsEv("rollback")
  /\ Chk("C28", "rollback-restores-heads-changes-queue", 
         E.before.heads = E.after.heads /\ E.before.applied = E.after.applied /\ E.before.queued = E.after.queued
         /\ E.before.missing = E.after.missing /\ E.before.actor = E.after.actor)
  /\ Chk("C28", "rollback-restores-state", E.before.vd = E.after.vd)
  /\ Chk("C28", "rollback-restores-saved-bytes", E.before.sd = E.after.sd)
  /\ Chk("C28", "next-change-is-byte-identical", E.next_a = E.next_c)
  /\ (E.front # "auto" /\ Len(E.iso) = 0) => ObsOK(E.r, applied[E.r],
                                  PruneBranch(chg, queue[E.r], actor[E.r], ActorSeq(chg, applied[E.r], actor[E.r]) + 1), chg)
  /\ IF E.front # "auto" THEN Adopt(E.r) ELSE UNCHANGED <<applied, queue>>
  /\ UNCHANGED <<chg, actor, digests>>

(* events of other layers (historical reads, storage, sync, ...) are not this layer's business *)
Handled == {"reset", "newrep", "commit", "deliver", "merge", "fork", "forkat", "forkat_err", "setactor",
            "saveload", "missing", "getchanges", "chgdef", "rollback"}
Skip ==
  /\ l <= Len(Rec) /\ E.ev \notin Handled /\ l' = l + 1
  /\ UNCHANGED <<chg, applied, queue, actor, digests>>

Init == l = 1 /\ chg = <<>> /\ applied = <<>> /\ queue = <<>> /\ actor = <<>> /\ digests = <<>>

Next == Reset \/ NewRep \/ Commit \/ Deliver \/ Merge \/ Fork \/ ForkAt \/ ForkAtErr
        \/ SetActor \/ SaveLoad \/ MissingProbe \/ GetChanges \/ ChgDef \/ Skip \/ Rollback

Spec == Init /\ [][Next]_vars

Accepted ==
  LET d == TLCGet("stats").diameter IN
  IF d - 1 = Len(Rec) THEN TRUE
  ELSE Print(<<"REJECTED", d, IF d <= Len(Rec) THEN Rec[d].ev ELSE "?">>, FALSE)
=============================================================================
