--------------------------- MODULE MC_ChangeGraph ---------------------------
EXTENDS ChangeGraph
(* bounded instance: state constraint on the number of changes is built into NewChange *)
=============================================================================
