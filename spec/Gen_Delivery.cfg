SPECIFICATION Spec
CONSTANTS
  Depth = 6
  MaxBatch = 3
INVARIANTS Emit QueueNotReady Closed
CHECK_DEADLOCK FALSE
