SPECIFICATION Spec
CONSTANTS
  Depth = 6
  MaxBatch = 3
  WithBundles = FALSE
INVARIANTS Emit QueueNotReady Closed
CHECK_DEADLOCK FALSE
