------------------------------ MODULE Storage ------------------------------
(* Design-level state machine over the operators of StorageOps.tla (C11-C13). *)
EXTENDS StorageOps

(* Design-level state machine: one writer, abstract change ids 1..n in a    *)
(* chain-with-merges DAG, a file of pieces, crash cuts.                      *)
CONSTANTS MaxChanges, ChunkLen

VARIABLES chg, wapplied, file, snaps, saved
vars == <<chg, wapplied, file, snaps, saved>>
(* snaps[i] = writer's applied set when chunk i was written; saved = applied set covered by the file *)

Init == chg = <<>> /\ wapplied = {} /\ file = <<>> /\ snaps = <<>> /\ saved = {}

Edit ==
  /\ Cardinality(DOMAIN chg) < MaxChanges
  /\ LET c == Cardinality(DOMAIN chg) + 1
         m == CommitMeta(chg, wapplied, 1, <<>>)
     IN  /\ chg' = chg @@ (c :> [actor |-> 1, seq |-> m.seq, startOp |-> m.startOp, nops |-> 1, deps |-> m.deps])
         /\ wapplied' = wapplied \cup {c}
  /\ UNCHANGED <<file, snaps, saved>>

Save ==
  /\ file = <<>> /\ wapplied # {}
  /\ file' = <<[kind |-> "doc", changes |-> wapplied, len |-> ChunkLen]>>
  /\ snaps' = <<wapplied>>
  /\ saved' = wapplied
  /\ UNCHANGED <<chg, wapplied>>

(* save_incremental: one change chunk per change not yet in the file, in causal order *)
RECURSIVE Topo(_, _)
Topo(S, done) ==
  IF S = {} THEN <<>>
  ELSE LET c == CHOOSE x \in S : chg[x].deps \subseteq done IN <<c>> \o Topo(S \ {c}, done \cup {c})

SaveIncremental ==
  /\ file # <<>> /\ wapplied # saved
  /\ LET new == Topo(wapplied \ saved, saved)
         cs == [i \in DOMAIN new |-> [kind |-> "chg", changes |-> {new[i]}, len |-> ChunkLen]]
     IN  /\ file' = file \o cs
         /\ snaps' = snaps \o [i \in DOMAIN new |-> saved \cup {new[j] : j \in 1..i}]
  /\ saved' = wapplied
  /\ UNCHANGED <<chg, wapplied>>

Next == Edit \/ Save \/ SaveIncremental
Spec == Init /\ [][Next]_vars

(* C13: for every cut, a partial load yields exactly the document as of the last chunk wholly   *)
(* inside the cut (empty for an empty prefix, error inside the first chunk); a strict load      *)
(* succeeds only at chunk boundaries.                                                            *)
CrashPrefix ==
  \A cut \in 0..TotalLen(file) :
     LET p == LoadResult(chg, file, cut, FALSE)
         s == LoadResult(chg, file, cut, TRUE)
         k == Whole(file, cut)
     IN  /\ (cut = 0 => p.res = "ok" /\ p.applied = {})
         /\ (cut > 0 /\ k = 0 => p.res = "err")
         /\ (k > 0 => p.res = "ok" /\ p.applied = snaps[k] /\ p.queue = {})
         /\ (s.res = "ok" <=> IsBoundary(file, cut))

(* C11/C12: the whole file loads to the writer's state as of the last save *)
Compose == file # <<>> => LoadResult(chg, file, TotalLen(file), TRUE).applied = saved
=============================================================================
