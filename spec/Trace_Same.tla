----------------------------- MODULE Trace_Same -----------------------------
(***************************************************************************)
(* Convergence as an observation rule (C01, and the observation part of    *)
(* C11/C12): within a scenario, whenever two observations -- of the same   *)
(* replica at different times or of different replicas, however the        *)
(* changes arrived -- report the same set of applied changes, they must    *)
(* show the same document: heads, every register's value set and winner,   *)
(* list/text order, counter values, text, lengths.                         *)
(* seen : applied-set -> first observation with that set.                  *)
(***************************************************************************)
EXTENDS Naturals, Sequences, FiniteSets, TLC, SequencesExt, Json, IOUtils, TLCExt

CONSTANT CHECKS

Rec == ndJsonDeserialize(IOEnv.TRACE)

VARIABLES l, seen
vars == <<l, seen>>

On(p) == p \in CHECKS
Chk(p, name, cond) ==
  IF ~On(p) \/ cond THEN TRUE
  ELSE PrintT(<<"CHECKFAIL", p, name, l>>) /\ FALSE

E == Rec[l]
S(seq) == ToSet(seq)

NormReg(r) == [win |-> r.win, vals |-> S(r.vals)]
NormObj(o) ==
  IF o.ty \in {"map", "table"} THEN [id |-> o.id, ty |-> o.ty, body |-> {[k |-> e.k] @@ NormReg(e) : e \in S(o.ents)}]
  ELSE IF o.ty = "list" THEN [id |-> o.id, ty |-> o.ty, body |-> <<o.len, [i \in DOMAIN o.elems |-> NormReg(o.elems[i])]>>]
  ELSE [id |-> o.id, ty |-> o.ty, body |-> <<o.len, o.text, [i \in DOMAIN o.units |-> NormReg(o.units[i])],
                                             IF "marks" \in DOMAIN o THEN o.marks ELSE <<>>,
                                             IF "spans" \in DOMAIN o THEN o.spans ELSE <<>>>>]
Obs(o) == [heads |-> S(o.heads), view |-> {NormObj(o.view[i]) : i \in DOMAIN o.view}]

HasView == "obs" \in DOMAIN E /\ "view" \in DOMAIN E.obs

Step ==
  /\ l <= Len(Rec)
  /\ l' = l + 1
  /\ IF E.ev = "reset" THEN seen' = <<>>
     ELSE IF E.ev = "readat" THEN
          \* C07: a read at heads H shows the document as it was observed when exactly the ancestors of H were applied
          \* (on any replica, through any path); so does fork_at(H)
          /\ UNCHANGED seen
          /\ ("anc" \in DOMAIN E /\ E.res = "ok" /\ S(E.anc) \in DOMAIN seen) =>
                LET was == seen[S(E.anc)] IN
                /\ Chk("C07", "read-at-heads-equals-the-document-observed-with-exactly-those-changes",
                       was.view = {NormObj(E.view[i]) : i \in DOMAIN E.view})
                /\ Chk("C07", "fork-at-heads-equals-the-document-observed-with-exactly-those-changes",
                       ("fork" \in DOMAIN E /\ "view" \in DOMAIN E.fork) =>
                          /\ was.view = {NormObj(E.fork.view[i]) : i \in DOMAIN E.fork.view}
                          /\ was.heads = S(E.fork.heads) /\ S(E.fork.applied) = S(E.anc))
     ELSE IF ~HasView THEN UNCHANGED seen
     ELSE LET key == S(E.obs.applied)
              o == Obs(E.obs)
          IN  IF key \in DOMAIN seen
              THEN LET P == IF E.ev = "saveload" THEN "C11" ELSE "C01" IN
                   /\ Chk(P, "same-changes-same-heads", seen[key].heads = o.heads)
                   /\ Chk(P, "same-changes-same-document", seen[key].view = o.view)
                   /\ UNCHANGED seen
              ELSE seen' = (key :> o) @@ seen

Init == l = 1 /\ seen = <<>>
Spec == Init /\ [][Step]_vars

Accepted ==
  LET d == TLCGet("stats").diameter IN
  IF d - 1 = Len(Rec) THEN TRUE
  ELSE Print(<<"REJECTED", d, IF d <= Len(Rec) THEN Rec[d].ev ELSE "?">>, FALSE)
=============================================================================
