SPECIFICATION Spec
POSTCONDITION Accepted
CHECK_DEADLOCK FALSE
CONSTANT CHECKS = {"C04","C05","C38","C10","C06","C11"}
