SPECIFICATION Spec
CONSTANTS
  Replicas = {1, 2}
  Depth = 6
  Keys = {"k1"}
  WithList = TRUE
  WithInserts = TRUE
  WithHist = TRUE
  WithRollback = FALSE
INVARIANTS Emit LocalEffect Convergence
CHECK_DEADLOCK FALSE
