SPECIFICATION Spec
CONSTANTS
  Peers = {1, 2}
  MaxChanges = 3
  MaxFP = 1
  ROToggles = 0
  Drops = 0
INVARIANTS NoStuck TypeOK
CONSTRAINT ChanBound
CHECK_DEADLOCK FALSE
