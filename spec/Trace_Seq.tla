----------------------------- MODULE Trace_Seq ------------------------------
(***************************************************************************)
(* Sequential specification of the editing calls (C03), stated on the      *)
(* VIEW only: what the documentation says a call does to the visible       *)
(* document, independent of how the CRDT encodes it.  For every call of    *)
(* every transaction the harness logs the view read through the open       *)
(* transaction before and after the call; the step must satisfy            *)
(*        After = SeqSpec(Before, call)                                    *)
(* and "everything else unchanged": objects other than the target are      *)
(* identical, objects that disappeared were reachable only through a value *)
(* the call removed, objects that appeared were created by the call.       *)
(* A failing call (res is an error) must leave the view untouched, and    *)
(* must fail exactly when the specification says the arguments are bad. *)
(* The committed state must equal the last in-transaction view (C03:       *)
(* "visible inside the open transaction and after commit").                *)
(***************************************************************************)
EXTENDS Naturals, Integers, Sequences, FiniteSets, TLC, SequencesExt, FiniteSetsExt, Json, IOUtils, TLCExt

CONSTANT CHECKS

Rec == ndJsonDeserialize(IOEnv.TRACE)

VARIABLES l, enc
vars == <<l, enc>>

On(p) == p \in CHECKS
Chk(p, name, cond) ==
  IF ~On(p) \/ cond THEN TRUE
  ELSE PrintT(<<"CHECKFAIL", p, name, l>>) /\ FALSE
ChkC(p, name, ci, cond) ==
  IF ~On(p) \/ cond THEN TRUE
  ELSE PrintT(<<"CHECKFAIL", p, name, l>>) /\ PrintT(<<"CALL", ci>>) /\ FALSE

E == Rec[l]
S(seq) == ToSet(seq)

-----------------------------------------------------------------------------
(* normalised views: function object id -> record *)
NormReg(r) == [win |-> r.win, vals |-> S(r.vals)]
NormObj(o) ==
  IF o.ty \in {"map", "table"} THEN
     [ty |-> o.ty, ents |-> [k \in {o.ents[i].k : i \in DOMAIN o.ents} |->
                               NormReg(o.ents[CHOOSE i \in DOMAIN o.ents : o.ents[i].k = k])],
      elems |-> <<>>, len |-> 0, text |-> <<>>]
  ELSE IF o.ty = "list" THEN
     [ty |-> o.ty, ents |-> <<>>, elems |-> [i \in DOMAIN o.elems |-> NormReg(o.elems[i])], len |-> o.len, text |-> <<>>]
  ELSE
     [ty |-> o.ty, ents |-> <<>>, elems |-> [i \in DOMAIN o.units |-> NormReg(o.units[i])], len |-> o.len, text |-> o.text]
Norm(view) == [id \in {view[i].id : i \in DOMAIN view} |-> NormObj(view[CHOOSE i \in DOMAIN view : view[i].id = id])]

(* child object ids referenced from an object / a register *)
RegKids(reg) == {x.id : x \in {y \in reg.vals : y.v.k = "obj"}}
ObjKids(o) == UNION ({RegKids(o.ents[k]) : k \in DOMAIN o.ents} \cup {RegKids(o.elems[i]) : i \in DOMAIN o.elems})

RECURSIVE DescR(_, _, _)
DescR(V, frontier, acc) ==
  IF frontier = {} THEN acc
  ELSE LET nxt == UNION {IF x \in DOMAIN V THEN ObjKids(V[x]) ELSE {} : x \in frontier} \ acc
       IN  DescR(V, nxt, acc \cup nxt)
Desc(V, ids) == DescR(V, ids, ids)

Single(reg, v) == Cardinality(reg.vals) = 1 /\ \A x \in reg.vals : x.v = v /\ reg.win = x.id
SingleObj(reg, ty, id) == Cardinality(reg.vals) = 1 /\ \A x \in reg.vals : x.v.k = "obj" /\ x.v.s = ty /\ x.id = id /\ reg.win = id
IsCtrV(x) == x.v.k = "counter"
HasCtr(reg) == \E x \in reg.vals : IsCtrV(x)
(* the register after increment by n: counters incremented, everything else gone *)
IncReg(reg, n) ==
  LET cs == {x \in reg.vals : IsCtrV(x)}
      vs == {[id |-> x.id, v |-> [x.v EXCEPT !.n = @ + n]] : x \in cs}
  IN  vs
WinOf(vals) == CHOOSE i \in {x.id : x \in vals} :
                 \A j \in {x.id : x \in vals} : j[1] < i[1] \/ (j[1] = i[1] /\ j[2] <= i[2])

EmptyOf(ty) == IF ty \in {"map", "table"} THEN [ty |-> ty, ents |-> <<>>, elems |-> <<>>, len |-> 0, text |-> <<>>]
               ELSE [ty |-> ty, ents |-> <<>>, elems |-> <<>>, len |-> 0, text |-> <<>>]

IsKey(c) == "key" \in DOMAIN c
Ok(c) == c.res = "ok"
IsErr(c) == c.res # "ok" /\ Len(c.res) >= 4 /\ SubSeq(c.res, 1, 4) = "err:"

(* ---- frame conditions: everything outside the target register ---------- *)
(* removed: the set of object ids whose referencing value the call removed *)
Frame(B, A, T, removedKids, created) ==
  /\ DOMAIN A = (DOMAIN B \ Desc(B, removedKids)) \cup created
  /\ \A id \in DOMAIN A \ ({T} \cup created) : A[id] = B[id]

SeqWithout(s, i) == [j \in 1..(Len(s) - 1) |-> IF j < i THEN s[j] ELSE s[j + 1]]

(* ---- per call ----------------------------------------------------------- *)
(* B, A: normalised views before/after; c: the logged call *)
MapCallOK(B, A, c) ==
  LET T == c.obj
      k == c.key
      had == k \in DOMAIN B[T].ents
      old == IF had THEN B[T].ents[k] ELSE [win |-> <<-1, -1>>, vals |-> {}]
      oldKids == RegKids(old)
      others(o) == [x \in DOMAIN o.ents \ {k} |-> o.ents[x]]
      sameOthers == others(A[T]) = others(B[T]) /\ A[T].ty = B[T].ty
  IN
  CASE c.fn = "put" ->
         /\ Ok(c) /\ T \in DOMAIN A /\ k \in DOMAIN A[T].ents
         /\ Single(A[T].ents[k], c.val)
         /\ sameOthers
         /\ Frame(B, A, T, oldKids, {})
    [] c.fn = "put_object" ->
         /\ Ok(c) /\ T \in DOMAIN A /\ k \in DOMAIN A[T].ents
         /\ SingleObj(A[T].ents[k], c.ty, c.ret)
         /\ c.ret \notin DOMAIN B /\ c.ret \in DOMAIN A /\ A[c.ret] = EmptyOf(c.ty)
         /\ sameOthers
         /\ Frame(B, A, T, oldKids, {c.ret})
    [] c.fn = "delete" ->
         /\ Ok(c) /\ T \in DOMAIN A /\ k \notin DOMAIN A[T].ents
         /\ sameOthers
         /\ Frame(B, A, T, oldKids, {})
    [] c.fn = "increment" ->
         IF HasCtr(old)
         THEN /\ Ok(c) /\ T \in DOMAIN A /\ k \in DOMAIN A[T].ents
              /\ A[T].ents[k].vals = IncReg(old, c.by)
              /\ A[T].ents[k].win = WinOf(IncReg(old, c.by))
              /\ sameOthers
              /\ Frame(B, A, T, RegKids([vals |-> {x \in old.vals : ~IsCtrV(x)}]), {})
         ELSE IsErr(c) /\ A = B
    [] OTHER -> FALSE

ListCallOK(B, A, c) ==
  LET T == c.obj
      es == B[T].elems
      n == Len(es)
      i == c.idx + 1
  IN
  CASE c.fn = "insert" ->
         IF c.idx <= n
         THEN /\ Ok(c) /\ T \in DOMAIN A /\ Len(A[T].elems) = n + 1 /\ A[T].len = n + 1
              /\ Single(A[T].elems[i], c.val)
              /\ SeqWithout(A[T].elems, i) = es
              /\ Frame(B, A, T, {}, {})
         ELSE IsErr(c) /\ A = B
    [] c.fn = "insert_object" ->
         IF c.idx <= n
         THEN /\ Ok(c) /\ T \in DOMAIN A /\ Len(A[T].elems) = n + 1 /\ A[T].len = n + 1
              /\ SingleObj(A[T].elems[i], c.ty, c.ret)
              /\ SeqWithout(A[T].elems, i) = es
              /\ c.ret \notin DOMAIN B /\ c.ret \in DOMAIN A /\ A[c.ret] = EmptyOf(c.ty)
              /\ Frame(B, A, T, {}, {c.ret})
         ELSE IsErr(c) /\ A = B
    [] c.fn = "put" ->
         IF c.idx < n
         THEN /\ Ok(c) /\ T \in DOMAIN A /\ Len(A[T].elems) = n /\ A[T].len = n
              /\ Single(A[T].elems[i], c.val)
              /\ \A j \in 1..n : j # i => A[T].elems[j] = es[j]
              /\ Frame(B, A, T, RegKids(es[i]), {})
         ELSE IsErr(c) /\ A = B
    [] c.fn = "delete" ->
         IF c.idx < n
         THEN /\ Ok(c) /\ T \in DOMAIN A /\ A[T].len = n - 1
              /\ A[T].elems = SeqWithout(es, i)
              /\ Frame(B, A, T, RegKids(es[i]), {})
         ELSE IsErr(c) /\ A = B
    [] c.fn = "increment" ->
         IF c.idx < n /\ HasCtr(es[i])
         THEN /\ Ok(c) /\ T \in DOMAIN A /\ Len(A[T].elems) = n
              /\ A[T].elems[i].vals = IncReg(es[i], c.by)
              /\ A[T].elems[i].win = WinOf(IncReg(es[i], c.by))
              /\ \A j \in 1..n : j # i => A[T].elems[j] = es[j]
              /\ Frame(B, A, T, RegKids([vals |-> {x \in es[i].vals : ~IsCtrV(x)}]), {})
         ELSE IsErr(c) /\ A = B
    [] c.fn = "splice" ->
         \* a negative del removes the |del| elements before idx (error if there are fewer)
         LET at == IF c.del < 0 THEN c.idx + c.del ELSE c.idx
             dd == IF c.del < 0 THEN 0 - c.del ELSE c.del
         IN
         IF c.idx <= n /\ at >= 0
         THEN LET d == IF at + dd > n THEN n - at ELSE dd
                  m == Len(c.vals)
              IN  /\ Ok(c) /\ T \in DOMAIN A /\ Len(A[T].elems) = n - d + m /\ A[T].len = n - d + m
                  /\ \A j \in 1..at : A[T].elems[j] = es[j]
                  /\ \A j \in 1..m : Single(A[T].elems[at + j], c.vals[j])
                  /\ \A j \in (at + d + 1)..n : A[T].elems[j - d + m] = es[j]
                  /\ Frame(B, A, T, UNION {RegKids(es[j]) : j \in (at + 1)..(at + d)}, {})
         ELSE IsErr(c) /\ A = B
    [] OTHER -> FALSE

(* text: indexes and lengths are in the units of the document's text encoding (C24).  Tokens  *)
(* are code points; an index is "aligned" when it falls on a code point boundary.  Calls with  *)
(* unaligned indexes are only required to fail cleanly or succeed (their rounding is not part   *)
(* of the property); the grapheme encoding, where widths are not per code point, is checked    *)
(* by Trace_Interp only.                                                                        *)
TokW(t) ==
  IF enc = "u8" THEN (CASE t \in {"eacute", "cacute"} -> 2
                        [] t \in {"euro", "zwj", "vs16", "objrepl"} -> 3
                        [] t \in {"grin", "woman", "laptop"} -> 4
                        [] OTHER -> 1)
  ELSE IF enc = "u16" THEN (IF t \in {"grin", "woman", "laptop"} THEN 2 ELSE 1)
  ELSE 1
RECURSIVE CumW(_, _)
CumW(text, k) == IF k = 0 THEN 0 ELSE CumW(text, k - 1) + TokW(text[k])
AlignedK(text, u) == {k \in 0..Len(text) : CumW(text, k) = u}
HasMat(o) == "mat" \in DOMAIN o
MatOf(view, id) == LET o == view[CHOOSE i \in DOMAIN view : view[i].id = id] IN
                   IF HasMat(o) THEN [u \in DOMAIN o.mat |-> S(o.mat[u])] ELSE <<>>

TextCallOK(B, A, c, before, after) ==
  LET T == c.obj
      old == B[T].text
      n == B[T].len
  IN
  CASE c.fn = "splice_text" ->
         IF enc \in {"cp", "u8", "u16"} THEN
           LET at == IF c.del < 0 THEN c.idx + c.del ELSE c.idx
               dd == IF c.del < 0 THEN 0 - c.del ELSE c.del
               to == IF at + dd > n THEN n ELSE at + dd
           IN
           IF c.idx <= n /\ at >= 0
           THEN IF AlignedK(old, at) # {} /\ AlignedK(old, to) # {}
                THEN LET ka == CHOOSE k \in AlignedK(old, at) : TRUE
                         kb == CHOOSE k \in AlignedK(old, to) : TRUE
                     IN /\ Ok(c) /\ T \in DOMAIN A
                        /\ A[T].text = SubSeq(old, 1, ka) \o c.toks \o SubSeq(old, kb + 1, Len(old))
                        /\ A[T].len = n - (to - at) + CumW(c.toks, Len(c.toks))
                        /\ \A id \in DOMAIN A \ {T} : id \in DOMAIN B /\ A[id] = B[id]
                ELSE IsErr(c) => A = B
           ELSE IsErr(c) /\ A = B
         ELSE IF IsErr(c) THEN A = B ELSE TRUE
    [] c.fn = "delete" /\ ~IsKey(c) ->
         \* delete(text, i) removes the character at i; an index past the end is an error
         IF enc \in {"cp", "u8", "u16"} THEN
           IF c.idx < n
           THEN IF AlignedK(old, c.idx) # {}
                THEN LET ka == CHOOSE k \in AlignedK(old, c.idx) : TRUE IN
                     /\ Ok(c) /\ T \in DOMAIN A
                     /\ A[T].text = SubSeq(old, 1, ka) \o SubSeq(old, ka + 2, Len(old))
                     /\ A[T].len = n - TokW(old[ka + 1])
                ELSE IsErr(c) => A = B
           ELSE IsErr(c) /\ A = B
         ELSE IF IsErr(c) THEN A = B ELSE TRUE
    [] c.fn \in {"mark", "unmark"} ->
         \* the new mark has the greatest id, so its value shows on exactly the units [start, end)
         IF enc \in {"cp", "u8", "u16"} /\ HasMat(before[CHOOSE i \in DOMAIN before : before[i].id = T])
         THEN IF c.start <= c.end /\ c.end <= n
              THEN IF AlignedK(old, c.start) # {} /\ AlignedK(old, c.end) # {}
                   THEN LET mb == MatOf(before, T)
                            ma == MatOf(after, T)
                            v == IF c.fn = "unmark" THEN [k |-> "null", s |-> "", n |-> 0, toks |-> <<>>] ELSE c.val
                            upd(ms) == {m \in ms : m.name # c.name} \cup
                                       (IF v.k = "null" THEN {} ELSE {[name |-> c.name, v |-> v]})
                        IN /\ Ok(c) /\ T \in DOMAIN A
                           /\ A[T].text = old /\ A[T].len = n
                           /\ Len(ma) = Len(mb)
                           /\ \A u \in DOMAIN mb :
                                 ma[u] = IF u > c.start /\ u <= c.end THEN upd(mb[u]) ELSE mb[u]
                           /\ \A id \in DOMAIN A \ {T} : id \in DOMAIN B /\ A[id] = B[id]
                   ELSE IsErr(c) => A = B
              ELSE IF c.start > c.end /\ c.start <= n
                   THEN before = after      \* reversed range: an error or an empty result (C37)
                   ELSE IsErr(c) /\ before = after
         ELSE IF IsErr(c) THEN A = B ELSE TRUE
    [] c.fn = "split_block" ->
         \* a new, empty map object stands at idx (one object-replacement character in the text)
         IF enc \in {"cp", "u8", "u16"} THEN
           IF c.idx <= n
           THEN IF AlignedK(old, c.idx) # {}
                THEN LET ka == CHOOSE k \in AlignedK(old, c.idx) : TRUE IN
                     /\ Ok(c) /\ T \in DOMAIN A
                     /\ A[T].text = SubSeq(old, 1, ka) \o <<"objrepl">> \o SubSeq(old, ka + 1, Len(old))
                     /\ A[T].len = n + TokW("objrepl")
                     /\ c.ret \in DOMAIN A /\ c.ret \notin DOMAIN B
                     /\ A[c.ret].ty = "map" /\ DOMAIN A[c.ret].ents = {}
                     /\ \A id \in DOMAIN A \ {T, c.ret} : id \in DOMAIN B /\ A[id] = B[id]
                     /\ \A id \in DOMAIN B : id \in DOMAIN A
                ELSE IsErr(c) => A = B
           ELSE IsErr(c) /\ A = B
         ELSE IF IsErr(c) THEN A = B ELSE TRUE
    [] c.fn \in {"join_block", "replace_block"} ->
         \* join: the block marker at idx goes away; replace: a fresh empty block takes its place.  What the calls do
         \* when a character (not a block) stands at idx is not documented: an error that changes nothing, or the
         \* same effect on that element, are both accepted.
         IF enc \in {"cp", "u8", "u16"} THEN
           IF c.idx < n
           THEN IF AlignedK(old, c.idx) # {}
                THEN LET ka == CHOOSE k \in AlignedK(old, c.idx) : TRUE
                         isblock == old[ka + 1] = "objrepl"
                         without == SubSeq(old, 1, ka) \o SubSeq(old, ka + 2, Len(old))
                         effect ==
                           /\ Ok(c) /\ T \in DOMAIN A
                           /\ IF c.fn = "join_block"
                              THEN /\ A[T].text = without /\ A[T].len = n - TokW(old[ka + 1])
                                   /\ \A id \in DOMAIN A \ {T} : id \in DOMAIN B /\ A[id] = B[id]
                              ELSE /\ A[T].text = SubSeq(old, 1, ka) \o <<"objrepl">> \o SubSeq(old, ka + 2, Len(old))
                                   /\ A[T].len = n - TokW(old[ka + 1]) + TokW("objrepl")
                                   /\ c.ret \in DOMAIN A /\ c.ret \notin DOMAIN B
                                   /\ A[c.ret].ty = "map" /\ DOMAIN A[c.ret].ents = {}
                                   /\ \A id \in DOMAIN A \ {T, c.ret} : id \in DOMAIN B /\ A[id] = B[id]
                     IN  IF isblock THEN effect ELSE (IsErr(c) /\ A = B) \/ effect
                ELSE IsErr(c) => A = B
           ELSE IsErr(c) /\ A = B
         ELSE IF IsErr(c) THEN A = B ELSE TRUE
    [] c.fn \in {"put", "put_object", "increment", "delete"} /\ IsKey(c) -> IsErr(c) /\ A = B
    [] c.fn \in {"insert", "splice"} -> IsErr(c) /\ A = B
    [] OTHER -> IF IsErr(c) THEN A = B ELSE TRUE

(* ---- reconciliation and bulk construction (C27) ------------------------- *)
(* The image of an object: its value with ids and conflict markers forgotten  *)
(* (winners only), in the shape of the value arguments of these calls.        *)
WinVal(reg) == CHOOSE x \in reg.vals : x.id = reg.win
RECURSIVE ImgObj(_, _)
ImgVal(V, x) == IF x.v.k = "obj" THEN ImgObj(V, x.id) ELSE [t |-> "scalar", v |-> x.v]
ImgObj(V, id) ==
  LET o == V[id] IN
  IF o.ty \in {"map", "table"} THEN [t |-> "map", ents |-> {[k |-> k, v |-> ImgVal(V, WinVal(o.ents[k]))] : k \in DOMAIN o.ents}]
  ELSE IF o.ty = "list" THEN [t |-> "seq", items |-> [i \in DOMAIN o.elems |-> ImgVal(V, WinVal(o.elems[i]))]]
  ELSE [t |-> "text", toks |-> o.text]
RECURSIVE NormVal(_)
NormVal(j) ==
  IF j.t = "map" THEN [t |-> "map", ents |-> {[k |-> j.ents[i].k, v |-> NormVal(j.ents[i].v)] : i \in DOMAIN j.ents}]
  ELSE IF j.t = "seq" THEN [t |-> "seq", items |-> [i \in DOMAIN j.items |-> NormVal(j.items[i])]]
  ELSE IF j.t = "text" THEN [t |-> "text", toks |-> j.toks]
  ELSE [t |-> "scalar", v |-> j.v]
KindOf(j) == IF j.t = "map" THEN {"map", "table"} ELSE IF j.t = "seq" THEN {"list"} ELSE IF j.t = "text" THEN {"text"} ELSE {}
(* a register that holds exactly one value whose image is the given value *)
HoldsValue(V, reg, j) ==
  /\ Cardinality(reg.vals) = 1
  /\ \A x \in reg.vals : reg.win = x.id /\ ImgVal(V, x) = NormVal(j)
OutsideUnchanged(B, A, roots) == \A id \in DOMAIN B \ Desc(B, roots) : id \in DOMAIN A /\ A[id] = B[id]

IsBulk(c) == c.fn \in {"update_text", "update_object", "batch_create", "splice_values", "init_root", "update_spans"}

(* update_spans: the spans read back equal the given spans once adjacent text spans with equal marks are merged
   (and empty text spans dropped); a block is compared by the value of its map *)
SpanItem(s) == IF s.t = "block" THEN [t |-> "block", v |-> NormVal(s.value)]
               ELSE [t |-> "text", toks |-> s.toks, marks |-> {<<s.marks[i].name, s.marks[i].v>> : i \in DOMAIN s.marks}]
RECURSIVE MergeSpansR(_, _, _)
MergeSpansR(sp, i, acc) ==
  IF i > Len(sp) THEN acc
  ELSE LET s == SpanItem(sp[i])
           n == Len(acc)
       IN  IF s.t = "text" /\ Len(s.toks) = 0 THEN MergeSpansR(sp, i + 1, acc)
           ELSE IF s.t = "text" /\ n > 0 /\ acc[n].t = "text" /\ acc[n].marks = s.marks
                THEN MergeSpansR(sp, i + 1, [acc EXCEPT ![n] = [t |-> "text", toks |-> acc[n].toks \o s.toks, marks |-> s.marks]])
                ELSE MergeSpansR(sp, i + 1, Append(acc, s))
MergeSpans(sp) == MergeSpansR(sp, 1, <<>>)
RECURSIVE SpansText(_, _)
SpansText(sp, i) == IF i > Len(sp) THEN <<>>
                    ELSE (IF sp[i].t = "block" THEN <<"objrepl">> ELSE sp[i].toks) \o SpansText(sp, i + 1)
BulkOK(B, A, c) ==
  LET T == c.obj
      ty == B[T].ty
  IN
  CASE c.fn = "update_text" ->
         IF ty = "text"
         THEN /\ Ok(c) /\ T \in DOMAIN A /\ A[T].text = c.toks
              /\ OutsideUnchanged(B, A, {T})      \* (block markers inside the text are its descendants)
         ELSE IsErr(c) /\ A = B
    [] c.fn = "update_spans" ->
         IF ty = "text"
         THEN /\ Ok(c) /\ "got" \in DOMAIN c /\ MergeSpans(c.got) = MergeSpans(c.spans)
              /\ T \in DOMAIN A /\ A[T].text = SpansText(c.spans, 1)
              /\ OutsideUnchanged(B, A, {T})
         ELSE IsErr(c) /\ A = B
    [] c.fn = "update_object" ->
         IF ty \in KindOf(c.value)
         THEN /\ Ok(c) /\ T \in DOMAIN A /\ ImgObj(A, T) = NormVal(c.value)
              /\ OutsideUnchanged(B, A, {T})
         ELSE IsErr(c) /\ A = B
    [] c.fn = "batch_create" ->
         IF ty \in {"map", "table"} THEN
           IF IsKey(c)
           THEN /\ Ok(c) /\ T \in DOMAIN A /\ c.key \in DOMAIN A[T].ents
                /\ HoldsValue(A, A[T].ents[c.key], c.value)
                /\ [k \in DOMAIN A[T].ents \ {c.key} |-> A[T].ents[k]] = [k \in DOMAIN B[T].ents \ {c.key} |-> B[T].ents[k]]
                /\ OutsideUnchanged(B, A, {T} \cup (IF c.key \in DOMAIN B[T].ents THEN RegKids(B[T].ents[c.key]) ELSE {}))
           ELSE IsErr(c) /\ A = B
         ELSE IF ty = "list" /\ ~IsKey(c) THEN
           LET es == B[T].elems
               n == Len(es)
               i == c.idx + 1
           IN  IF c.insert
               THEN IF c.idx <= n
                    THEN /\ Ok(c) /\ T \in DOMAIN A /\ Len(A[T].elems) = n + 1
                         /\ HoldsValue(A, A[T].elems[i], c.value)
                         /\ SeqWithout(A[T].elems, i) = es
                         /\ OutsideUnchanged(B, A, {T})
                    ELSE IsErr(c) /\ A = B
               ELSE IF c.idx < n
                    THEN /\ Ok(c) /\ T \in DOMAIN A /\ Len(A[T].elems) = n
                         /\ HoldsValue(A, A[T].elems[i], c.value)
                         /\ \A j \in 1..n : j # i => A[T].elems[j] = es[j]
                         /\ OutsideUnchanged(B, A, {T} \cup RegKids(es[i]))
                    ELSE IsErr(c) /\ A = B
         ELSE IsErr(c) /\ A = B
    [] c.fn = "init_root" ->
         \* every key of the value holds (the image of) its value; the other keys of the root are left as they are
         LET keys == {c.value.ents[i].k : i \in DOMAIN c.value.ents}
             valOf(k) == c.value.ents[CHOOSE i \in DOMAIN c.value.ents : c.value.ents[i].k = k].v
         IN  /\ Ok(c) /\ T \in DOMAIN A
             /\ \A k \in keys : k \in DOMAIN A[T].ents /\
                   (\E x \in A[T].ents[k].vals : x.id = A[T].ents[k].win /\ ImgVal(A, x) = NormVal(valOf(k)))
             /\ \A k \in DOMAIN B[T].ents \ keys : k \in DOMAIN A[T].ents /\ A[T].ents[k] = B[T].ents[k]
    [] c.fn = "splice_values" ->
         IF ty = "list"
         THEN LET es == B[T].elems
                  n == Len(es)
                  m == Len(c.values)
              IN  IF c.idx <= n
                  THEN /\ Ok(c) /\ T \in DOMAIN A /\ Len(A[T].elems) = n + m
                       /\ \A j \in 1..c.idx : A[T].elems[j] = es[j]
                       /\ \A j \in 1..m : HoldsValue(A, A[T].elems[c.idx + j], c.values[j])
                       /\ \A j \in (c.idx + 1)..n : A[T].elems[j + m] = es[j]
                       /\ OutsideUnchanged(B, A, {T})
                  ELSE IsErr(c) /\ A = B
         ELSE IsErr(c) /\ A = B
    [] OTHER -> FALSE

CallOK(c) ==
  LET B == Norm(c.before)
      A == Norm(c.after)
  IN  IF c.obj \notin DOMAIN B THEN IsErr(c) /\ A = B
      ELSE IF IsBulk(c) THEN BulkOK(B, A, c)
      ELSE IF B[c.obj].ty \in {"map", "table"}
           THEN IF IsKey(c) THEN MapCallOK(B, A, c) ELSE IsErr(c) /\ A = B
      ELSE IF B[c.obj].ty = "list"
           THEN IF IsKey(c) THEN IsErr(c) /\ A = B ELSE ListCallOK(B, A, c)
      ELSE TextCallOK(B, A, c, c.before, c.after)

Commit ==
  /\ l <= Len(Rec) /\ E.ev = "commit" /\ l' = l + 1
  /\ "calls" \in DOMAIN E
  /\ \A ci \in DOMAIN E.calls :
        /\ ChkC("C06", "failed-call-changes-nothing", ci,
                IsErr(E.calls[ci]) => E.calls[ci].before = E.calls[ci].after)
        /\ ChkC("C03", "call-has-sequential-effect", ci, CallOK(E.calls[ci]))
        /\ ChkC("C29", "isolated-call-acts-on-the-isolated-state", ci, Len(E.iso) > 0 => CallOK(E.calls[ci]))
        /\ ChkC("C24", "call-indexes-are-in-encoding-units", ci, CallOK(E.calls[ci]))
        /\ ChkC("C27", "bulk-call-reaches-its-target-value", ci, IsBulk(E.calls[ci]) => CallOK(E.calls[ci]))
        /\ ChkC("C25", "mark-call-has-sequential-effect", ci, E.calls[ci].fn \in {"mark", "unmark"} => CallOK(E.calls[ci]))
  /\ \A ci \in 1..(Len(E.calls) - 1) :
        ChkC("C03", "reads-stable-between-calls", ci, E.calls[ci].after = E.calls[ci + 1].before)
  \* the same calls through an AutoCommit copy with the same actor: same results, same view after every call,
  \* the same committed change (hash)
  /\ Chk("C03", "autocommit-front-end-agrees-with-the-transaction", "auto" \in DOMAIN E => E.auto.same)
  /\ Chk("C03", "committed-state-equals-last-transaction-view",
         (Len(E.calls) > 0 /\ "view" \in DOMAIN E.obs /\ Len(E.iso) = 0)
            => E.obs.view = E.calls[Len(E.calls)].after)
  /\ UNCHANGED enc

Other ==
  /\ l <= Len(Rec) /\ E.ev # "commit" /\ l' = l + 1
  /\ enc' = IF E.ev = "reset" THEN E.enc ELSE enc

Init == l = 1 /\ enc = "cp"
Spec == Init /\ [][Commit \/ Other]_vars

Accepted ==
  LET d == TLCGet("stats").diameter IN
  IF d - 1 = Len(Rec) THEN TRUE
  ELSE Print(<<"REJECTED", d, IF d <= Len(Rec) THEN Rec[d].ev ELSE "?">>, FALSE)
=============================================================================
