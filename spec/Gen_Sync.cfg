SPECIFICATION GSpec
CONSTANTS
  Peers = {1, 2}
  MaxChanges = 3
  MaxFP = 1
  ROToggles = 0
  Drops = 0
  Depth = 30
INVARIANTS Emit NoStuck
CONSTRAINT ChanBound
CHECK_DEADLOCK FALSE
