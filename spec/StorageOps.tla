---------------------------- MODULE StorageOps -----------------------------
(***************************************************************************)
(* Append-only storage files (C11 - C14).  A file is a sequence of chunks  *)
(*   [kind \in {"doc","chg"}, changes : set of change ids, len : Nat]      *)
(* written by save() (one "doc" chunk holding every applied change, then   *)
(* one "chg" chunk per queued orphan) and save_after(H) / save_incremental *)
(* (one "chg" chunk per change that is not an ancestor of H).              *)
(* Loading applies the changes of the chunks it reads through the causal   *)
(* delivery rules of Graph.tla.                                            *)
(*   strict load : every byte must belong to a complete, valid chunk       *)
(*   partial load: the first chunk must be complete and valid; after that  *)
(*                 chunks are read until the first incomplete/invalid one  *)
(***************************************************************************)
EXTENDS Graph

(* ---- pure operators shared with the trace specification ---------------- *)
RECURSIVE Offsets(_, _)
Offsets(chunks, start) ==       \* end offset of every chunk
  IF chunks = <<>> THEN <<>> ELSE <<start + Head(chunks).len>> \o Offsets(Tail(chunks), start + Head(chunks).len)

TotalLen(chunks) == IF chunks = <<>> THEN 0 ELSE Offsets(chunks, 0)[Len(chunks)]

(* number of chunks wholly inside the first `cut` bytes *)
Whole(chunks, cut) == Cardinality({i \in DOMAIN chunks : Offsets(chunks, 0)[i] <= cut})

IsBoundary(chunks, cut) == cut = 0 \/ \E i \in DOMAIN chunks : Offsets(chunks, 0)[i] = cut

ChangesOf(chunks, k) == UNION {chunks[i].changes : i \in 1..k}

(* what a load of the first `cut` bytes must produce: [res, applied, queue] *)
LoadResult(chg, chunks, cut, strict) ==
  LET k == Whole(chunks, cut)
      all == ChangesOf(chunks, k)
      rdy == Ready(chg, {}, all)
  IN  IF cut = 0 THEN [res |-> "ok", applied |-> {}, queue |-> {}]
      ELSE IF k = 0 THEN [res |-> "err", applied |-> {}, queue |-> {}]
      ELSE IF strict /\ ~IsBoundary(chunks, cut) THEN [res |-> "err", applied |-> {}, queue |-> {}]
      ELSE [res |-> "ok", applied |-> rdy, queue |-> all \ rdy]

=============================================================================
